---- MODULE GraphImpl ----
(***************************************************************************)
(* Code-shaped layer of wac_graph::CompositionGraph (crates/wac-graph/src/ *)
(* graph.rs): one operator per public method, keeping the same redundant   *)
(* bookkeeping the code keeps:                                             *)
(*   g.nodes[n].sat   the per-instantiation satisfied-argument set, kept   *)
(*                    *besides* the argument edges                          *)
(*   g.nodes[n].exp   the node's `export` field, kept *besides* g.exports   *)
(*   g.imports / g.exports / g.defined   the three name/type maps           *)
(*   g.edges          petgraph edges [t, src, dst, lab]                     *)
(*   g.panic          set when the code would hit an assert!/expect/index   *)
(* Deliberate deviations of the code from the contract are named constants *)
(* (DEV_x): TRUE reproduces     the behaviour of the code as it was found,     *)
(* FALSE the repaired behaviour.  TLC checks that this layer refines       *)
(* GraphAbs (RefinesAbs), keeps its redundant variables consistent         *)
(* (Consistent) and never panics (NoPanic).                                *)
(***************************************************************************)
EXTENDS GraphAbs

CONSTANTS
  DEV_StaleSat,      \* remove_node / unregister_package do not clear satisfied bits of surviving targets
  DEV_StaleExports,  \* remove_node / unexport release only the node's last export name
  DEV_DoubleRemove,  \* remove_node removes a dependant reachable twice a second time (panic)
  DEV_UndefDep,      \* a definition whose dependency is not defined encodes to an invalid component
  DEV_DefRename,     \* exporting a definition under a further name replaces the name it is encoded under
  DEV_NameCase,      \* names are compared exactly: `foo` and `FOO` are both accepted (the encoding is invalid)
  DEV_DefLocator,    \* define_type accepts the locator names (url=<..>, ...) that export() refuses
  DEV_KindBound,     \* (KF31) a name bound to a kind of item ([method]r.m, ...) is accepted for any item
  DEV_UnnamedDef,    \* (KF32) define_type accepts the world type of a package; encode panics ("world must have an id")
  InitReg           \* packages registered before the explored history starts (registered by the
                     \* first operations of every history)

VARIABLES g, hist
vars == <<g, hist>>

INode(k, pkg, item, imp, exp) ==
  [k |-> k, pkg |-> pkg, item |-> item, named |-> FALSE, imp |-> imp, exp |-> exp, sat |-> {}]

EmptyImpl == [reg |-> {}, nodes |-> <<>>, edges |-> {}, imports |-> <<>>, exports |-> <<>>,
              defined |-> <<>>, panic |-> FALSE]

ILive(s) == DOMAIN s.nodes
INewId(s) == IF NodeIds \ ILive(s) = {} THEN 0
             ELSE CHOOSE i \in NodeIds \ ILive(s) : \A j \in NodeIds \ ILive(s) : i <= j
Edge(t, src, dst, lab) == [t |-> t, src |-> src, dst |-> dst, lab |-> lab]
In(s, n) == {e \in s.edges : e.dst = n}
Out(s, n) == {e \in s.edges : e.src = n}
Without(f, k) == Restrict(f, DOMAIN f \ {k})

\* the abstract state this implementation state stands for
AbsView(s) ==
  [reg |-> s.reg,
   nodes |-> [n \in ILive(s) |-> [k |-> s.nodes[n].k, pkg |-> s.nodes[n].pkg, item |-> s.nodes[n].item,
                                   named |-> s.nodes[n].named, imp |-> s.nodes[n].imp]],
   args |-> {[inst |-> e.dst, arg |-> e.lab, src |-> e.src] : e \in {x \in s.edges : x.t = "arg"}},
   aliases |-> {[src |-> e.src, exp |-> e.lab, node |-> e.dst] : e \in {x \in s.edges : x.t = "alias"}},
   exports |-> s.exports]

IRes(tag, next) == [res |-> tag, next |-> next]
Panic(s) == IRes("panic", [s EXCEPT !.panic = TRUE])

(***************************************************************************)
(* One operator per method.                                                *)
(***************************************************************************)
IRegister(s, p) ==
  IF \E q \in s.reg : PkgKey[q] = PkgKey[p] THEN IRes("PackageAlreadyRegistered", s)
  ELSE IRes("ok", [s EXCEPT !.reg = @ \cup {p}])

\* graph.retain_nodes: the nodes and all their edges go; nothing else is touched
DropNodes(s, R) ==
  [s EXCEPT !.nodes = Restrict(@, ILive(s) \ R),
            !.edges = {e \in @ : e.src \notin R /\ e.dst \notin R}]

\* repaired behaviour: clear the satisfied bit of every surviving target of a removed argument edge
ClearSat(s, R) ==
  [s EXCEPT !.nodes = [n \in DOMAIN @ |->
      IF n \in R THEN @[n]
      ELSE [@[n] EXCEPT !.sat = @ \ {e.lab : e \in {x \in s.edges : x.t = "arg" /\ x.dst = n /\ x.src \in R}}]]]

IUnregister(s, p) ==
  LET R == {n \in ILive(s) : s.nodes[n].pkg = p}
      s1 == [s EXCEPT !.exports = Restrict(@, {x \in DOMAIN @ : @[x] \notin R}),
                      !.defined = Restrict(@, {x \in DOMAIN @ : @[x] \notin R}),
                      !.imports = Restrict(@, {x \in DOMAIN @ : @[x] \notin R})]
      s2 == IF DEV_StaleSat THEN s1 ELSE ClearSat(s1, R)
  IN IRes("ok", [DropNodes(s2, R) EXCEPT !.reg = @ \ {p}])

\* the name maps are keyed by the exact string; the repaired code also looks for a key of the same fold
ITaken(names, name) == IF DEV_NameCase THEN name \in names ELSE Taken(names, name)

IDefineType(s, name, t) ==
  IF t \in DOMAIN s.defined THEN IRes("TypeAlreadyDefined", s)
  ELSE IF DefClass[t] = "resource" THEN IRes("CannotDefineResource", s)
  ELSE IF ITaken(DOMAIN s.exports, name) THEN IRes("ExportConflict", s)
  ELSE IF name \notin ValidNames \/ (~DEV_DefLocator /\ IsLocator(name)) THEN IRes("InvalidExternName", s)
  ELSE LET n == INewId(s)
           deps == {Edge("dep", s.defined[d], n, NONE) : d \in DefDeps[t] \cap DOMAIN s.defined}
           rdeps == {Edge("dep", n, s.defined[o], NONE) : o \in {x \in DOMAIN s.defined : t \in DefDeps[x]}}
       IN IRes("ok", [s EXCEPT !.nodes = Extend(@, n, INode("def", NONE, TypeKind(t), NONE, name)),
                               !.edges = @ \cup deps \cup rdeps,
                               !.defined = Extend(@, t, n),
                               !.exports = Extend(@, name, n)])

IImport(s, name, kname) ==
  IF ITaken(DOMAIN s.imports, name) THEN IRes("ImportAlreadyExists", s)
  ELSE IF name \notin ValidNames THEN IRes("InvalidImportName", s)
  ELSE LET n == INewId(s)
       IN IRes("ok", [s EXCEPT !.nodes = Extend(@, n, INode("imp", NONE, KindTab[kname], name, NONE)),
                               !.imports = Extend(@, name, n)])

IInstantiate(s, p) ==
  IRes("ok", [s EXCEPT !.nodes = Extend(@, INewId(s), INode("inst", p, InstKind(p), NONE, NONE))])

IAlias(s, n, e) ==
  LET item == s.nodes[n].item
  IN IF ~IsInstance(item) THEN IRes("NodeIsNotAnInstance", s)
     ELSE IF e \notin DOMAIN item.ex THEN IRes("InstanceMissingExport", s)
     ELSE IF \E x \in Out(s, n) : x.t = "alias" /\ x.lab = e THEN IRes("ok", s)
     ELSE LET a == INewId(s)
          IN IRes("ok", [s EXCEPT !.nodes = Extend(@, a, INode("alias", s.nodes[n].pkg, item.ex[e], NONE, NONE)),
                                  !.edges = @ \cup {Edge("alias", n, a, e)}])

ISetArg(s, i, a, src) ==
  IF s.nodes[i].k # "inst" THEN IRes("NodeIsNotAnInstantiation", s)
  ELSE IF a \notin SeqNames(PkgImports[s.nodes[i].pkg]) THEN IRes("InvalidArgumentName", s)
  ELSE IF \E x \in In(s, i) : x.t # "arg" THEN Panic(s)     \* "unexpected edge for an instantiation"
  ELSE IF \E x \in In(s, i) : x.lab = a /\ x.src = src THEN IRes("ok", s)
  ELSE IF \E x \in In(s, i) : x.lab = a THEN IRes("ArgumentAlreadyPassed", s)
  ELSE IF ~Sub(s.nodes[src].item, ImportFun(s.nodes[i].pkg)[a]) THEN IRes("ArgumentTypeMismatch", s)
  ELSE IF a \in s.nodes[i].sat THEN Panic(s)                 \* add_satisfied_arg: assert!(inserted)
  ELSE IRes("ok", [s EXCEPT !.edges = @ \cup {Edge("arg", src, i, a)},
                            !.nodes[i].sat = @ \cup {a}])

IUnsetArg(s, i, a, src) ==
  IF s.nodes[i].k # "inst" THEN IRes("NodeIsNotAnInstantiation", s)
  ELSE IF a \notin SeqNames(PkgImports[s.nodes[i].pkg]) THEN IRes("InvalidArgumentName", s)
  ELSE IF Edge("arg", src, i, a) \notin s.edges THEN IRes("ok", s)
  ELSE IF a \notin s.nodes[i].sat THEN Panic(s)              \* remove_satisfied_arg: assert!(removed)
  ELSE IRes("ok", [s EXCEPT !.edges = @ \ {Edge("arg", src, i, a)},
                            !.nodes[i].sat = @ \ {a}])

IExport(s, n, name) ==
  IF ITaken(DOMAIN s.exports, name) THEN IRes("ExportAlreadyExists", s)
  ELSE IF name \notin ValidNames \/ IsLocator(name) THEN IRes("InvalidExportName", s)
  ELSE IRes("ok", [s EXCEPT !.nodes[n].exp = name, !.exports = Extend(@, name, n)])

NamesOf(s, n) == {x \in DOMAIN s.exports : s.exports[x] = n}

IUnexport(s, n) ==
  IF s.nodes[n].k = "def" THEN IRes("MustExportDefinition", s)
  ELSE IF DEV_StaleExports
       THEN IF s.nodes[n].exp = NONE THEN IRes("ok", s)
            ELSE IF s.nodes[n].exp \notin DOMAIN s.exports THEN Panic(s)
            ELSE IRes("ok", [s EXCEPT !.nodes[n].exp = NONE, !.exports = Without(@, s.nodes[n].exp)])
       ELSE IRes("ok", [s EXCEPT !.nodes[n].exp = NONE,
                                 !.exports = Restrict(@, DOMAIN @ \ NamesOf(s, n))])

ISetName(s, n) == IRes("ok", [s EXCEPT !.nodes[n].named = TRUE])

\* remove_node: recursive, dependants (alias and dependency targets) first
RECURSIVE IRemoveRec(_, _)
RECURSIVE IRemoveAll(_, _)
IRemoveAll(s, T) ==
  IF T = {} \/ s.panic THEN s
  ELSE LET t == CHOOSE x \in T : TRUE
       IN IRemoveAll(IRemoveRec(s, t), T \ {t})
IRemoveRec(s, n) ==
  IF s.panic THEN s
  ELSE IF n \notin ILive(s)
       THEN IF DEV_DoubleRemove THEN [s EXCEPT !.panic = TRUE]   \* expect("invalid node id")
            ELSE s
  ELSE
    LET targets == {e.dst : e \in {x \in Out(s, n) : x.t \in {"alias", "dep"}}}
        \* the code walks the targets in edge order (not modelled): some order removes a node twice
        \* iff one target is a dependant of another
        twice == \E t1, t2 \in targets : t1 # t2 /\ t2 \in Closure(AbsView(s), {t1})
        s1 == IF DEV_DoubleRemove /\ twice THEN [s EXCEPT !.panic = TRUE] ELSE IRemoveAll(s, targets)
    IN IF s1.panic THEN s1
       ELSE
         LET node == s1.nodes[n]
             s2 == IF DEV_StaleSat THEN s1 ELSE ClearSat(s1, {n})
             s3 == DropNodes(s2, {n})
             \* the three map clean-ups assert that the entry existed
             bad == \/ node.imp # NONE /\ node.imp \notin DOMAIN s3.imports
                    \/ node.exp # NONE /\ node.exp \notin DOMAIN s3.exports
                    \/ node.k = "def" /\ node.item.id \notin DOMAIN s3.defined
             s4 == [s3 EXCEPT
                      !.imports = IF node.imp # NONE THEN Without(@, node.imp) ELSE @,
                      !.exports = IF DEV_StaleExports
                                  THEN (IF node.exp # NONE THEN Without(@, node.exp) ELSE @)
                                  ELSE Restrict(@, {x \in DOMAIN @ : @[x] # n}),
                      !.defined = IF node.k = "def" THEN Without(@, node.item.id) ELSE @]
         IN IF bad THEN [s3 EXCEPT !.panic = TRUE] ELSE s4

IRemove(s, n) ==
  LET s1 == IRemoveRec(s, n) IN IF s1.panic THEN IRes("panic", s1) ELSE IRes("ok", s1)

IApply(s, o) ==
  CASE o.op = "register"    -> IRegister(s, o.s1)
    [] o.op = "unregister"  -> IUnregister(s, o.s1)
    [] o.op = "define_type" -> IDefineType(s, o.s1, o.s2)
    [] o.op = "import"      -> IImport(s, o.s1, o.s2)
    [] o.op = "instantiate" -> IInstantiate(s, o.s1)
    [] o.op = "alias"       -> IAlias(s, o.n1, o.s1)
    [] o.op = "set_arg"     -> ISetArg(s, o.n1, o.s1, o.n2)
    [] o.op = "unset_arg"   -> IUnsetArg(s, o.n1, o.s1, o.n2)
    [] o.op = "export"      -> IExport(s, o.n1, o.s1)
    [] o.op = "unexport"    -> IUnexport(s, o.n1)
    [] o.op = "set_name"    -> ISetName(s, o.n1)
    [] o.op = "remove"      -> IRemove(s, o.n1)

(***************************************************************************)
(* Queries and encode as the code computes them (from its own bookkeeping).*)
(***************************************************************************)
IInstNodes(s) == {n \in ILive(s) : s.nodes[n].k = "inst"}
\* imports(): unsatisfied arguments are read off the satisfied *set*, not the edges
IImportsImplicit(s) ==
  UNION {SeqNames(PkgImports[s.nodes[i].pkg]) \ s.nodes[i].sat : i \in IInstNodes(s)}

\* encode(): arguments come from the edges, implicit imports from the satisfied set; an argument
\* that is in neither is missing from the instantiation and the output does not validate
\* known-finding shapes (see /verif/known_findings.json): state predicates naming exactly the
\* situations in which the code as it stands deviates from the contract
KF_UndefDep(s) ==
  \E t \in DOMAIN s.defined : ~(DefDeps[t] \subseteq DOMAIN s.defined)
KF_DefRename(s) ==
  \E n \in ILive(s) : s.nodes[n].k = "def" /\ Cardinality(NamesOf(s, n)) > 1
\* an import or export under a name that is bound to a kind of item the item is not (no item of the
\* libraries has the shape of a resource method, constructor or static function)
KF_KindBound(s) ==
  \E x \in DOMAIN s.imports \cup DOMAIN s.exports : x \in DOMAIN NameInfo /\ NameInfo[x].cls = "kindbound"
\* a definition of a world (or interface) type that has no id of its own: the world of a registered package
KF_UnnamedDef(s) == \E t \in DOMAIN s.defined : DefClass[t] = "world"
\* a function whose signature mentions a type exported by the instance it comes from ("G"), imported
\* explicitly or exported on its own: the type it mentions is not in scope where the function is declared
ScopedFunc(k) == k.c = "func" /\ k.sig = "G"
KF_ScopedType(s) ==
  \E n \in ILive(s) : ScopedFunc(s.nodes[n].item) /\ (s.nodes[n].k = "imp" \/ \E x \in DOMAIN s.exports : s.exports[x] = n)
KnownFindings(s) ==
  (IF KF_UnnamedDef(s) THEN {"unnamed-world-definition"} ELSE {})
  \cup (IF KF_ScopedType(s) THEN {"function-over-instance-type"} ELSE {})
  \cup (IF KF_UndefDep(s) THEN {"undefined-dependency"} ELSE {})
  \cup (IF KF_DefRename(s) THEN {"definition-renamed"} ELSE {})
  \cup (IF KF_KindBound(s) THEN {"kind-bound-name"} ELSE {})

\* the export names the code emits: a definition is exported under its `export` field only
IEncodedExportNames(s) ==
  {x \in DOMAIN s.exports : s.nodes[s.exports[x]].k # "def"}
  \cup UNION {{IF DEV_DefRename THEN s.nodes[n].exp ELSE x : x \in NamesOf(s, n)}
                : n \in {m \in ILive(s) : s.nodes[m].k = "def"}}

IEncodeOutcome(s) ==
  LET abs == AbsView(s)
  IN IF HasCycle(abs) THEN {"GraphContainsCycle"}
     ELSE IF \E x \in DOMAIN s.exports : s.exports[x] \notin ILive(s) THEN {"panic"}
     ELSE IF \E x \in IImportsImplicit(s) : ITaken(DOMAIN s.imports, x) THEN {"ImplicitImportConflict"}
     ELSE IF \E i \in IInstNodes(s) : s.nodes[i].sat # {e.lab : e \in {x \in In(s, i) : x.t = "arg"}}
          THEN {"ValidationFailure"}
     ELSE IF DEV_UndefDep /\ KF_UndefDep(s) /\ EncodeOutcome(abs) = {"ok"} THEN {"ValidationFailure"}
     ELSE IF DEV_UnnamedDef /\ KF_UnnamedDef(s) THEN {"panic"}       \* (KF32) "world must have an id"
     ELSE IF DEV_KindBound /\ KF_KindBound(s) /\ EncodeOutcome(abs) = {"ok"} THEN {"ValidationFailure"}
     ELSE EncodeOutcome(abs)

(***************************************************************************)
(* The state machine.                                                      *)
(***************************************************************************)
RECURSIVE RegisterAll(_, _, _)
RegisterAll(s, h, P) ==
  IF P = {} THEN <<s, h>>
  ELSE LET p == CHOOSE x \in P : TRUE
           o == Op("register", 0, 0, p, NONE)
       IN RegisterAll(IRegister(s, p).next, Append(h, [op |-> o, res |-> "ok"]), P \ {p})
Init == LET r == RegisterAll(EmptyImpl, <<>>, InitReg) IN g = r[1] /\ hist = r[2]

Do(o) ==
  /\ ~g.panic
  /\ LET r == IApply(g, o)
     IN /\ g' = r.next
        /\ hist' = Append(hist, [op |-> o, res |-> r.res])

Next ==
  \E o \in Candidates(AbsView(g)) :
    /\ Creates(AbsView(g), o) => HasRoom(AbsView(g))
    /\ Do(o)

Spec == Init /\ [][Next]_vars

(***************************************************************************)
(* Properties.                                                             *)
(***************************************************************************)
NoPanic == ~g.panic

\* the redundant variables agree (this is exactly the list of the guarded invariant hook)
Consistent ==
  /\ \A n \in ILive(g) :
       LET node == g.nodes[n] IN
       /\ node.pkg # NONE => node.pkg \in g.reg
       /\ node.k = "inst" =>
            /\ node.sat = {e.lab : e \in {x \in In(g, n) : x.t = "arg"}}
            /\ \A e \in In(g, n) : e.t = "arg"
            /\ \A e1, e2 \in In(g, n) : e1.lab = e2.lab => e1 = e2
       /\ node.k = "alias" =>
            /\ Cardinality({e \in In(g, n) : e.t = "alias"}) = 1
            /\ \A e \in In(g, n) : e.t = "alias" => IsInstance(g.nodes[e.src].item)
       /\ node.k = "imp" => node.imp \in DOMAIN g.imports /\ g.imports[node.imp] = n
       /\ node.k = "def" => /\ node.item.id \in DOMAIN g.defined /\ g.defined[node.item.id] = n
                            /\ node.exp # NONE
       /\ node.exp # NONE => node.exp \in DOMAIN g.exports /\ g.exports[node.exp] = n
  /\ \A e \in g.edges : e.src \in ILive(g) /\ e.dst \in ILive(g)
  /\ \A x \in DOMAIN g.imports : g.imports[x] \in ILive(g) /\ g.nodes[g.imports[x]].imp = x
  /\ \A x \in DOMAIN g.exports : g.exports[x] \in ILive(g)
  /\ \A t \in DOMAIN g.defined : g.defined[t] \in ILive(g) /\ g.nodes[g.defined[t]].k = "def"

\* what the code reports agrees with the contract evaluated on the abstract view
QueriesAgree ==
  ~g.panic =>
    /\ IImportsImplicit(g) = GraphImportsImplicit(AbsView(g))
    /\ (~KF_UndefDep(g) /\ ~KF_KindBound(g) /\ ~KF_UnnamedDef(g) => IEncodeOutcome(g) \subseteq EncodeOutcome(AbsView(g)))
    /\ (~KF_DefRename(g) => IEncodedExportNames(g) = DOMAIN AbsView(g).exports)

\* every step is a step the contract allows, with the contract's successor state
RefStep ==
  LET o == hist'[Len(hist')].op
      res == hist'[Len(hist')].res
      a == Apply(AbsView(g), o)
  IN /\ res \in a.allowed
     /\ AbsView(g') = IF res = "ok" THEN a.next ELSE AbsView(g)
RefinesAbs == [][RefStep]_vars
====
