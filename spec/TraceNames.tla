---- MODULE TraceNames ----
(***************************************************************************)
(* Trace validation for C15 beyond the exhaustive universes: the driver    *)
(* draws random names (large version numbers, long base names, various     *)
(* pre-release / build spellings), calls the real code and logs            *)
(*   [a |-> "compat", x |-> rec, y |-> rec, res |-> BOOLEAN]                *)
(*   [a |-> "map", ins |-> <<rec, ...>>, q |-> rec, got |-> position | 0]   *)
(* where rec = [base, ver, pre, build] is the abstract name the string was *)
(* rendered from.  Every event must agree with the contract of Names.tla / *)
(* NameMapSpec (Compatible, DeclGet).                                      *)
(***************************************************************************)
EXTENDS Names, Sequences, FiniteSets, TLC, Json, IOUtils

Events == ndJsonDeserialize(IOEnv.TRACE_FILE)

VARIABLE l

\* JSON booleans/arrays arrive as TLA+ values; ver is a sequence (<<>> for unversioned)
Same(x, y) == x.base = y.base /\ x.ver = y.ver /\ x.pre = y.pre /\ x.build = y.build /\ x.text = y.text
Compat(x, y) == Same(x, y) \/ OnSameTrack(x, y)

CompatOk(e) == e.res = Compat(e.x, e.y)

\* positions (1-based, later inserts shadow earlier equal names) the contract allows for a lookup
Allowed(ins, q) ==
  LET P == 1..Len(ins)
      \* the live entry of a name is its last insert
      live == {p \in P : \A r \in P : r > p => ~Same(ins[r], ins[p])}
      exact == {p \in live : Same(ins[p], q)}
  IN IF exact # {} THEN exact
     ELSE {p \in live : OnSameTrack(ins[p], q)
                        /\ \A r \in live : OnSameTrack(ins[r], q) => ~VerLess(ins[p].ver, ins[r].ver)}

MapOk(e) ==
  LET A == Allowed(e.ins, e.q)
  IN IF A = {} THEN e.got = 0 ELSE e.got \in A

TraceInit == l = 1
TraceNext ==
  /\ l <= Len(Events)
  /\ l' = l + 1
  /\ LET e == Events[l]
     IN IF e.a = "compat" THEN CompatOk(e) ELSE MapOk(e)
TraceSpec == TraceInit /\ [][TraceNext]_l

TraceAccepted ==
  LET d == TLCGet("stats").diameter
  IN IF d - 1 = Len(Events) THEN TRUE
     ELSE Print(<<"TRACE-REJECTED", d, ToJson(Events[d])>>, FALSE)
====
