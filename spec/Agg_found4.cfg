\* the remap table as it is: a merge into one name reaches the other name of the shared definition -- TLC refutes MatchesByKeyAll (KF29)
SPECIFICATION Spec
CONSTANTS
  MaxContrib = 2
  Focus <- FocusShared
  DEV_NestedSupertype = FALSE
  DEV_OwnerImportTwice = FALSE
  DEV_OwnerNaming = TRUE
  DEV_WorldMerge = TRUE
  DEV_SharedRemap = TRUE
INVARIANTS MatchesByKeyAll
CHECK_DEADLOCK FALSE
