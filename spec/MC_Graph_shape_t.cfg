\* thorough: shape library (import-less package, repeated instantiation, type items, compound tuple), pre-registered, creation operations only, at most 4 nodes, 6 operations
CONSTANTS
  Pkgs <- L_shape_Pkgs
  PkgKey <- L_shape_PkgKey
  PkgImports <- L_shape_PkgImports
  PkgExports <- L_shape_PkgExports
  KindTab <- L_shape_Kinds
  ImportNames <- L_shape_ImportNames
  ExportNames <- L_shape_ExportNames
  DefNames <- L_shape_DefNames
  ValidNames <- L_shape_ValidNames
  DefClass <- L_shape_DefClass
  DefDeps <- L_shape_DefDeps
  NameInfo <- L_shape_NameInfo
  NodeIds = {1, 2, 3, 4}
  OpKinds = {"import", "instantiate", "alias", "set_arg", "export", "set_name"}
  InitReg = {"pd", "pe"}
  DEV_StaleSat = FALSE
  DEV_StaleExports = FALSE
  DEV_DoubleRemove = FALSE
  DEV_UndefDep = TRUE
  DEV_DefRename = TRUE
  MaxDepth = 8
  FullEvery = 1
SPECIFICATION Spec
VIEW MCView
INVARIANTS NoPanic Consistent QueriesAgree EmitReplay
CONSTRAINT DepthBound
PROPERTIES RefinesAbs
CHECK_DEADLOCK FALSE
