---- MODULE NameMapInd ----
(***************************************************************************)
(* C15, unbounded: an inductive invariant of the NameMap of                *)
(* crates/wac-types/src/names.rs, discharged with Apalache.                *)
(*                                                                         *)
(* NameMapSpec.tla checks with TLC every insertion sequence up to a bound  *)
(* over a fixed universe of names.  Here the universe is ABSTRACT: a set   *)
(* of names, an arbitrary assignment of a compatibility track to each name *)
(* (0 = the name has no track: unversioned, pre-release, 0.0.x) and an     *)
(* arbitrary rank of its version in semver's total order (distinct names   *)
(* of one track have distinct ranks: a track fixes the base name, so two   *)
(* names of a track differ in their version).  The state machine is the    *)
(* one of NameMapSpec (`defs`: the exact map, `alt`: track -> registered   *)
(* name, keep-highest-on-insert); values are abstracted away (a lookup is  *)
(* judged by WHICH entry it returns).                                      *)
(*                                                                         *)
(* Apalache proves   Init => IndInv,   IndInv /\ Next => IndInv'   and     *)
(* IndInv => LookupCorrect   for every universe of NAMES with every        *)
(* track/rank assignment within ConstInit -- hence for insertion sequences *)
(* of ANY length.                                                          *)
(***************************************************************************)
EXTENDS Integers, FiniteSets

CONSTANTS
  \* @type: Int;
  NT,
  \* @type: Set(Int);
  NAMES,
  \* @type: Int -> Int;
  track,
  \* @type: Int -> Int;
  rank

VARIABLES
  \* @type: Set(Int);
  defs,
  \* @type: Int -> Int;
  alt

TRACKS == 1..NT

\* every universe of six names over three tracks, any assignment
ConstInit ==
  /\ NT = 3
  /\ NAMES = 1..6
  /\ track \in [1..6 -> 0..3]
  /\ rank \in [1..6 -> 0..6]
  /\ \A a, b \in 1..6 : a # b /\ track[a] = track[b] /\ track[a] # 0 => rank[a] # rank[b]

Init == defs = {} /\ alt = [t \in TRACKS |-> 0]

\* NameMap::insert(name, allow_shadowing, value): a rejected duplicate changes nothing
Insert(i, shadow) ==
  IF i \in defs /\ ~shadow
  THEN UNCHANGED <<defs, alt>>
  ELSE /\ defs' = defs \cup {i}
       /\ alt' = IF track[i] = 0 THEN alt
                 ELSE IF alt[track[i]] # 0 /\ rank[i] < rank[alt[track[i]]] THEN alt
                 ELSE [alt EXCEPT ![track[i]] = i]

Next == \E i \in NAMES : \E shadow \in BOOLEAN : Insert(i, shadow)
\* (NameMapSpec.tla refines this under the abstraction of MC_NameMapRef.tla: checked by TLC)
Spec == Init /\ [][Next]_<<defs, alt>>

\* NameMap::get: which entry is returned (0: none)
ImplGet(q) ==
  IF q \in defs THEN q
  ELSE IF track[q] # 0 THEN alt[track[q]] ELSE 0

\* the declarative meaning: the exact entry, else the highest entry on the track of q
DeclGet(q) ==
  IF q \in defs THEN {q}
  ELSE {e \in defs : track[q] # 0 /\ track[e] = track[q]
                     /\ \A f \in defs : track[f] = track[q] => rank[f] <= rank[e]}

TypeOK ==
  /\ defs \subseteq NAMES
  /\ alt \in [TRACKS -> NAMES \cup {0}]

IndInv ==
  /\ TypeOK
  \* the registered name of a track is an entry of that track, and the highest one
  /\ \A t \in TRACKS : alt[t] # 0 =>
        /\ alt[t] \in defs
        /\ track[alt[t]] = t
        /\ \A e \in defs : track[e] = t => rank[e] <= rank[alt[t]]
  \* every entry with a track has its track registered
  /\ \A e \in defs : track[e] # 0 => alt[track[e]] # 0

\* an arbitrary state satisfying the invariant (for the inductive step)
IndInit ==
  /\ defs \in SUBSET (1..6)
  /\ alt \in [TRACKS -> 0..6]
  /\ IndInv

LookupCorrect ==
  \A q \in NAMES : IF DeclGet(q) = {} THEN ImplGet(q) = 0 ELSE ImplGet(q) \in DeclGet(q)
\* never an entry of another track
NoForeignEntry ==
  \A q \in NAMES : ImplGet(q) # 0 => ImplGet(q) = q \/ (track[q] # 0 /\ track[ImplGet(q)] = track[q])
====
