\* thorough: both sockets x every ordered list of 1..4 distinct plugs
CONSTANTS
  MaxPlugs = 4
SPECIFICATION Spec
INVARIANTS ImplConforms EmitReplay
CHECK_DEADLOCK FALSE
