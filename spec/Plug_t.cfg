\* thorough: every socket x every ordered list of 1..4 distinct plugs
CONSTANTS
  MaxPlugs = 4
  DEV_FirstOnTrack = FALSE
SPECIFICATION Spec
INVARIANTS ImplConforms SocketImportsKept EmitReplay
CHECK_DEADLOCK FALSE
