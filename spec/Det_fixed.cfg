\* repaired code: define_type visits the defined types in node order
CONSTANTS
  DefTypes = {"tb", "td", "tx", "tc"}
  DefDeps <- DetDeps
  HashOrdered = FALSE
SPECIFICATION Spec
INVARIANTS Deterministic Topological EmitReplay
CHECK_DEADLOCK FALSE
