\* refinement NameMapSpec => NameMapInd over the reduced universe, insertion sequences up to 3
CONSTANTS
  Universe <- L_names_Small
  MaxLen = 3
SPECIFICATION Spec
VIEW MCView
INVARIANTS RankInjective AbsIndInv AbsLookupCorrect
PROPERTIES Refines
CHECK_DEADLOCK FALSE
