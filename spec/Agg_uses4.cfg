\* replay generation + contract invariants on the repaired merge (FocusUses, histories up to 4 contributors)
SPECIFICATION Spec
CONSTANTS
  MaxContrib = 4
  Focus <- FocusUses
  DEV_NestedSupertype = FALSE
INVARIANTS FailsExactly MatchesContract UniqueNames Canonical Satisfies Idempotent EmitReplay
CHECK_DEADLOCK FALSE
