\* every import has a definition of its own: every invariant holds, nothing excused
SPECIFICATION Spec
CONSTANTS
  MaxContrib = 3
  Focus <- FocusShared
  DEV_NestedSupertype = FALSE
  DEV_OwnerImportTwice = FALSE
  DEV_OwnerNaming = TRUE
  DEV_WorldMerge = TRUE
  DEV_SharedRemap = FALSE
INVARIANTS FailsExactly MatchesContract MatchesByKey OneImportPerKey UniqueNames Canonical Satisfies Idempotent MatchesByKeyAll SatisfiesAll
CHECK_DEADLOCK FALSE
