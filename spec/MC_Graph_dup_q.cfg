\* quick: dup library (versions of one package, exports sharing one function type, compound result import), pre-registered
CONSTANTS
  LibName = "dup"
  NodeIds = {1, 2, 3, 4}
  OpKinds = {"instantiate", "alias", "set_arg"}
  InitReg = {"d1", "d2", "d3", "d4", "dc"}
  DEV_StaleSat = FALSE
  DEV_StaleExports = FALSE
  DEV_DoubleRemove = FALSE
  DEV_UndefDep = TRUE
  DEV_DefRename = TRUE
  DEV_NameCase = FALSE
  DEV_DefLocator = FALSE
  DEV_KindBound = TRUE
  DEV_UnnamedDef = TRUE
  MaxDepth = 10
  FullEvery = 1
SPECIFICATION Spec
VIEW MCView
INVARIANTS NoPanic Consistent QueriesAgree EmitReplay
CONSTRAINT DepthBound
PROPERTIES RefinesAbs
CHECK_DEADLOCK FALSE
