\* the whole decision table of the command line
SPECIFICATION Spec
INVARIANTS TableLaws EmitReplay
CHECK_DEADLOCK FALSE
