\* validation of recorded name-matching verdicts against the contract
SPECIFICATION TraceSpec
POSTCONDITION TraceAccepted
CHECK_DEADLOCK FALSE
