SPECIFICATION WSpec
CONSTANTS
  LibName = "wac"
  NodeIds <- WNodeIds
  OpKinds = {}
  MaxStmts = 2
  PoolFocus <- W_C04Focus
INVARIANTS EnvSound NamesSound NoCycle Room EmitReplay
CHECK_DEADLOCK FALSE
