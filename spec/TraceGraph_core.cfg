\* trace validation against the contract GraphAbs, core library, up to 16 live nodes
CONSTANTS
  LibName = "core"
  NodeIds = {1, 2, 3, 4, 5, 6, 7, 8, 9, 10, 11, 12, 13, 14, 15, 16}
  OpKinds = {"register", "unregister", "define_type", "import", "instantiate", "alias", "set_arg", "unset_arg", "export", "unexport", "set_name", "remove"}
SPECIFICATION TraceSpec
INVARIANT WellFormed
POSTCONDITION TraceAccepted
CHECK_DEADLOCK FALSE
