\* trace validation against the contract GraphAbs, core library, up to 16 live nodes
CONSTANTS
  Pkgs <- L_core_Pkgs
  PkgKey <- L_core_PkgKey
  PkgImports <- L_core_PkgImports
  PkgExports <- L_core_PkgExports
  KindTab <- L_core_Kinds
  ImportNames <- L_core_ImportNames
  ExportNames <- L_core_ExportNames
  DefNames <- L_core_DefNames
  ValidNames <- L_core_ValidNames
  DefClass <- L_core_DefClass
  DefDeps <- L_core_DefDeps
  NameInfo <- L_core_NameInfo
  NodeIds = {1, 2, 3, 4, 5, 6, 7, 8, 9, 10, 11, 12, 13, 14, 15, 16}
  OpKinds = {"register", "unregister", "define_type", "import", "instantiate", "alias", "set_arg", "unset_arg", "export", "unexport", "set_name", "remove"}
SPECIFICATION TraceSpec
INVARIANT WellFormed
POSTCONDITION TraceAccepted
CHECK_DEADLOCK FALSE
