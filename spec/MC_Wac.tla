---- MODULE MC_Wac ----
(***************************************************************************)
(* Model-checking harness for Wac.tla: bounds and replay emission.         *)
(***************************************************************************)
EXTENDS Wac, Json

WNodeIds == 1..48
FocusAllW == 1..Len(W_Pool)

\* Shape of a known finding (known_findings.json, C04): an interface imported by package path under
\* an `as` name while the same interface is also imported (explicitly or implicitly) under another
\* name: the encoder emits one import for the interface and drops the other name.
ImpNodes(w) == {n \in Live(w.g) : w.g.nodes[n].k = "imp"}
KnownShape(w) ==
  IF \E e \in ImpNodes(w) :
       /\ w.iid[e] # NoIid /\ w.g.nodes[e].imp # w.iid[e]
       /\ \/ \E e2 \in ImpNodes(w) : e2 # e /\ w.iid[e2] = w.iid[e]
          \/ w.iid[e] \in GraphImportsImplicit(w.g)
  THEN "interface-imported-under-two-names" ELSE ""

ReplayLine ==
  LET ok == faults = {}
      enc == IF ok THEN EncodeOutcome(ws.g) ELSE {}
  IN [prog |-> prog, faults |-> faults, encode |-> enc, kf |-> IF ok THEN KnownShape(ws) ELSE "",
      comps |-> IF "ok" \in enc THEN EncodeOf(ws.g) ELSE {},
      names |-> IF ok THEN {[name |-> ws.nm[n], term |-> Term(ws.g, n, FALSE), sort |-> Kind(ws, n).c] : n \in DOMAIN ws.nm}
                ELSE {}]

EmitReplay == prog # <<>> => PrintT(<<"REPLAY", ToJson(ReplayLine)>>)
====
