---- MODULE ResSub ----
(***************************************************************************)
(* C07, resource clause: "with resources, accepting all of one provider's  *)
(* matching exports implies the resulting instantiation validates".        *)
(*                                                                         *)
(* A side (provider: what a component exports; consumer: what a component  *)
(* imports) is a sequence of interfaces over resources:                    *)
(*   [name, res : local -> origin, fns : fname -> [res, mode]]             *)
(*   origin = <<"self","self">> (defined here) | <<interface, resource>>   *)
(*            (`use` of a resource of an earlier interface of the side)    *)
(*                                                                         *)
(* Reference layer (component model): the consumer's imports are supplied  *)
(* in order; a resource the consumer declares fresh is bound to whatever   *)
(* resource the provider exports there, a resource it declares equal to an *)
(* earlier import's resource must BE the resource bound there; a handle    *)
(* parameter must be a handle (same mode) of the bound resource.           *)
(*                                                                         *)
(* Impl layer (wac-types checker.rs): SubtypeChecker::resource compares    *)
(* the NAMES of the two resources after resolving aliases on each side     *)
(* (named deviation DEV_ResByName; FALSE = compare identities through the  *)
(* binding, the ideal).                                                    *)
(***************************************************************************)
EXTENDS Integers, Sequences, FiniteSets, TLC, Lib_res

CONSTANT DEV_ResByName

Self == <<"self", "self">>
Iface(s, name) == s[CHOOSE i \in DOMAIN s : s[i].name = name]
Has(s, name) == \E i \in DOMAIN s : s[i].name = name

\* the defining occurrence <<interface, resource>> of a resource, chasing `use`
RECURSIVE Def(_, _, _)
Def(s, i, r) == LET o == Iface(s, i).res[r] IN IF o = Self THEN <<i, r>> ELSE Def(s, o[1], o[2])

\* the imports of the consumer the provider has an export for
Matched(p, c) == {i \in DOMAIN c : Has(p, c[i].name)}

(***************************************************************************)
(* Reference: does instantiating c with p's matching exports validate?     *)
(***************************************************************************)
\* what a consumer-side defining occurrence is bound to: the provider's resource supplied for it, or -- when
\* the defining import is not supplied by the provider -- the composition's own import (never a provider's)
Bound(p, c, d) ==
  IF Has(p, d[1]) /\ d[2] \in DOMAIN Iface(p, d[1]).res THEN Def(p, d[1], d[2]) ELSE <<"import", d[1], d[2]>>

RefIface(p, c, ci) ==
  LET pi == Iface(p, ci.name)
  IN /\ DOMAIN ci.res \subseteq DOMAIN pi.res
     /\ DOMAIN ci.fns \subseteq DOMAIN pi.fns
     \* a resource declared equal to an earlier import's resource must be the resource bound there
     /\ \A r \in DOMAIN ci.res : Def(p, ci.name, r) = Bound(p, c, Def(c, ci.name, r))
     /\ \A f \in DOMAIN ci.fns :
          /\ ci.fns[f].mode = pi.fns[f].mode
          /\ Def(p, ci.name, pi.fns[f].res) = Bound(p, c, Def(c, ci.name, ci.fns[f].res))
RefMatched(p, c) == \A i \in Matched(p, c) : RefIface(p, c, c[i])
\* an import the provider has nothing for stays an import of the composition; an import cannot mention a
\* resource of an instance, so it must not use a resource of an import that IS supplied
LeftoverOK(p, c) ==
  \A i \in DOMAIN c \ Matched(p, c) :
    \A r \in DOMAIN c[i].res : LET d == Def(c, c[i].name, r) IN d[1] = c[i].name \/ ~Has(p, d[1])
RefValid(p, c) == RefMatched(p, c) /\ LeftoverOK(p, c)

(***************************************************************************)
(* Impl: one SubtypeChecker verdict per supplied argument.                 *)
(***************************************************************************)
ResOK(p, c, name, pr, cr) ==
  IF DEV_ResByName
  THEN Def(p, name, pr)[2] = Def(c, name, cr)[2]                  \* names of the resolved resources
  ELSE Def(p, name, pr) = Bound(p, c, Def(c, name, cr))
ImplIface(p, c, ci) ==
  LET pi == Iface(p, ci.name)
  IN /\ DOMAIN ci.res \subseteq DOMAIN pi.res
     /\ DOMAIN ci.fns \subseteq DOMAIN pi.fns
     /\ \A r \in DOMAIN ci.res : ResOK(p, c, ci.name, r, r)
     /\ \A f \in DOMAIN ci.fns :
          /\ ci.fns[f].mode = pi.fns[f].mode
          /\ ResOK(p, c, ci.name, pi.fns[f].res, ci.fns[f].res)
\* per argument, and all of them
ImplVerdicts(p, c) == [n \in {c[i].name : i \in Matched(p, c)} |-> ImplIface(p, c, Iface(c, n))]
ImplAccepts(p, c) == \A i \in Matched(p, c) : ImplIface(p, c, c[i])

(***************************************************************************)
(* The clause (per pair; MC_ResSub quantifies), split into the checker's   *)
(* part and the whole, and the two shapes on which it does not hold.       *)
(* (The converse is not claimed and does not hold: a resource the consumer *)
(* declares fresh binds to anything, but the checker wants equal names.)   *)
(***************************************************************************)
ClauseArgs(p, c) == Matched(p, c) # {} /\ ImplAccepts(p, c) => RefMatched(p, c)
Clause(p, c) == Matched(p, c) # {} /\ ImplAccepts(p, c) => RefValid(p, c)

\* two distinct resources of one name on the same side of a comparison
NameOnlyShape(p, c) == ImplAccepts(p, c) /\ ~RefMatched(p, c)
\* every argument is right, what cannot be expressed is the import that is left
LeftoverShape(p, c) == ImplAccepts(p, c) /\ RefMatched(p, c) /\ ~LeftoverOK(p, c)
====
