---- MODULE Registry ----
(***************************************************************************)
(* C20: RegistryPackageResolver::resolve (crates/wac-resolver/src/         *)
(* registry.rs).                                                           *)
(*                                                                         *)
(* Contract layer: for a request (a sequence of distinct keys [n, v], v = 0 *)
(* for an unversioned key) against a registry Published (name -> set of    *)
(* released versions), every key has one meaning:                          *)
(*   Meaning(k) = content <<n, v>>           if v is a release of n        *)
(*              = content <<n, latest(n)>>   if v = 0 and n has releases   *)
(*              = error attributed to k      otherwise                     *)
(* The call returns the map key -> content if no key has an error, and     *)
(* otherwise one of the errors (which one is not specified).               *)
(*                                                                         *)
(* Code-shaped layer: the by-name table built from the key list (an        *)
(* IndexMap keyed by package name: a later key of the same name overwrites *)
(* the version and span of the earlier one, keeping its position), one     *)
(* download task per table entry tagged with its position, completion in   *)
(* ANY order (Complete(i) are separate, independently enabled actions),    *)
(* each download attributed to keys[tag], the first failing completion     *)
(* ending the call.  ByNameTable = TRUE is the code as found; FALSE the    *)
(* repaired code (one entry per key).                                      *)
(***************************************************************************)
EXTENDS Naturals, Sequences, FiniteSets, TLC, Json

CONSTANTS Names,        \* package names that may be requested
          Published,    \* name -> set of released versions (empty domain entry = no such package)
          Versions,     \* versions a key may ask for (0 = unversioned)
          MaxKeys,
          ByNameTable   \* BOOLEAN

Keys == [n : Names, v : Versions]
Exists(n) == n \in DOMAIN Published
Latest(n) == CHOOSE v \in Published[n] : \A w \in Published[n] : w <= v

\* contract: what a key means
Meaning(k) ==
  IF ~Exists(k.n) THEN [err |-> "PackageDoesNotExist", key |-> k]
  ELSE IF k.v = 0 THEN (IF Published[k.n] = {} THEN [err |-> "PackageNoReleases", key |-> k]
                        ELSE [content |-> <<k.n, Latest(k.n)>>])
  ELSE IF k.v \in Published[k.n] THEN [content |-> <<k.n, k.v>>]
  ELSE [err |-> "PackageVersionDoesNotExist", key |-> k]
IsErr(m) == "err" \in DOMAIN m

Range(s) == {s[i] : i \in DOMAIN s}
\* the results the contract allows for a request
AllowedErrors(req) == {Meaning(k) : k \in {x \in Range(req) : IsErr(Meaning(x))}}
ExpectedMap(req) == [k \in Range(req) |-> Meaning(k).content]

(***************************************************************************)
(* The implementation as a state machine.                                  *)
(***************************************************************************)
VARIABLES req,      \* the request (sequence of distinct keys), chosen initially
          table,    \* sequence of [n, v, owner]: owner = position of the key whose span the entry carries
          pending,  \* set of table positions whose download has not completed yet
          result,   \* partial map: key -> content
          outcome,  \* "running" | "ok" | an error record
          order     \* completion order (history)
vars == <<req, table, pending, result, outcome, order>>

RECURSIVE Lists(_)
Lists(n) == IF n = 0 THEN {<<>>}
            ELSE LET prev == Lists(n - 1)
                 IN prev \cup {Append(l, k) : l \in {x \in prev : Len(x) = n - 1}, k \in Keys}
Distinct(l) == \A i, j \in DOMAIN l : i # j => l[i] # l[j]
Requests == {l \in Lists(MaxKeys) : Len(l) >= 1 /\ Distinct(l)}

\* IndexMap::from_iter over (name, (version, span)): a repeated name keeps the first position and
\* takes the last value
RECURSIVE BuildByName(_, _, _)
BuildByName(r, i, t) ==
  IF i > Len(r) THEN t
  ELSE LET P == {j \in DOMAIN t : t[j].n = r[i].n}
       IN IF P = {} THEN BuildByName(r, i + 1, Append(t, [n |-> r[i].n, v |-> r[i].v, owner |-> i]))
          ELSE LET j == CHOOSE x \in P : TRUE
               IN BuildByName(r, i + 1, [t EXCEPT ![j] = [n |-> r[i].n, v |-> r[i].v, owner |-> i]])
BuildPerKey(r) == [i \in DOMAIN r |-> [n |-> r[i].n, v |-> r[i].v, owner |-> i]]

\* outcome records: [st |-> "start" | "running" | "ok" | "err", err, key]
NoKey == [n |-> "-", v |-> 0]
St(s) == [st |-> s, err |-> "-", key |-> NoKey]
Failed(e, k) == [st |-> "err", err |-> e, key |-> k]

Init ==
  /\ req \in Requests
  /\ table = IF ByNameTable THEN BuildByName(req, 1, <<>>) ELSE BuildPerKey(req)
  /\ pending = {}
  /\ result = <<>>
  /\ outcome = St("start")
  /\ order = <<>>

\* fetch_packages: fails for the first table entry whose package does not exist; the error carries
\* the span stored in the table for that name
Fetch ==
  /\ outcome.st = "start"
  /\ LET bad == {i \in DOMAIN table : ~Exists(table[i].n)}
     IN IF bad # {}
        THEN /\ \E i \in bad : outcome' = Failed("PackageDoesNotExist", req[table[i].owner])
             /\ UNCHANGED <<pending>>
        ELSE /\ outcome' = St("running")
             /\ pending' = DOMAIN table
  /\ UNCHANGED <<req, table, result, order>>

Ext(f, k, v) == [x \in DOMAIN f \cup {k} |-> IF x = k THEN v ELSE f[x]]

\* one download completes; its tag i indexes the *key list*
Complete(i) ==
  /\ outcome.st = "running"
  /\ i \in pending
  /\ LET e == table[i]
         m == Meaning([n |-> e.n, v |-> e.v])
     IN IF IsErr(m)
        THEN /\ outcome' = Failed(m.err, req[e.owner])
             /\ UNCHANGED <<result, pending>>
        ELSE /\ result' = Ext(result, req[i], m.content)      \* keys.get_index(index)
             /\ pending' = pending \ {i}
             /\ outcome' = IF pending \ {i} = {} THEN St("ok") ELSE St("running")
  /\ order' = Append(order, i)
  /\ UNCHANGED <<req, table>>

Next == Fetch \/ \E i \in DOMAIN table : Complete(i)
Spec == Init /\ [][Next]_vars

Done == outcome.st \in {"ok", "err"}

\* on termination the call returned what the contract says
ResultCorrect ==
  Done =>
    IF outcome.st = "ok"
    THEN AllowedErrors(req) = {} /\ result = ExpectedMap(req)
    ELSE [err |-> outcome.err, key |-> outcome.key] \in AllowedErrors(req)
\* no key is silently dropped or given another key's content, at any time
NoForeignContent ==
  \A k \in DOMAIN result : k \in Range(req) /\ ~IsErr(Meaning(k)) /\ result[k] = Meaning(k).content

\* REPLAY: one line per request (emitted in the initial states): what the contract allows
EmitReplay ==
  outcome.st = "start" =>
    PrintT(<<"REPLAY", ToJson([req |-> [i \in DOMAIN req |-> <<req[i].n, req[i].v>>],
                               errors |-> {<<m.err, m.key.n, m.key.v>> : m \in AllowedErrors(req)},
                               map |-> [i \in DOMAIN req |->
                                          IF IsErr(Meaning(req[i])) THEN <<"-", 0>> ELSE Meaning(req[i]).content]])>>)
====
