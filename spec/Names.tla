---- MODULE Names ----
(***************************************************************************)
(* Extern names and the semver compatibility-track relation.               *)
(* A name is described by [base, ver, pre, build] where ver is <<>> for an *)
(* unversioned name or <<major, minor, patch>>; pre = has a pre-release    *)
(* part; build = has build metadata (ignored by compatibility).            *)
(***************************************************************************)
EXTENDS Naturals, Sequences

NoVer == <<>>
Versioned(i) == i.ver # NoVer
\* a release version on a compatibility track: not a pre-release, not 0.0.x
HasTrack(i) == Versioned(i) /\ ~i.pre /\ (i.ver[1] > 0 \/ i.ver[2] > 0)
TrackOf(i) == IF i.ver[1] > 0 THEN <<i.base, i.ver[1]>> ELSE <<i.base, 0, i.ver[2]>>
OnSameTrack(a, b) == HasTrack(a) /\ HasTrack(b) /\ TrackOf(a) = TrackOf(b)

\* semver precedence restricted to release versions
VerLess(a, b) ==
  \/ a[1] < b[1]
  \/ a[1] = b[1] /\ a[2] < b[2]
  \/ a[1] = b[1] /\ a[2] = b[2] /\ a[3] < b[3]
====
