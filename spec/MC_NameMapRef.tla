---- MODULE MC_NameMapRef ----
(***************************************************************************)
(* NameMapSpec.tla (concrete names, TLC, bounded) refines NameMapInd.tla   *)
(* (abstract tracks and ranks, Apalache, inductive) under the abstraction  *)
(* below: tracks are numbered, the version of a name is replaced by its    *)
(* rank among the names of its track, values are forgotten.  TLC checks    *)
(* the refinement (every step of NameMapSpec is a step of NameMapInd or    *)
(* stutters) and that the concrete universe meets NameMapInd's assumption  *)
(* (distinct names of one track have distinct ranks).                      *)
(***************************************************************************)
EXTENDS NameMapSpec

AllTracks == {TrackOf(Nm(i)) : i \in {j \in N : HasTrack(Nm(j))}}
TrackNo == CHOOSE f \in [AllTracks -> 1..Cardinality(AllTracks)] : \A a, b \in AllTracks : a # b => f[a] # f[b]
AbsTrack == [i \in N |-> IF HasTrack(Nm(i)) THEN TrackNo[TrackOf(Nm(i))] ELSE 0]
AbsRank == [i \in N |-> Cardinality({j \in N : j # i /\ OnSameTrack(Nm(j), Nm(i)) /\ Lower(j, i)})]
AbsAlt == [t \in 1..Cardinality(AllTracks) |->
             LET tr == CHOOSE x \in AllTracks : TrackNo[x] = t
             IN IF tr \in DOMAIN alt THEN alt[tr] ELSE 0]

Ind == INSTANCE NameMapInd WITH NT <- Cardinality(AllTracks), NAMES <- N, track <- AbsTrack, rank <- AbsRank,
                                defs <- DOMAIN defs, alt <- AbsAlt

Refines == Ind!Spec
AbsIndInv == Ind!IndInv
AbsLookupCorrect == Ind!LookupCorrect
RankInjective == \A a, b \in N : a # b /\ AbsTrack[a] = AbsTrack[b] /\ AbsTrack[a] # 0 => AbsRank[a] # AbsRank[b]
====
