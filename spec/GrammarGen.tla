---- MODULE GrammarGen ----
\* Generator of spec/Grammar.tla (see there).
EXTENDS Grammar

CONSTANTS MaxTokens   \* bound on the length of generated sentences

(***************************************************************************)
(* Generator.                                                              *)
(***************************************************************************)
VARIABLES stack, out, ntoks
gvars == <<stack, out, ntoks>>

GenInit == stack = <<"document">> /\ out = <<>> /\ ntoks = 0

Expand ==
  /\ stack # <<>> /\ IsNT(Head(stack))
  /\ \E alt \in G_Prods[Head(stack)] :
       LET marked == Head(stack) \in G_Marked
           body == IF marked THEN alt \o <<"#close">> ELSE alt
           st2 == body \o Tail(stack)
       IN /\ ntoks + MinOf(st2) <= MaxTokens          \* only derivations that can still finish in the bound
          /\ stack' = st2
          /\ out' = IF marked THEN Append(out, [k |-> "<", v |-> Head(stack), x |-> 0, t |-> 0]) ELSE out
          /\ UNCHANGED ntoks

Emit ==
  /\ stack # <<>> /\ ~IsNT(Head(stack))
  /\ IF IsClose(Head(stack))
     THEN /\ out' = Append(out, [k |-> ">", v |-> "", x |-> 0, t |-> 0])
          /\ UNCHANGED ntoks
     ELSE /\ \E x \in 1..(IF Head(stack) \in DOMAIN G_Pool THEN G_Pool[Head(stack)] ELSE 1),
                tr \in 1..G_TriviaCount :
               out' = Append(out, [k |-> "T", v |-> Head(stack), x |-> x, t |-> tr])
          /\ ntoks' = ntoks + 1
  /\ stack' = Tail(stack)

GenNext == Expand \/ Emit
GenSpec == GenInit /\ [][GenNext]_gvars

GenDone == stack = <<>>
\* a finished derivation: print the bracketed token stream
EmitSentence ==
  GenDone => PrintT(<<"SENT", ToJson([out |-> [i \in DOMAIN out |-> <<out[i].k, out[i].v, out[i].x, out[i].t>>]])>>)

\* in exhaustive mode the lexeme/trivia choices are fixed (they do not change the sentence's kinds)
FirstChoicesOnly == \A i \in DOMAIN out : out[i].k = "T" => out[i].x = 1 /\ out[i].t = 1
====
