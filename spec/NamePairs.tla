---- MODULE NamePairs ----
(***************************************************************************)
(* C15, the pair relation over the full universe of the property           *)
(* (2 bases x major,minor,patch in 0..3 x pre-release x build, plus        *)
(* unversioned and malformed names).  No state machine: TLC evaluates the  *)
(* constant-level definitions once at start-up; EmitPairs prints one       *)
(* verdict vector per left operand, RelationLaws / KeysAgree are checked   *)
(* as invariants of a one-state behaviour.                                 *)
(***************************************************************************)
EXTENDS Names, FiniteSets, TLC, Json, Lib_names

U == L_names_Full
N == 1..Len(U)

Compatible(i, j) == i = j \/ OnSameTrack(U[i], U[j])

\* the same relation through a table of track keys computed once
TrackKey == [i \in N |->
               IF ~HasTrack(U[i]) THEN <<"single", "", i, 0>>
               ELSE IF U[i].ver[1] > 0 THEN <<"major", U[i].base, U[i].ver[1], 0>>
               ELSE <<"minor", U[i].base, 0, U[i].ver[2]>>]
CompatibleK(i, j) == TrackKey[i] = TrackKey[j]
KeysAgree == \A i, j \in N : CompatibleK(i, j) = Compatible(i, j)

\* an equivalence relation that equals the semver rule of the property text
RelationLaws ==
  /\ \A i, j \in N : CompatibleK(i, j) = CompatibleK(j, i)
  /\ \A i, j \in N : i # j /\ CompatibleK(i, j) =>
        /\ U[i].base = U[j].base /\ ~U[i].pre /\ ~U[j].pre
        /\ U[i].ver # <<>> /\ U[j].ver # <<>>
        /\ IF U[i].ver[1] > 0 THEN U[i].ver[1] = U[j].ver[1]
           ELSE U[i].ver[2] > 0 /\ U[j].ver[1] = 0 /\ U[i].ver[2] = U[j].ver[2]
  \* transitivity: equality of keys

EmitPairs ==
  \A i \in N : PrintT(<<"PAIRS", ToJson([n |-> Len(U), a |-> i, compat |-> {j \in N : CompatibleK(i, j)}])>>)

VARIABLE x
Init == x = 0
Next == UNCHANGED x
Spec == Init /\ [][Next]_x
====
