\* a checker that memoises before checking (expected: VerdictStable is violated)
CONSTANTS
  MaxChecks = 2
  InsertBeforeCheck = TRUE
SPECIFICATION MSpec
INVARIANTS VerdictStable MemoSound
CHECK_DEADLOCK FALSE
