\* replay generation + contract invariants on the repaired merge (FocusAll, histories up to 2 contributors)
SPECIFICATION Spec
CONSTANTS
  MaxContrib = 2
  Focus <- FocusMain
  DEV_NestedSupertype = FALSE
  DEV_OwnerImportTwice = FALSE
  DEV_OwnerNaming = TRUE
  DEV_WorldMerge = TRUE
  DEV_SharedRemap = TRUE
INVARIANTS FailsExactly MatchesContract MatchesByKey OneImportPerKey UniqueNames Canonical Satisfies Idempotent EmitReplay
CHECK_DEADLOCK FALSE
