\* quick: one table entry per key; all requests of 1..3 distinct keys, all completion orders
CONSTANTS
  Names = {"a", "b", "c"}
  Published <- MCPublished
  Versions = {0, 1, 2, 3}
  MaxKeys = 3
  ByNameTable = FALSE
SPECIFICATION Spec
INVARIANTS ResultCorrect NoForeignContent EmitReplay
CHECK_DEADLOCK FALSE
