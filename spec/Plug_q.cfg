\* quick: every socket x every ordered list of 1..3 distinct plugs
CONSTANTS
  MaxPlugs = 3
  DEV_FirstOnTrack = FALSE
SPECIFICATION Spec
INVARIANTS ImplConforms SocketImportsKept EmitReplay
CHECK_DEADLOCK FALSE
