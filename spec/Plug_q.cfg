\* quick: both sockets x every ordered list of 1..3 distinct plugs
CONSTANTS
  MaxPlugs = 3
SPECIFICATION Spec
INVARIANTS ImplConforms EmitReplay
CHECK_DEADLOCK FALSE
