\* merge_world / merge_module_type as they are: TLC refutes "the merged type satisfies every contributor" (KF28)
SPECIFICATION Spec
CONSTANTS
  MaxContrib = 2
  Focus <- FocusWorld
  DEV_NestedSupertype = FALSE
  DEV_OwnerImportTwice = FALSE
  DEV_OwnerNaming = TRUE
  DEV_WorldMerge = TRUE
  DEV_SharedRemap = TRUE
INVARIANTS SatisfiesAll
CHECK_DEADLOCK FALSE
