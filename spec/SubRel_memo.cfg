\* the memoising checker: every order of up to 2 checks over the instance and component kinds
CONSTANTS
  MaxChecks = 2
  InsertBeforeCheck = FALSE
SPECIFICATION MSpec
INVARIANTS VerdictStable MemoSound
CHECK_DEADLOCK FALSE
