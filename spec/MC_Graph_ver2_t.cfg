\* quick+thorough: four users of one compatibility track (reused lower name, higher version, build metadata), pre-registered, every order of up to 4 instantiations
CONSTANTS
  LibName = "ver2"
  NodeIds = {1, 2, 3, 4}
  OpKinds = {"instantiate", "export"}
  InitReg = {"q1", "q2", "q3", "q4", "q5", "q6"}
  DEV_StaleSat = FALSE
  DEV_StaleExports = FALSE
  DEV_DoubleRemove = FALSE
  DEV_UndefDep = TRUE
  DEV_DefRename = TRUE
  DEV_NameCase = FALSE
  DEV_DefLocator = FALSE
  DEV_KindBound = TRUE
  DEV_UnnamedDef = TRUE
  MaxDepth = 8
  FullEvery = 1
SPECIFICATION Spec
VIEW MCView
INVARIANTS NoPanic Consistent QueriesAgree EmitReplay
CONSTRAINT DepthBound
PROPERTIES RefinesAbs
CHECK_DEADLOCK FALSE
