---- MODULE MC_Det ----
(***************************************************************************)
(* TLC-only part of Det.tla: the type universe (a base type with two       *)
(* independent dependants and a second-level dependant) and the emission   *)
(* of every definition history as a REPLAY line for re-execution against   *)
(* the real graph (bin detrun).                                            *)
(***************************************************************************)
EXTENDS Det, Json
DetDeps == ("tb" :> {} @@ "td" :> {"tb"} @@ "tx" :> {"tb"} @@ "tc" :> {"td"})
Names == <<"t1", "t2", "t3", "t4">>
EmitReplay ==
  PrintT(<<"REPLAY", ToJson([hist |-> [i \in DOMAIN order |-> <<"define_type", 0, 0, Names[i], order[i]>>]])>>)
====
