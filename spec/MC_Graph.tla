---- MODULE MC_Graph ----
(***************************************************************************)
(* TLC-only definitions for the graph models: bounds, VIEW and REPLAY      *)
(* emission.  One JSON line per distinct in-model state:                   *)
(*   hist    a shortest history reaching the state (hist is hidden from    *)
(*           state identity by the VIEW, so TLC keeps one per state)       *)
(*   state   the projected implementation-layer state                      *)
(*   ok      every accepted candidate operation with the id it returns and *)
(*           a digest of its successor state                               *)
(*   err     (full lines only) every rejected candidate operation, grouped *)
(*           by the set of results the contract allows                     *)
(* The library comes from the cfg.                                         *)
(***************************************************************************)
EXTENDS GraphImpl, Json

CONSTANTS MaxDepth,   \* bound on the number of operations of a history (state constraint)
          FullEvery   \* every FullEvery-th state (by a cheap state digest) carries the rejected candidates

MCView == g
DepthBound == Len(hist) <= MaxDepth

OpSeq(o) == <<o.op, o.n1, o.n2, o.s1, o.s2>>

NodeJson(s, n) ==
  [id |-> n, k |-> s.nodes[n].k, pkg |-> s.nodes[n].pkg, item |-> s.nodes[n].item,
   named |-> s.nodes[n].named, imp |-> s.nodes[n].imp, sat |-> s.nodes[n].sat]

StateJson(s) ==
  [reg |-> s.reg,
   nodes |-> {NodeJson(s, n) : n \in ILive(s)},
   edges |-> s.edges,
   exports |-> {[name |-> x, node |-> s.exports[x]] : x \in DOMAIN s.exports},
   implicit |-> GraphImportsImplicit(AbsView(s)),
   encode |-> EncodeOutcome(AbsView(s)),
   kf |-> KnownFindings(s),
   \* some removal candidate reaches a dependant twice: its outcome depends on hash iteration order
   hashsens |-> \E n \in ILive(s) : LET T == DepSucc(AbsView(s), n) \cup AliasSucc(AbsView(s), n)
                                     IN \E t1, t2 \in T : t1 # t2 /\ t2 \in Closure(AbsView(s), {t1}),
   \* the abstract components the contract allows (more than one only in the unspecified case)
   comps |-> IF "ok" \in EncodeOutcome(AbsView(s)) THEN EncodeOf(AbsView(s)) ELSE {}]

Digest(st) ==
  <<Cardinality(DOMAIN st.nodes), Cardinality(st.args), Cardinality(st.aliases),
    Cardinality(DOMAIN st.exports), Cardinality(st.reg)>>

OkJson(st, o) ==
  [o |-> OpSeq(o),
   ret |-> IF o.op = "alias" THEN AliasRet(st, o.n1, o.s1)
           ELSE IF Creates(st, o) THEN NewId(st) ELSE 0,
   d |-> Digest(Apply(st, o).next)]

HistJson == [i \in 1..Len(hist) |-> OpSeq(hist[i].op)]

IsFull == (Len(hist) + Cardinality(g.edges) + Cardinality(DOMAIN g.exports) + Cardinality(g.reg)) % FullEvery = 0

ReplayLine ==
  LET st == AbsView(g)
      cands == Candidates(st)
      \* creating operations are only tried where the bounded pool has room for the result
      tried == {o \in cands : Creates(st, o) => HasRoom(st)}
      \* the contract's verdict, evaluated once per candidate
      al == [o \in tried |-> Apply(st, o).allowed]
      oks == {o \in tried : al[o] = {"ok"}}
      errs == tried \ oks
      tags == {al[o] : o \in errs}
  IN ToJson([hist |-> HistJson, state |-> StateJson(g),
             ok |-> {OkJson(st, o) : o \in oks},
             err |-> IF IsFull
                     THEN {[a |-> t, ops |-> {OpSeq(o) : o \in {x \in errs : al[x] = t}}] : t \in tags}
                     ELSE {}])

EmitReplay == DepthBound => PrintT(<<"REPLAY", ReplayLine>>)
====
