\* simulation: random derivations with random lexeme and trivia choices
CONSTANTS
  MaxTokens = 60
SPECIFICATION GenSpec
INVARIANT EmitSentence
CHECK_DEADLOCK FALSE
