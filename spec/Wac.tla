---- MODULE Wac ----
(***************************************************************************)
(* C04: a reference evaluator for WAC statements, written from LANGUAGE.md.*)
(*                                                                         *)
(* A program is a sequence of statements of the generated pool             *)
(* (Lib_wacpool, lib/universe_wac.py); evaluating a statement either       *)
(* yields the set of diagnostics the reference attaches to the faults the  *)
(* statement contains, or extends the composition -- which is a state of   *)
(* the graph contract (GraphAbs.tla), so that "what the document composes" *)
(* is EncodeOf of that state.                                              *)
(*                                                                         *)
(*   ws.g      the composition (GraphAbs state)                            *)
(*   ws.env    local name -> node                                          *)
(*   ws.nm     node -> the first local name bound to it (name section)     *)
(*   ws.iid    node -> the interface path associated with an instance      *)
(*             ("-" when there is none): imports by package path and       *)
(*             accesses of exports whose name is a path                    *)
(*                                                                         *)
(* Diagnostics are sets: when a statement contains several faults the      *)
(* reference does not say which is reported, so any of them is allowed.    *)
(***************************************************************************)
EXTENDS GraphAbs, Lib_wacpool

NoIid == "-"
SeqOfSetW(S) ==
  LET RECURSIVE F(_)
      F(T) == IF T = {} THEN <<>> ELSE LET x == CHOOSE y \in T : TRUE IN <<x>> \o F(T \ {x})
  IN F(S)
Kind(ws, n) == ws.g.nodes[n].item
Ok(ws, n) == [faults |-> {}, ws |-> ws, node |-> n]
Bad(F) == [faults |-> F, ws |-> <<>>, node |-> 0]

Do(ws, o) == [ws EXCEPT !.g = Apply(ws.g, o).next]

\* "exactly one [extern] that has a path which ends with the name" -- and the name itself is not an extern
Matching(name, externs) ==
  IF name \in externs THEN NONE
  ELSE LET ms == {n \in externs : W_Seg[n] = name}
       IN IF Cardinality(ms) = 1 THEN CHOOSE n \in ms : TRUE ELSE NONE

ImportNameOf(ws, n) == IF ws.g.nodes[n].k = "imp" THEN ws.g.nodes[n].imp ELSE NONE
AliasNameOf(ws, n) ==
  IF ws.g.nodes[n].k = "alias" THEN (CHOOSE a \in ws.g.aliases : a.node = n).exp ELSE NONE

\* alias the export `name` of instance node n (the export exists)
AliasOf(ws, n, name) ==
  LET node == AliasRet(ws.g, n, name)
      ws2 == Do(ws, Op("alias", n, 0, name, NONE))
      k == Kind(ws, n).ex[name]
  IN Ok([ws2 EXCEPT !.iid = Extend(@, node, IF IsInstance(k) /\ W_Colon[name] THEN name ELSE NoIid)], node)

(***************************************************************************)
(* Inferred argument names (LANGUAGE.md, "Inferred Arguments").            *)
(***************************************************************************)
InferredArgName(ws, id, n, imports) ==
  IF IsInstance(Kind(ws, n)) /\ ws.iid[n] # NoIid /\ ws.iid[n] \in imports THEN ws.iid[n]
  ELSE IF ImportNameOf(ws, n) # NONE /\ ImportNameOf(ws, n) \in imports THEN ImportNameOf(ws, n)
  ELSE IF AliasNameOf(ws, n) # NONE /\ AliasNameOf(ws, n) \in imports THEN AliasNameOf(ws, n)
  ELSE IF Matching(id, imports) # NONE THEN Matching(id, imports)
  ELSE id

\* "Named Arguments": an identifier names the unique import whose path ends with it, else itself
NamedArgName(a, imports) ==
  IF a.str THEN a.name
  ELSE IF Matching(a.name, imports) # NONE THEN Matching(a.name, imports) ELSE a.name

(***************************************************************************)
(* Expressions.                                                            *)
(***************************************************************************)
RECURSIVE Eval(_, _), EvalNew(_, _)

Eval(ws, e) ==
  CASE e.e = "id" -> IF e.id \in DOMAIN ws.env THEN Ok(ws, ws.env[e.id]) ELSE Bad({"UndefinedName"})
    [] e.e = "new" -> EvalNew(ws, e)
    [] e.e \in {"acc", "nacc"} ->
         LET r == Eval(ws, e.of)
         IN IF r.faults # {} THEN r
            ELSE IF ~IsInstance(Kind(r.ws, r.node)) THEN Bad({"NotAnInstance"})
            ELSE LET exports == DOMAIN Kind(r.ws, r.node).ex
                     name == IF e.e = "nacc" THEN e.name
                             ELSE IF Matching(e.id, exports) # NONE THEN Matching(e.id, exports) ELSE e.id
                 IN IF name \notin exports THEN Bad({"MissingInstanceExport"})
                    ELSE AliasOf(r.ws, r.node, name)

\* `new pkg { args }`
EvalNew(ws, e) ==
  IF e.pkg \notin W_Packages THEN Bad({"UnknownPackage"})
  ELSE
    LET p == e.pkg
        imports == SeqNames(PkgImports[p])
        n == Len(e.args)
        \* ---- inferred and named arguments, in order: [name, node] entries
        RECURSIVE A(_, _, _, _)
        A(w, acc, F, i) ==
          IF i > n THEN [ws |-> w, args |-> acc, faults |-> F]
          ELSE LET a == e.args[i] IN
               CASE a.a = "inf" ->
                      IF a.id \notin DOMAIN w.env THEN A(w, acc, F \cup {"UndefinedName"}, i + 1)
                      ELSE A(w, Append(acc, [name |-> InferredArgName(w, a.id, w.env[a.id], imports), node |-> w.env[a.id]]), F, i + 1)
                 [] a.a = "named" ->
                      LET r == Eval(w, a.e)
                      IN IF r.faults # {} THEN A(w, acc, F \cup r.faults, i + 1)
                         ELSE A(r.ws, Append(acc, [name |-> NamedArgName(a, imports), node |-> r.node]), F, i + 1)
                 [] a.a = "fill" -> A(w, acc, IF i # n THEN F \cup {"FillArgumentNotLast"} ELSE F, i + 1)
                 [] a.a = "spread" -> A(w, acc, F, i + 1)
        p1 == A(ws, <<>>, {}, 1)
        dup == \E x, y \in DOMAIN p1.args : x # y /\ p1.args[x].name = p1.args[y].name
        requireAll == ~(\E i \in 1..n : e.args[i].a = "fill")
        \* ---- spread arguments, in order, each over the imports not yet provided
        imps == PkgImports[p]
        RECURSIVE S(_, _, _, _)
        S(w, acc, F, i) ==
          IF i > n THEN [ws |-> w, args |-> acc, faults |-> F]
          ELSE LET a == e.args[i] IN
               IF a.a # "spread" THEN S(w, acc, F, i + 1)
               ELSE IF a.id \notin DOMAIN w.env THEN S(w, acc, F \cup {"UndefinedName"}, i + 1)
               ELSE LET src == w.env[a.id] IN
                    IF ~IsInstance(Kind(w, src)) THEN S(w, acc, F \cup {"NotAnInstance"}, i + 1)
                    ELSE
                      LET RECURSIVE X(_, _, _, _)
                          X(w2, acc2, any, j) ==
                            IF j > Len(imps) THEN [ws |-> w2, args |-> acc2, any |-> any]
                            ELSE LET nm == imps[j].n IN
                                 IF (\E x \in DOMAIN acc2 : acc2[x].name = nm) \/ nm \notin DOMAIN Kind(w2, src).ex
                                 THEN X(w2, acc2, any, j + 1)
                                 ELSE LET r == AliasOf(w2, src, nm)
                                      IN X(r.ws, Append(acc2, [name |-> nm, node |-> r.node]), TRUE, j + 1)
                          x == X(w, acc, FALSE, 1)
                      IN S(x.ws, x.args, IF x.any THEN F ELSE F \cup {"SpreadInstantiationNoMatch"}, i + 1)
        spreadUndefined == \E i \in 1..n : e.args[i].a = "spread" /\ e.args[i].id \notin DOMAIN p1.ws.env
    IN IF p1.faults # {} \/ dup
       THEN Bad(p1.faults \cup (IF dup THEN {"DuplicateInstantiationArg"} ELSE {})
                \cup (IF spreadUndefined THEN {"UndefinedName"} ELSE {}))
       ELSE
         LET p2 == S(p1.ws, p1.args, {}, 1)
             args == p2.args
             argFaults == UNION {
                (IF args[x].name \notin imports THEN {"MissingComponentImport"}
                 ELSE IF ~Sub(Kind(p2.ws, args[x].node), ImportFun(p)[args[x].name]) THEN {"MismatchedInstantiationArg"}
                 ELSE {}) : x \in DOMAIN args}
             missing == IF requireAll /\ \E nm \in imports : ~(\E x \in DOMAIN args : args[x].name = nm)
                        THEN {"MissingInstantiationArg"} ELSE {}
             F == p2.faults \cup argFaults \cup missing
         IN IF F # {} THEN Bad(F)
            ELSE
              LET w0 == IF p \in p2.ws.g.reg THEN p2.ws ELSE Do(p2.ws, Op("register", 0, 0, p, NONE))
                  inst == NewId(w0.g)
                  w1 == [Do(w0, Op("instantiate", 0, 0, p, NONE)) EXCEPT !.iid = Extend(@, inst, NoIid)]
                  RECURSIVE Set(_, _)
                  Set(w, x) == IF x > Len(args) THEN w
                               ELSE Set(Do(w, Op("set_arg", inst, args[x].node, args[x].name, NONE)), x + 1)
              IN Ok(Set(w1, 1), inst)

(***************************************************************************)
(* Statements.                                                             *)
(***************************************************************************)
Bind(ws, id, n) ==
  [ws EXCEPT !.env = Extend(@, id, n),
             !.nm = IF n \in DOMAIN @ THEN @ ELSE Extend(@, n, id)]

\* "the export name ... that was accessed", the import name, or the interface path of an instance
InferExportName(ws, n) ==
  IF IsInstance(Kind(ws, n)) /\ ws.iid[n] # NoIid THEN ws.iid[n]
  ELSE IF ImportNameOf(ws, n) # NONE THEN ImportNameOf(ws, n)
  ELSE AliasNameOf(ws, n)

ExportFaults(ws, name) ==
  (IF Taken(DOMAIN ws.g.exports, name) THEN {"DuplicateExternName"} ELSE {})
  \cup (IF name \notin ValidNames THEN {"InvalidExternName"} ELSE {})
  \* a type declared at the root is exported under its own name: no other export may take it
  \cup (IF name \in DOMAIN ws.env /\ ws.g.nodes[ws.env[name]].k = "def" THEN {"ExportConflict"} ELSE {})

\* result: [faults, ws]
Exec(ws, s) ==
  CASE s.s = "type" ->
         \* a type declaration at the root defines the type and exports it under its name
         LET F == (IF s.id \in DOMAIN ws.g.exports THEN {"DeclarationConflict"} ELSE {})
                  \cup (IF s.id \in DOMAIN ws.env THEN {"DuplicateName"} ELSE {})
             n == NewId(ws.g)
             w1 == [Do(ws, Op("define_type", 0, 0, s.id, s.def)) EXCEPT !.iid = Extend(@, n, NoIid)]
         IN IF F # {} \/ s.def \in DefinedTypes(ws.g) THEN [faults |-> F \cup {"DuplicateName"}, ws |-> ws]
            ELSE [faults |-> {}, ws |-> Bind(w1, s.id, n)]
    [] s.s = "import" ->
         LET F == (IF s.name \in ImportedNames(ws.g) THEN {"DuplicateExternName"} ELSE {})
                  \cup (IF s.name \notin ValidNames THEN {"InvalidExternName"} ELSE {})
                  \cup (IF s.id \in DOMAIN ws.env THEN {"DuplicateName"} ELSE {})
             n == NewId(ws.g)
             w1 == [Do(ws, Op("import", 0, 0, s.name, s.kind)) EXCEPT !.iid = Extend(@, n, s.iid)]
         IN IF F # {} THEN [faults |-> F, ws |-> ws] ELSE [faults |-> {}, ws |-> Bind(w1, s.id, n)]
    [] s.s = "let" ->
         LET r == Eval(ws, s.e)
             F == r.faults \cup (IF s.id \in DOMAIN ws.env THEN {"DuplicateName"} ELSE {})
         IN IF F # {} THEN [faults |-> F, ws |-> ws] ELSE [faults |-> {}, ws |-> Bind(r.ws, s.id, r.node)]
    [] s.s = "export" ->
         LET r == Eval(ws, s.e)
         IN IF r.faults # {} THEN [faults |-> r.faults, ws |-> ws]
            ELSE CASE s.opt = "as" ->
                        LET F == ExportFaults(r.ws, s.name)
                        IN IF F # {} THEN [faults |-> F, ws |-> ws]
                           ELSE [faults |-> {}, ws |-> Do(r.ws, Op("export", r.node, 0, s.name, NONE))]
                   [] s.opt = "none" ->
                        LET name == InferExportName(r.ws, r.node)
                            F == IF name = NONE THEN {"ExportRequiresAs"} ELSE ExportFaults(r.ws, name)
                        IN IF F # {} THEN [faults |-> F, ws |-> ws]
                           ELSE [faults |-> {}, ws |-> Do(r.ws, Op("export", r.node, 0, name, NONE))]
                   [] s.opt = "spread" ->
                        IF ~IsInstance(Kind(r.ws, r.node)) THEN [faults |-> {"NotAnInstance"}, ws |-> ws]
                        ELSE
                          \* every export of the instance that does not conflict with a previous export
                          \* (the resolver skips a name that is exported already, looked up exactly; a name that
                          \* conflicts up to ASCII case only -- GraphAbs.SameName -- is refused by export())
                          LET todo == SeqOfSetW(DOMAIN Kind(r.ws, r.node).ex \ DOMAIN r.ws.g.exports)
                              RECURSIVE X(_, _)
                              X(w, j) == IF j > Len(todo) THEN w
                                         ELSE LET a == AliasOf(w, r.node, todo[j])
                                              IN X(Do(a.ws, Op("export", a.node, 0, todo[j], NONE)), j + 1)
                              F == (IF todo = <<>> THEN {"SpreadExportNoEffect"} ELSE {})
                                   \cup (IF \E j \in DOMAIN todo : todo[j] \notin ValidNames THEN {"InvalidExternName"} ELSE {})
                                   \cup (IF \E j \in DOMAIN todo : Taken(DOMAIN r.ws.g.exports, todo[j]) THEN {"DuplicateExternName"} ELSE {})
                          IN IF F # {} THEN [faults |-> F, ws |-> ws] ELSE [faults |-> {}, ws |-> X(r.ws, 1)]

InitWs == [g |-> EmptyState, env |-> <<>>, nm |-> <<>>, iid |-> <<>>]

(***************************************************************************)
(* Programs.                                                               *)
(***************************************************************************)
CONSTANTS MaxStmts, PoolFocus

VARIABLES prog, ws, faults
wvars == <<prog, ws, faults>>

WInit == prog = <<>> /\ ws = InitWs /\ faults = {}
WNext ==
  /\ faults = {}
  /\ Len(prog) < MaxStmts
  /\ \E i \in PoolFocus :
       LET r == Exec(ws, W_Pool[i])
       IN prog' = Append(prog, i) /\ ws' = r.ws /\ faults' = r.faults
WSpec == WInit /\ [][WNext]_wvars

(***************************************************************************)
(* Properties of the evaluator itself (sanity of the reference).           *)
(***************************************************************************)
\* every graph operation the evaluator issues is one the graph contract accepts: a well-formed
\* document never drives the composition graph into an error
\* (Do() takes .next, which only exists for accepted operations: TLC fails otherwise)
EnvSound == \A x \in DOMAIN ws.env : ws.env[x] \in Live(ws.g)
NamesSound == \A n \in DOMAIN ws.nm : n \in Live(ws.g) /\ ws.nm[n] \in DOMAIN ws.env /\ ws.env[ws.nm[n]] = n
Room == HasRoom(ws.g)
\* `let` only names: the composition never contains a cycle, so encoding can only fail on imports
NoCycle == ~HasCycle(ws.g)
====
