\* trace validation against the contract GraphAbs, shape library, up to 16 live nodes
CONSTANTS
  Pkgs <- L_shape_Pkgs
  PkgKey <- L_shape_PkgKey
  PkgImports <- L_shape_PkgImports
  PkgExports <- L_shape_PkgExports
  KindTab <- L_shape_Kinds
  ImportNames <- L_shape_ImportNames
  ExportNames <- L_shape_ExportNames
  DefNames <- L_shape_DefNames
  ValidNames <- L_shape_ValidNames
  DefClass <- L_shape_DefClass
  DefDeps <- L_shape_DefDeps
  NameInfo <- L_shape_NameInfo
  NodeIds = {1, 2, 3, 4, 5, 6, 7, 8, 9, 10, 11, 12, 13, 14, 15, 16}
  OpKinds = {"register", "unregister", "define_type", "import", "instantiate", "alias", "set_arg", "unset_arg", "export", "unexport", "set_name", "remove"}
SPECIFICATION TraceSpec
INVARIANT WellFormed
POSTCONDITION TraceAccepted
CHECK_DEADLOCK FALSE
