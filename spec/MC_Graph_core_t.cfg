\* thorough: core library, at most 3 simultaneously live nodes, all histories of at most 7 operations
CONSTANTS
  LibName = "core"
  NodeIds = {1, 2, 3}
  OpKinds = {"register", "unregister", "define_type", "import", "instantiate", "alias", "set_arg", "unset_arg", "export", "unexport", "set_name", "remove"}
  InitReg = {}
  DEV_StaleSat = FALSE
  DEV_StaleExports = FALSE
  DEV_DoubleRemove = FALSE
  DEV_UndefDep = TRUE
  DEV_DefRename = TRUE
  DEV_NameCase = FALSE
  DEV_DefLocator = FALSE
  DEV_KindBound = TRUE
  DEV_UnnamedDef = TRUE
  MaxDepth = 7
  FullEvery = 6
SPECIFICATION Spec
VIEW MCView
INVARIANTS NoPanic Consistent QueriesAgree EmitReplay
CONSTRAINT DepthBound
PROPERTIES RefinesAbs
CHECK_DEADLOCK FALSE
