\* replay generation + contract invariants on the repaired merge (FocusCore, histories up to 5 contributors)
SPECIFICATION Spec
CONSTANTS
  MaxContrib = 5
  Focus <- FocusCore
  DEV_NestedSupertype = FALSE
INVARIANTS FailsExactly MatchesContract UniqueNames Canonical Satisfies Idempotent EmitReplay
CHECK_DEADLOCK FALSE
