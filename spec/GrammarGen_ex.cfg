\* exhaustive: every sentence (sequence of token kinds) of at most MaxTokens tokens, first lexeme/trivia choices
CONSTANTS
  MaxTokens = 9
SPECIFICATION GenSpec
CONSTRAINT FirstChoicesOnly
INVARIANT EmitSentence
CHECK_DEADLOCK FALSE
