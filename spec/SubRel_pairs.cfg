\* the pair relation over the whole type universe (no memo machine: MaxChecks = 0)
CONSTANTS
  MaxChecks = 0
  InsertBeforeCheck = FALSE
SPECIFICATION MSpec
INVARIANTS Laws VerdictStable MemoSound
CHECK_DEADLOCK FALSE
