---- MODULE Det ----
(***************************************************************************)
(* C16: the emission order of an encoding is a function of the composition *)
(* (the history of operations), not of hash-map iteration order.           *)
(*                                                                         *)
(* Self-composition: two copies of the graph take the same history of      *)
(* define_type operations.  Wherever the code iterates a hash-ordered      *)
(* container, each copy draws its own iteration order.  The only such      *)
(* place on the path from the history to the emission order is the second  *)
(* loop of define_type, which walks the `defined` HashMap to add edges     *)
(* from the new type to the already defined types that reference it; the   *)
(* order of those add_edge calls is the order of the new node's adjacency  *)
(* list, which the index-ordered depth-first toposort of the encoder       *)
(* follows.  (The other hash containers of the encode path - node_indexes, *)
(* explicit_imports, the aggregator's maps - are only looked up by key;    *)
(* conformance by re-execution covers them.)                               *)
(*                                                                         *)
(* HashOrdered = TRUE models the code as it was found: TLC finds a history *)
(* and two iteration orders with different emission orders.  FALSE models  *)
(* the repaired code (the entries are visited in node order).              *)
(***************************************************************************)
EXTENDS Naturals, Sequences, FiniteSets, TLC

CONSTANTS DefTypes,     \* definable type ids
          DefDeps,      \* type id -> set of type ids it directly references
          HashOrdered   \* BOOLEAN

Copies == {1, 2}

VARIABLES order,   \* sequence of type ids in definition order (node index = position); shared history
          adj      \* copy -> node index -> sequence of successor node indexes, most recent edge first
vars == <<order, adj>>

Init == order = <<>> /\ adj = [c \in Copies |-> <<>>]

IndexOf(t) == CHOOSE i \in DOMAIN order : order[i] = t
Defined == {order[i] : i \in DOMAIN order}

\* all orders (sequences without repetition) of a finite set
RECURSIVE Perms(_)
Perms(S) == IF S = {} THEN {<<>>}
            ELSE UNION {{<<x>> \o p : p \in Perms(S \ {x})} : x \in S}
RECURSIVE Sorted(_)
Sorted(S) == IF S = {} THEN <<>>
             ELSE LET m == CHOOSE x \in S : \A y \in S : x <= y IN <<m>> \o Sorted(S \ {m})

\* add_edge(src, dst): petgraph puts the new edge at the head of src's outgoing list
RECURSIVE AddEdges(_, _, _)
AddEdges(a, src, dsts) ==
  IF dsts = <<>> THEN a
  ELSE AddEdges([a EXCEPT ![src] = <<Head(dsts)>> \o @], src, Tail(dsts))

Define(t) ==
  /\ t \notin Defined
  /\ LET n == Len(order) + 1
         \* first loop: edges from already defined dependencies to the new node (visit order of the
         \* type's own structure: deterministic)
         deps == {IndexOf(d) : d \in DefDeps[t] \cap Defined}
         \* second loop: the defined types that reference the new one, in the container's order
         rdeps == {IndexOf(o) : o \in {x \in Defined : t \in DefDeps[x]}}
     IN /\ order' = Append(order, t)
        /\ \E p1 \in (IF HashOrdered THEN Perms(rdeps) ELSE {Sorted(rdeps)}),
              p2 \in (IF HashOrdered THEN Perms(rdeps) ELSE {Sorted(rdeps)}) :
             adj' = [c \in Copies |->
                       LET base == [i \in 1..n |-> IF i = n THEN <<>> ELSE adj[c][i]]
                           withDeps == [i \in 1..n |-> IF i \in deps THEN <<n>> \o base[i] ELSE base[i]]
                       IN AddEdges(withDeps, n, IF c = 1 THEN p1 ELSE p2)]

Next == \E t \in DefTypes : Define(t)
Spec == Init /\ [][Next]_vars

(***************************************************************************)
(* The encoder's toposort (graph.rs: `toposort`): nodes visited in reverse *)
(* index order, iterative DFS pushing unvisited successors in adjacency    *)
(* order, finish order reversed.                                           *)
(***************************************************************************)
RECURSIVE PushAll(_, _, _)
PushAll(stack, succs, discovered) ==
  IF succs = <<>> THEN stack
  ELSE PushAll(IF Head(succs) \in discovered THEN stack ELSE Append(stack, Head(succs)), Tail(succs), discovered)

\* st = [stack, discovered, finished (set), fin (sequence)]
RECURSIVE Dfs(_, _)
Dfs(a, st) ==
  IF st.stack = <<>> THEN st
  ELSE LET nx == st.stack[Len(st.stack)]
       IN IF nx \notin st.discovered
          THEN Dfs(a, [st EXCEPT !.discovered = @ \cup {nx},
                                  !.stack = PushAll(@, a[nx], st.discovered \cup {nx})])
          ELSE Dfs(a, [st EXCEPT !.stack = SubSeq(@, 1, Len(@) - 1),
                                  !.finished = @ \cup {nx},
                                  !.fin = IF nx \in st.finished THEN @ ELSE Append(@, nx)])

RECURSIVE Outer(_, _, _)
Outer(a, i, st) ==
  IF i = 0 THEN st
  ELSE Outer(a, i - 1, IF i \in st.discovered THEN st ELSE Dfs(a, [st EXCEPT !.stack = <<i>>]))

Reverse(s) == [i \in 1..Len(s) |-> s[Len(s) + 1 - i]]
Emission(c) ==
  LET n == Len(order)
      st == Outer(adj[c], n, [stack |-> <<>>, discovered |-> {}, finished |-> {}, fin |-> <<>>])
  IN Reverse(st.fin)

\* the emission order is a valid topological order in both copies ...
RECURSIVE Pos(_, _)
Pos(s, x) == CHOOSE i \in DOMAIN s : s[i] = x
TopoOk(c) ==
  LET e == Emission(c)
  IN /\ Len(e) = Len(order)
     /\ \A i \in DOMAIN order : \A j \in DOMAIN adj[c][i] : Pos(e, i) < Pos(e, adj[c][i][j])
\* ... and the same in both: the output is a function of the history
Deterministic == Emission(1) = Emission(2)
Topological == TopoOk(1) /\ TopoOk(2)
====
