\* resources compared by identity through the binding of the supplied arguments: every accepted argument
\* is right (the checker's part of the clause holds)
SPECIFICATION Spec
CONSTANTS
  DEV_ResByName = FALSE
INVARIANTS ClauseArgsInv SelfSupply
CHECK_DEADLOCK FALSE
