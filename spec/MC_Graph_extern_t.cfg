\* thorough: extern library (names differing in case only, locator names, a kind-bound name)
CONSTANTS
  LibName = "extern"
  NodeIds = {1, 2, 3, 4}
  OpKinds = {"define_type", "import", "instantiate", "export", "unexport", "remove"}
  InitReg = {"pa"}
  DEV_StaleSat = FALSE
  DEV_StaleExports = FALSE
  DEV_DoubleRemove = FALSE
  DEV_UndefDep = TRUE
  DEV_DefRename = TRUE
  DEV_NameCase = FALSE
  DEV_DefLocator = FALSE
  DEV_KindBound = TRUE
  DEV_UnnamedDef = TRUE
  MaxDepth = 6
  FullEvery = 1
SPECIFICATION Spec
VIEW MCView
INVARIANTS NoPanic Consistent QueriesAgree EmitReplay
CONSTRAINT DepthBound
PROPERTIES RefinesAbs
CHECK_DEADLOCK FALSE
