---- MODULE TraceGraph ----
(***************************************************************************)
(* Trace validation (implementation -> specification) for the composition  *)
(* graph: a sequence of events recorded from the real CompositionGraph     *)
(* (by the random driver, by plug(), by the WAC resolver through hook H3)  *)
(* must be a behaviour of the contract GraphAbs.                           *)
(*                                                                         *)
(* One event per public call, logged at its return (error path included):  *)
(*   [a |-> "op", o |-> <<op, n1, n2, s1, s2>>, res |-> tag, ret |-> id,    *)
(*    d |-> digest of the real state after the call,                        *)
(*    imp |-> implicit import names reported by imports()]                  *)
(*   [a |-> "encode", res |-> tag]                                          *)
(*   [a |-> "reset"]                separates concatenated runs             *)
(* Every event carries its arguments and result, so the search is linear.  *)
(* Acceptance is by POSTCONDITION on the number of consumed events.        *)
(***************************************************************************)
EXTENDS GraphAbs, Json, IOUtils

Events == ndJsonDeserialize(IOEnv.TRACE_FILE)

VARIABLES st, l
tvars == <<st, l>>

TDigest(s) ==
  <<Cardinality(DOMAIN s.nodes), Cardinality(s.args), Cardinality(s.aliases),
    Cardinality(DOMAIN s.exports), Cardinality(s.reg)>>

TraceInit == st = EmptyState /\ l = 1

Reset == Events[l].a = "reset" /\ st' = EmptyState

Call ==
  /\ Events[l].a = "op"
  /\ LET e == Events[l]
         o == Op(e.o[1], e.o[2], e.o[3], e.o[4], e.o[5])
         r == Apply(st, o)
     IN /\ e.res \in r.allowed                       \* the result is one the contract allows here
        /\ st' = IF e.res = "ok" THEN r.next ELSE st  \* a rejected call changes nothing
        /\ e.res = "ok" =>
             /\ e.d = TDigest(r.next)                 \* the real state has the contract's shape
             /\ e.ret = (IF o.op = "alias" THEN AliasRet(st, o.n1, o.s1)
                         ELSE IF Creates(st, o) THEN NewId(st) ELSE 0)
             /\ LET imp == GraphImportsImplicit(r.next)   \* imports() agrees
                IN \A i \in 1..Len(e.imp) : e.imp[i] \in imp
             /\ Cardinality(GraphImportsImplicit(r.next)) = Len(e.imp)

Encode ==
  /\ Events[l].a = "encode"
  /\ Events[l].res \in EncodeOutcome(st)
  /\ UNCHANGED st

TraceNext == l <= Len(Events) /\ l' = l + 1 /\ (Reset \/ Call \/ Encode)

TraceSpec == TraceInit /\ [][TraceNext]_tvars

\* abstract-state sanity evaluated in every state of every trace
WellFormed ==
  /\ \A a \in st.args : a.inst \in DOMAIN st.nodes /\ a.src \in DOMAIN st.nodes
  /\ \A a \in st.aliases : a.src \in DOMAIN st.nodes /\ a.node \in DOMAIN st.nodes
  /\ \A x \in DOMAIN st.exports : st.exports[x] \in DOMAIN st.nodes
  /\ \A n \in DOMAIN st.nodes : st.nodes[n].pkg # NONE => st.nodes[n].pkg \in st.reg

TraceAccepted ==
  LET d == TLCGet("stats").diameter
  IN IF d - 1 = Len(Events) THEN TRUE
     ELSE Print(<<"TRACE-REJECTED", d, ToJson(Events[d])>>, FALSE)
====
