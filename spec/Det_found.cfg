\* code as found: define_type visits the defined types in hash order (expected: Deterministic is violated)
CONSTANTS
  DefTypes = {"tb", "td", "tx", "tc"}
  DefDeps <- DetDeps
  HashOrdered = TRUE
SPECIFICATION Spec
INVARIANTS Deterministic Topological
CHECK_DEADLOCK FALSE
