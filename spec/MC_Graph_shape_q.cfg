\* quick: shape library (import-less package, repeated instantiation, type items, compound tuple), pre-registered, creation operations only, at most 4 nodes, 5 operations
CONSTANTS
  LibName = "shape"
  NodeIds = {1, 2, 3, 4}
  OpKinds = {"import", "instantiate", "alias", "set_arg", "export", "set_name"}
  InitReg = {"pd", "pe"}
  DEV_StaleSat = FALSE
  DEV_StaleExports = FALSE
  DEV_DoubleRemove = FALSE
  DEV_UndefDep = TRUE
  DEV_DefRename = TRUE
  DEV_NameCase = FALSE
  DEV_DefLocator = FALSE
  DEV_KindBound = TRUE
  DEV_UnnamedDef = TRUE
  MaxDepth = 7
  FullEvery = 1
SPECIFICATION Spec
VIEW MCView
INVARIANTS NoPanic Consistent QueriesAgree EmitReplay
CONSTRAINT DepthBound
PROPERTIES RefinesAbs
CHECK_DEADLOCK FALSE
