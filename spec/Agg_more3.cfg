\* replay generation + contract invariants (FocusMore: two-digit versions, track-less used interfaces, exports
\* after a nested instance; histories up to 3 contributors)
SPECIFICATION Spec
CONSTANTS
  MaxContrib = 3
  Focus <- FocusMore
  DEV_NestedSupertype = FALSE
  DEV_OwnerImportTwice = FALSE
  DEV_OwnerNaming = TRUE
  DEV_WorldMerge = TRUE
  DEV_SharedRemap = TRUE
INVARIANTS FailsExactly MatchesContract MatchesByKey OneImportPerKey UniqueNames Canonical Satisfies Idempotent EmitReplay
CHECK_DEADLOCK FALSE
