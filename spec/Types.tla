---- MODULE Types ----
(***************************************************************************)
(* Abstract item kinds and the component-model subtype / merge relations  *)
(* as far as the composition graph needs them.                            *)
(*                                                                         *)
(* A kind is one of                                                        *)
(*   [c |-> "func", sig |-> s]      function type; subtyping is equality   *)
(*   [c |-> "inst", ex |-> f]       instance type, f : export name -> kind *)
(*                                  (width and depth subtyping)            *)
(*   [c |-> "type", id |-> t]       a defined (value) type; equality       *)
(*   [c |-> "rtype", desc |-> d]    a type item (type export of an         *)
(*                                  instance, type import); equality       *)
(***************************************************************************)
EXTENDS Naturals, FiniteSets, TLC

RECURSIVE Sub(_, _)
\* Sub(a, b): an item of kind a may be supplied where kind b is expected.
Sub(a, b) ==
  IF a.c # b.c THEN FALSE
  ELSE CASE a.c = "func" -> a.sig = b.sig
         [] a.c = "type" -> a.id = b.id
         [] a.c = "rtype" -> a.desc = b.desc
         [] a.c = "inst" -> \A e \in DOMAIN b.ex :
                               e \in DOMAIN a.ex /\ Sub(a.ex[e], b.ex[e])
         [] OTHER -> FALSE

RECURSIVE Mergeable(_, _)
\* Two requirements for the same import can be merged iff a single kind satisfies both.
Mergeable(a, b) ==
  IF a.c # b.c THEN FALSE
  ELSE CASE a.c = "func" -> a.sig = b.sig
         [] a.c = "type" -> a.id = b.id
         [] a.c = "rtype" -> a.desc = b.desc
         [] a.c = "inst" -> \A e \in DOMAIN a.ex \cap DOMAIN b.ex : Mergeable(a.ex[e], b.ex[e])
         [] OTHER -> FALSE

RECURSIVE Merge(_, _)
\* The greatest kind satisfying both a and b (defined when Mergeable(a, b)).
Merge(a, b) ==
  CASE a.c = "inst" ->
         [c |-> "inst",
          ex |-> [e \in DOMAIN a.ex \cup DOMAIN b.ex |->
                    IF e \in DOMAIN a.ex /\ e \in DOMAIN b.ex THEN Merge(a.ex[e], b.ex[e])
                    ELSE IF e \in DOMAIN a.ex THEN a.ex[e] ELSE b.ex[e]]]
    [] OTHER -> a

IsInstance(k) == k.c = "inst"
====
