---- MODULE Types ----
(***************************************************************************)
(* Abstract item kinds and the component-model subtype / merge relations.  *)
(*                                                                         *)
(* Kinds used by the composition-graph libraries:                          *)
(*   [c |-> "func", sig |-> s]      function type named by its signature;  *)
(*                                  subtyping is equality                  *)
(*   [c |-> "inst", ex |-> f]       instance type, f : export name -> kind *)
(*                                  (width and depth subtyping)            *)
(*   [c |-> "type", id |-> t]       a defined (value) type; equality       *)
(*   [c |-> "rtype", desc |-> d]    a type item (type export of an         *)
(*                                  instance, type import); equality       *)
(* Kinds of the type universe (C07, C09), with structure:                  *)
(*   value types  [c |-> "prim", p], [c |-> "list" | "option", e],         *)
(*                [c |-> "result", ok, err], [c |-> "tuple", es],          *)
(*                [c |-> "record", fs], [c |-> "variant", cs],             *)
(*                [c |-> "enum" | "flags", ns], [c |-> "none"] (absent)    *)
(*   [c |-> "fn", ps |-> <<[n, v]..>>, r |-> v | none, async |-> BOOLEAN]  *)
(*   [c |-> "comp", im |-> f, ex |-> f]   component type                   *)
(*                                                                         *)
(* The rules are those the property quotes: instances and components may   *)
(* offer more exports, components may need fewer imports (contravariant),  *)
(* functions, values and defined types must match structurally.            *)
(***************************************************************************)
EXTENDS Integers, Sequences, FiniteSets, TLC

RECURSIVE ValEq(_, _)
\* structural equality of value types (field / case / parameter names and order matter)
ValEq(a, b) ==
  IF a.c # b.c THEN FALSE
  ELSE CASE a.c = "none" -> TRUE
         [] a.c = "prim" -> a.p = b.p
         [] a.c \in {"list", "option"} -> ValEq(a.e, b.e)
         [] a.c = "flist" -> a.n = b.n /\ ValEq(a.e, b.e)
         [] a.c = "result" -> ValEq(a.ok, b.ok) /\ ValEq(a.err, b.err)
         [] a.c = "tuple" -> Len(a.es) = Len(b.es) /\ \A i \in DOMAIN a.es : ValEq(a.es[i], b.es[i])
         [] a.c = "record" -> Len(a.fs) = Len(b.fs)
                               /\ \A i \in DOMAIN a.fs : a.fs[i].n = b.fs[i].n /\ ValEq(a.fs[i].v, b.fs[i].v)
         [] a.c = "variant" -> Len(a.cs) = Len(b.cs)
                                /\ \A i \in DOMAIN a.cs : a.cs[i].n = b.cs[i].n /\ ValEq(a.cs[i].v, b.cs[i].v)
         [] a.c \in {"enum", "flags"} -> a.ns = b.ns
         [] OTHER -> FALSE

\* Core externs of module types: [x |-> "cfunc", sig], [x |-> "mem", init, max, shared, m64],
\* [x |-> "table", elem, init, max], [x |-> "global", vt, mut]; max = -1 stands for "no maximum".
\* Import matching of the core specification: the offered limits lie within the expected ones.
LimitsMatch(ai, am, bi, bm) ==
  /\ ai >= bi
  /\ IF bm = -1 THEN TRUE ELSE am # -1 /\ am <= bm
ExternSub(a, b) ==
  IF a.x # b.x THEN FALSE
  ELSE CASE a.x = "cfunc" -> a.sig = b.sig
         [] a.x = "tag" -> a.sig = b.sig
         [] a.x = "mem" -> a.shared = b.shared /\ a.m64 = b.m64 /\ LimitsMatch(a.init, a.max, b.init, b.max)
         [] a.x = "table" -> a.elem = b.elem /\ LimitsMatch(a.init, a.max, b.init, b.max)
         [] a.x = "global" -> a.vt = b.vt /\ a.mut = b.mut
         [] OTHER -> FALSE

RECURSIVE Sub(_, _)
\* Sub(a, b): an item of kind a may be supplied where kind b is expected.
Sub(a, b) ==
  IF a.c # b.c THEN FALSE
  ELSE CASE a.c = "func" -> a.sig = b.sig
         [] a.c = "type" -> a.id = b.id
         [] a.c = "rtype" -> a.desc = b.desc
         \* a type item whose type is an item type (an exported function TYPE): equal types; never an item of that type
         [] a.c = "tyof" -> Sub(a.t, b.t) /\ Sub(b.t, a.t)
         [] a.c = "inst" -> \A e \in DOMAIN b.ex :
                               e \in DOMAIN a.ex /\ Sub(a.ex[e], b.ex[e])
         [] a.c = "fn" -> /\ a.async = b.async
                          /\ Len(a.ps) = Len(b.ps)
                          /\ \A i \in DOMAIN a.ps : a.ps[i].n = b.ps[i].n /\ ValEq(a.ps[i].v, b.ps[i].v)
                          /\ ValEq(a.r, b.r)
         [] a.c = "comp" -> \* every import a needs is provided to b's users too (contravariant) ...
                            /\ \A k \in DOMAIN a.im : k \in DOMAIN b.im /\ Sub(b.im[k], a.im[k])
                            \* ... and a offers at least b's exports
                            /\ \A k \in DOMAIN b.ex : k \in DOMAIN a.ex /\ Sub(a.ex[k], b.ex[k])
         [] a.c = "mod" -> \* core module types: imports contravariant, exports covariant, by import matching
                           /\ \A k \in DOMAIN a.im : k \in DOMAIN b.im /\ ExternSub(b.im[k], a.im[k])
                           /\ \A k \in DOMAIN b.ex : k \in DOMAIN a.ex /\ ExternSub(a.ex[k], b.ex[k])
         [] OTHER -> FALSE

RECURSIVE Mergeable(_, _)
\* Two requirements for the same import can be merged iff a single kind satisfies both.
Mergeable(a, b) ==
  IF a.c # b.c THEN FALSE
  ELSE CASE a.c = "func" -> a.sig = b.sig
         [] a.c = "type" -> a.id = b.id
         [] a.c = "rtype" -> a.desc = b.desc
         [] a.c = "fn" -> Sub(a, b)
         [] a.c = "inst" -> \A e \in DOMAIN a.ex \cap DOMAIN b.ex : Mergeable(a.ex[e], b.ex[e])
         [] OTHER -> FALSE

RECURSIVE Merge(_, _)
\* The greatest kind satisfying both a and b (defined when Mergeable(a, b)).
Merge(a, b) ==
  CASE a.c = "inst" ->
         [c |-> "inst",
          ex |-> [e \in DOMAIN a.ex \cup DOMAIN b.ex |->
                    IF e \in DOMAIN a.ex /\ e \in DOMAIN b.ex THEN Merge(a.ex[e], b.ex[e])
                    ELSE IF e \in DOMAIN a.ex THEN a.ex[e] ELSE b.ex[e]]]
    [] OTHER -> a

IsInstance(k) == k.c = "inst"
====
