\* quick: versioned library (semver tracks, shared implicit imports), 5 packages pre-registered, at most 3 live nodes, 4 further operations
CONSTANTS
  LibName = "ver"
  NodeIds = {1, 2, 3}
  OpKinds = {"import", "instantiate", "alias", "set_arg", "unset_arg", "export", "remove"}
  InitReg = {"p1", "p2", "p3", "p4", "p5"}
  DEV_StaleSat = FALSE
  DEV_StaleExports = FALSE
  DEV_DoubleRemove = FALSE
  DEV_UndefDep = TRUE
  DEV_DefRename = TRUE
  DEV_NameCase = FALSE
  DEV_DefLocator = FALSE
  DEV_KindBound = TRUE
  DEV_UnnamedDef = TRUE
  MaxDepth = 9
  FullEvery = 1
SPECIFICATION Spec
VIEW MCView
INVARIANTS NoPanic Consistent QueriesAgree EmitReplay
CONSTRAINT DepthBound
PROPERTIES RefinesAbs
CHECK_DEADLOCK FALSE
