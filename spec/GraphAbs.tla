---- MODULE GraphAbs ----
(***************************************************************************)
(* Contract layer of wac_graph::CompositionGraph, written from the doc     *)
(* comments and error enums of the public API (see DESIGN.md Appendix A).  *)
(*                                                                         *)
(* The contract is a pure function of an abstract state record:            *)
(*   st.reg      set of registered library packages                        *)
(*   st.nodes    live node id -> [k, pkg, item, named, imp]                *)
(*   st.args     set of [inst, arg, src]   (argument `arg` of `inst` is    *)
(*               satisfied by node `src`)                                  *)
(*   st.aliases  set of [src, exp, node]   (`node` aliases export `exp`    *)
(*               of instance node `src`)                                   *)
(*   st.exports  export name -> node                                       *)
(* Apply(st, o) gives the set of results the documentation allows for      *)
(* operation o in state st and, when "ok" is allowed, the successor state. *)
(* Everything else (queries, encode outcome, the encoded component) is a   *)
(* function of the state, i.e. of the *set* of things that exist, never of *)
(* the order in which they were created.                                   *)
(***************************************************************************)
EXTENDS Naturals, Sequences, FiniteSets, TLC, Types, Names

CONSTANTS
  Pkgs,         \* library package ids
  PkgKey,       \* package id -> "name[@version]" (registration key)
  PkgImports,   \* package id -> sequence of [n |-> name, k |-> kind]
  PkgExports,   \* package id -> sequence of [n |-> name, k |-> kind]
  KindTab,      \* named kinds usable in import(): kind name -> kind
  ImportNames,  \* candidate names for import()
  ExportNames,  \* candidate names for export()
  DefNames,     \* candidate names for define_type()
  ValidNames,   \* the candidate names that are valid extern names
  DefClass,     \* definable type id -> "value" | "resource"
  DefDeps,      \* definable type id -> set of type ids it directly references
  NameInfo,     \* extern name -> [base, ver, pre, build]   (see Names.tla)
  NodeIds,      \* finite pool of node identifiers (naturals)
  OpKinds       \* the operation names a model explores (a sub-model may leave some out)

NONE == "-"

SeqNames(s) == {s[i].n : i \in DOMAIN s}
SeqFun(s) == [x \in SeqNames(s) |-> s[CHOOSE i \in DOMAIN s : s[i].n = x].k]
ImportFun(p) == SeqFun(PkgImports[p])
ExportFun(p) == SeqFun(PkgExports[p])
InstKind(p) == [c |-> "inst", ex |-> ExportFun(p)]
TypeKind(t) == [c |-> "type", id |-> t]
DefTypes == DOMAIN DefClass

EmptyState == [reg |-> {}, nodes |-> <<>>, args |-> {}, aliases |-> {}, exports |-> <<>>]

Live(st) == DOMAIN st.nodes
NewId(st) == IF NodeIds \ Live(st) = {} THEN 0   \* (no room in the bounded pool: never used)
             ELSE CHOOSE i \in NodeIds \ Live(st) : \A j \in NodeIds \ Live(st) : i <= j
HasRoom(st) == NodeIds \ Live(st) # {}

Restrict(f, S) == [x \in S |-> f[x]]
Extend(f, k, v) == [x \in DOMAIN f \cup {k} |-> IF x = k THEN v ELSE f[x]]

Op(o, n1, n2, s1, s2) == [op |-> o, n1 |-> n1, n2 |-> n2, s1 |-> s1, s2 |-> s2]

DefNodes(st) == {n \in Live(st) : st.nodes[n].k = "def"}
DefinedTypes(st) == {st.nodes[n].item.id : n \in DefNodes(st)}
DefNodeOf(st, t) == CHOOSE n \in DefNodes(st) : st.nodes[n].item.id = t
ImportedNames(st) == {st.nodes[n].imp : n \in {m \in Live(st) : st.nodes[m].k = "imp"}}
ImportNodeOf(st, name) == CHOOSE n \in Live(st) : st.nodes[n].k = "imp" /\ st.nodes[n].imp = name

\* dependency relation between definition nodes (from a type to the types that reference it)
DepSucc(st, n) ==
  IF st.nodes[n].k # "def" THEN {}
  ELSE {d \in DefNodes(st) : st.nodes[n].item.id \in DefDeps[st.nodes[d].item.id]}
AliasSucc(st, n) == {a.node : a \in {b \in st.aliases : b.src = n}}

RECURSIVE Closure(_, _)
Closure(st, S) ==
  LET S2 == S \cup UNION {DepSucc(st, m) \cup AliasSucc(st, m) : m \in S}
  IN IF S2 = S THEN S ELSE Closure(st, S2)

\* "Removal leaves no trace": nothing mentions a removed node afterwards.
RemoveSet(st, R) ==
  [st EXCEPT
     !.nodes = Restrict(st.nodes, Live(st) \ R),
     !.args = {a \in st.args : a.inst \notin R /\ a.src \notin R},
     !.aliases = {a \in st.aliases : a.src \notin R /\ a.node \notin R},
     !.exports = Restrict(st.exports, {x \in DOMAIN st.exports : st.exports[x] \notin R})]

AddNode(st, rec) == [st EXCEPT !.nodes = Extend(st.nodes, NewId(st), rec)]
NodeRec(k, pkg, item, imp) == [k |-> k, pkg |-> pkg, item |-> item, named |-> FALSE, imp |-> imp]

\* (the successor is only defined, and only evaluated, when the operation is accepted)
Result(errs, next) ==
  IF errs = {} THEN [allowed |-> {"ok"}, next |-> next] ELSE [allowed |-> errs, next |-> <<>>]

(***************************************************************************)
(* The operations.                                                         *)
(***************************************************************************)
Register(st, p) ==
  Result(IF \E q \in st.reg : PkgKey[q] = PkgKey[p] THEN {"PackageAlreadyRegistered"} ELSE {},
         [st EXCEPT !.reg = @ \cup {p}])

Unregister(st, p) ==   \* p \in st.reg
  Result({}, [RemoveSet(st, {n \in Live(st) : st.nodes[n].pkg = p}) EXCEPT !.reg = @ \ {p}])

DefineType(st, name, t) ==
  LET errs == (IF t \in DefinedTypes(st) THEN {"TypeAlreadyDefined"} ELSE {})
              \cup (IF DefClass[t] = "resource" THEN {"CannotDefineResource"} ELSE {})
              \cup (IF name \in DOMAIN st.exports THEN {"ExportConflict"} ELSE {})
              \cup (IF name \notin ValidNames THEN {"InvalidExternName"} ELSE {})
      st2 == AddNode(st, NodeRec("def", NONE, TypeKind(t), NONE))
  IN Result(errs, [st2 EXCEPT !.exports = Extend(@, name, NewId(st))])

Import(st, name, kname) ==
  LET errs == (IF name \in ImportedNames(st) THEN {"ImportAlreadyExists"} ELSE {})
              \cup (IF name \notin ValidNames THEN {"InvalidImportName"} ELSE {})
  IN Result(errs, AddNode(st, NodeRec("imp", NONE, KindTab[kname], name)))

Instantiate(st, p) ==   \* p \in st.reg
  Result({}, AddNode(st, NodeRec("inst", p, InstKind(p), NONE)))

AliasExisting(st, n, e) == {a \in st.aliases : a.src = n /\ a.exp = e}

Alias(st, n, e) ==
  LET item == st.nodes[n].item
      errs == IF ~IsInstance(item) THEN {"NodeIsNotAnInstance"}
              ELSE IF e \notin DOMAIN item.ex THEN {"InstanceMissingExport"} ELSE {}
  IN IF errs = {} /\ AliasExisting(st, n, e) # {}
     THEN Result({}, st)       \* idempotent: the existing alias node is returned
     ELSE Result(errs,
            [AddNode(st, NodeRec("alias", st.nodes[n].pkg, item.ex[e], NONE))
               EXCEPT !.aliases = @ \cup {[src |-> n, exp |-> e, node |-> NewId(st)]}])
\* the node id an accepted Alias returns
AliasRet(st, n, e) ==
  IF AliasExisting(st, n, e) # {} THEN (CHOOSE a \in AliasExisting(st, n, e) : TRUE).node
  ELSE NewId(st)

ArgErrs(st, i, a) ==
  IF st.nodes[i].k # "inst" THEN {"NodeIsNotAnInstantiation"}
  ELSE IF a \notin SeqNames(PkgImports[st.nodes[i].pkg]) THEN {"InvalidArgumentName"}
  ELSE {}

SetArg(st, i, a, s) ==
  LET e0 == ArgErrs(st, i, a)
      passed == {x \in st.args : x.inst = i /\ x.arg = a}
      errs == IF e0 # {} THEN e0
              ELSE IF [inst |-> i, arg |-> a, src |-> s] \in st.args THEN {}
              ELSE (IF passed # {} THEN {"ArgumentAlreadyPassed"} ELSE {})
                   \cup (IF ~Sub(st.nodes[s].item, ImportFun(st.nodes[i].pkg)[a])
                         THEN {"ArgumentTypeMismatch"} ELSE {})
  IN Result(errs, [st EXCEPT !.args = @ \cup {[inst |-> i, arg |-> a, src |-> s]}])

UnsetArg(st, i, a, s) ==
  Result(ArgErrs(st, i, a), [st EXCEPT !.args = @ \ {[inst |-> i, arg |-> a, src |-> s]}])

Export(st, n, name) ==
  LET errs == (IF name \in DOMAIN st.exports THEN {"ExportAlreadyExists"} ELSE {})
              \cup (IF name \notin ValidNames THEN {"InvalidExportName"} ELSE {})
  IN Result(errs, [st EXCEPT !.exports = Extend(@, name, n)])

\* "Unmarks the given node from being exported": afterwards no export name maps to it.
Unexport(st, n) ==
  Result(IF st.nodes[n].k = "def" THEN {"MustExportDefinition"} ELSE {},
         [st EXCEPT !.exports = Restrict(@, {x \in DOMAIN @ : @[x] # n})])

SetName(st, n) == Result({}, [st EXCEPT !.nodes[n].named = TRUE])

Remove(st, n) == Result({}, RemoveSet(st, Closure(st, {n})))

Apply(st, o) ==
  CASE o.op = "register"    -> Register(st, o.s1)
    [] o.op = "unregister"  -> Unregister(st, o.s1)
    [] o.op = "define_type" -> DefineType(st, o.s1, o.s2)
    [] o.op = "import"      -> Import(st, o.s1, o.s2)
    [] o.op = "instantiate" -> Instantiate(st, o.s1)
    [] o.op = "alias"       -> Alias(st, o.n1, o.s1)
    [] o.op = "set_arg"     -> SetArg(st, o.n1, o.s1, o.n2)
    [] o.op = "unset_arg"   -> UnsetArg(st, o.n1, o.s1, o.n2)
    [] o.op = "export"      -> Export(st, o.n1, o.s1)
    [] o.op = "unexport"    -> Unexport(st, o.n1)
    [] o.op = "set_name"    -> SetName(st, o.n1)
    [] o.op = "remove"      -> Remove(st, o.n1)

\* does an accepted operation create a node (so it needs room in the id pool)?
Creates(st, o) ==
  \/ o.op \in {"define_type", "import", "instantiate"}
  \/ o.op = "alias" /\ AliasExisting(st, o.n1, o.s1) = {}

AllArgNames == UNION {SeqNames(PkgImports[p]) : p \in Pkgs} \cup {"bogus"}
AllExportNames == UNION {SeqNames(PkgExports[p]) : p \in Pkgs}
                  \cup UNION {UNION {DOMAIN PkgExports[p][i].k.ex :
                                       i \in {j \in DOMAIN PkgExports[p] : IsInstance(PkgExports[p][j].k)}}
                                : p \in Pkgs}
                  \cup UNION {DOMAIN KindTab[k].ex : k \in {x \in DOMAIN KindTab : IsInstance(KindTab[x])}}
                  \cup {"bogus"}

\* every operation a caller can issue with live identifiers
AllCandidates(st) ==
  {Op("register", 0, 0, p, NONE) : p \in Pkgs}
  \cup {Op("unregister", 0, 0, p, NONE) : p \in st.reg}
  \cup {Op("define_type", 0, 0, nm, t) : nm \in DefNames, t \in DefTypes}
  \cup {Op("import", 0, 0, nm, k) : nm \in ImportNames, k \in DOMAIN KindTab}
  \cup {Op("instantiate", 0, 0, p, NONE) : p \in st.reg}
  \cup {Op("alias", n, 0, e, NONE) : n \in Live(st), e \in AllExportNames}
  \cup {Op("set_arg", i, s, a, NONE) : i \in Live(st), s \in Live(st), a \in AllArgNames}
  \cup {Op("unset_arg", i, s, a, NONE) : i \in Live(st), s \in Live(st), a \in AllArgNames}
  \cup {Op("export", n, 0, nm, NONE) : n \in Live(st), nm \in ExportNames}
  \cup {Op("unexport", n, 0, NONE, NONE) : n \in Live(st)}
  \cup {Op("set_name", n, 0, NONE, NONE) : n \in Live(st)}
  \cup {Op("remove", n, 0, NONE, NONE) : n \in Live(st)}
Candidates(st) == {o \in AllCandidates(st) : o.op \in OpKinds}

(***************************************************************************)
(* Queries.                                                                *)
(***************************************************************************)
SatisfiedArgs(st, i) == {a.arg : a \in {b \in st.args : b.inst = i}}
UnsatisfiedArgs(st, i) == SeqNames(PkgImports[st.nodes[i].pkg]) \ SatisfiedArgs(st, i)
InstNodes(st) == {n \in Live(st) : st.nodes[n].k = "inst"}
\* CompositionGraph::imports(): implicit (unsatisfied argument) and explicit import names
GraphImportsImplicit(st) == UNION {UnsatisfiedArgs(st, i) : i \in InstNodes(st)}
GraphImportsExplicit(st) == ImportedNames(st)

(***************************************************************************)
(* Encoding: outcome classes.                                              *)
(***************************************************************************)
EdgeSucc(st, n) ==
  AliasSucc(st, n) \cup DepSucc(st, n) \cup {a.inst : a \in {b \in st.args : b.src = n}}

RECURSIVE ReachFrom(_, _)
ReachFrom(st, S) ==
  LET S2 == S \cup UNION {EdgeSucc(st, m) : m \in S}
  IN IF S2 = S THEN S ELSE ReachFrom(st, S2)
HasCycle(st) == \E n \in Live(st) : n \in ReachFrom(st, EdgeSucc(st, n))

ImplicitConflict(st) == GraphImportsImplicit(st) \cap ImportedNames(st) # {}

\* requirements for implicit imports: set of [name, kind]
Requirements(st) ==
  UNION {{[name |-> a, kind |-> ImportFun(st.nodes[i].pkg)[a]] : a \in UnsatisfiedArgs(st, i)}
           : i \in InstNodes(st)}
\* two names share one import iff identical or on the same semver track
SameGroup(a, b) == a = b \/ OnSameTrack(NameInfo[a], NameInfo[b])
MergeConflict(st) ==
  \E r1, r2 \in Requirements(st) : SameGroup(r1.name, r2.name) /\ ~Mergeable(r1.kind, r2.kind)

\* Unspecified by the documentation (DESIGN.md Appendix C): an *explicit* import whose name lies on
\* the semver track of an unsatisfied argument with a different name.  The text speaks of sharing
\* only for unsatisfied arguments; any of {conflict error, two separate imports, one shared import
\* named for the highest version} is consistent with it.
ExplicitOnTrack(st) ==
  \E x \in ImportedNames(st), a \in GraphImportsImplicit(st) :
     x # a /\ OnSameTrack(NameInfo[x], NameInfo[a])

EncodeOutcome(st) ==
  LET errs == (IF HasCycle(st) THEN {"GraphContainsCycle"} ELSE {})
              \cup (IF ImplicitConflict(st) THEN {"ImplicitImportConflict"} ELSE {})
              \cup (IF MergeConflict(st) THEN {"ImportTypeMergeConflict"} ELSE {})
  IN IF ExplicitOnTrack(st)
     THEN (IF errs = {} THEN {"ok"} ELSE errs) \cup {"ImplicitImportConflict", "ImportTypeMergeConflict"}
     ELSE IF errs = {} THEN {"ok"} ELSE errs

(***************************************************************************)
(* Encoding: the abstract component an encodable graph denotes (C02, C03). *)
(* Items are provenance terms, so the comparison with the decoded output   *)
(* is independent of index numbering and of emission order.                *)
(* `shared` selects the reading of the unspecified case above: FALSE keeps *)
(* explicit imports apart, TRUE lets them share the import of their track. *)
(***************************************************************************)
\* the names that take part in the sharing of a's import
Group(st, a, shared) ==
  {b \in GraphImportsImplicit(st) \cup (IF shared THEN ImportedNames(st) ELSE {}) : SameGroup(a, b)} \cup {a}
\* the import that realises name a: the highest version of its group (the name itself otherwise)
Canonical(st, a, shared) ==
  LET grp == Group(st, a, shared)
  IN CHOOSE b \in grp : \A c \in grp : c = b \/ VerLess(NameInfo[c].ver, NameInfo[b].ver)
                                        \/ NameInfo[c].ver = NameInfo[b].ver

RECURSIVE MergeAll(_, _)
MergeAll(k, S) == IF S = {} THEN k
                  ELSE LET x == CHOOSE y \in S : TRUE IN MergeAll(Merge(k, x), S \ {x})
\* the kinds required of the import named c (c canonical)
GroupKinds(st, c, shared) ==
  {r.kind : r \in {q \in Requirements(st) : SameGroup(q.name, c)}}
  \cup (IF shared THEN {st.nodes[ImportNodeOf(st, x)].item : x \in {y \in ImportedNames(st) : SameGroup(y, c)}}
        ELSE {})
GroupKind(st, c, shared) ==
  LET ks == GroupKinds(st, c, shared)
      k0 == CHOOSE k \in ks : TRUE
  IN MergeAll(k0, ks \ {k0})
\* the shared reading exists only if every group can be merged
SharedPossible(st) ==
  \A a \in GraphImportsImplicit(st) \cup ImportedNames(st) :
     \A k1, k2 \in GroupKinds(st, a, TRUE) : Mergeable(k1, k2)

RECURSIVE Term(_, _, _)
Term(st, n, shared) ==
  LET node == st.nodes[n] IN
  CASE node.k = "imp"   -> [t |-> "import", name |-> IF shared THEN Canonical(st, node.imp, TRUE) ELSE node.imp]
    [] node.k = "def"   -> [t |-> "def", id |-> node.item.id]
    [] node.k = "alias" -> LET a == CHOOSE x \in st.aliases : x.node = n
                           IN [t |-> "alias", of |-> Term(st, a.src, shared), exp |-> a.exp]
    [] node.k = "inst"  ->
         [t |-> "inst", pkg |-> node.pkg,
          args |-> {[a |-> x.arg, v |-> Term(st, x.src, shared)] : x \in {y \in st.args : y.inst = n}}
                   \cup {[a |-> u, v |-> [t |-> "import", name |-> Canonical(st, u, shared)]]
                           : u \in UnsatisfiedArgs(st, n)}]

\* defined only when "ok" \in EncodeOutcome(st)
EncodeOfM(st, shared) ==
  [imports |-> (IF shared THEN {}
                ELSE {[name |-> x, kind |-> st.nodes[ImportNodeOf(st, x)].item] : x \in ImportedNames(st)})
               \cup {[name |-> c, kind |-> GroupKind(st, c, shared)]
                       : c \in {Canonical(st, a, shared)
                                  : a \in GraphImportsImplicit(st) \cup (IF shared THEN ImportedNames(st) ELSE {})}},
   insts |-> {[id |-> n, term |-> Term(st, n, shared)] : n \in InstNodes(st)},
   pkgs |-> {st.nodes[n].pkg : n \in InstNodes(st)},
   exports |-> {[name |-> x, term |-> Term(st, st.exports[x], shared),
                 \* the kind of the designated item (an explicit import that shares the import of
                 \* its track has that import's merged kind)
                 kind |-> LET node == st.nodes[st.exports[x]]
                          IN IF shared /\ node.k = "imp" THEN GroupKind(st, Canonical(st, node.imp, TRUE), TRUE)
                             ELSE node.item]
                  : x \in DOMAIN st.exports},
   names |-> {[id |-> n, term |-> Term(st, n, shared), sort |-> st.nodes[n].item.c]
                : n \in {m \in Live(st) : st.nodes[m].named}}]

\* the abstract components the contract allows for an encodable state
EncodeOf(st) ==
  {EncodeOfM(st, FALSE)}
  \cup (IF ExplicitOnTrack(st) /\ SharedPossible(st) THEN {EncodeOfM(st, TRUE)} ELSE {})
====
