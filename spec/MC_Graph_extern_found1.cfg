\* the code as found: names compared exactly -- TLC refutes the refinement (import FOO next to foo)
CONSTANTS
  LibName = "extern"
  NodeIds = {1, 2, 3, 4}
  OpKinds = {"define_type", "import", "instantiate", "export", "unexport", "remove"}
  InitReg = {"pa"}
  DEV_StaleSat = FALSE
  DEV_StaleExports = FALSE
  DEV_DoubleRemove = FALSE
  DEV_UndefDep = TRUE
  DEV_DefRename = TRUE
  DEV_NameCase = TRUE
  DEV_DefLocator = FALSE
  DEV_KindBound = TRUE
  DEV_UnnamedDef = TRUE
  MaxDepth = 5
  FullEvery = 1
SPECIFICATION Spec
VIEW MCView
INVARIANTS NoPanic
CONSTRAINT DepthBound
PROPERTIES RefinesAbs
CHECK_DEADLOCK FALSE
