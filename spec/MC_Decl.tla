---- MODULE MC_Decl ----
(***************************************************************************)
(* Evaluates the elaborator on every package of the universe (constant     *)
(* level) and prints one DECL line per package for the harness.            *)
(***************************************************************************)
EXTENDS Decl, Json

\* Shape of known findings (C05 KF20, C08 KF21): a world that exports an interface together with an
\* interface that `use`s its types -- the user's types must be those of the exported instance
UsesOf(p, n) == {x.from : x \in {y \in Range(IfaceOf(p, n).items) : y.k = "use"}}
ExportUsesExport(p, w) ==
  LET RECURSIVE Its(_)
      Its(wd) == UNION {IF wd.items[i].k = "include" THEN Its(WorldOf(p, wd.items[i].world)) ELSE {wd.items[i]} : i \in DOMAIN wd.items}
      exs == {x.iface : x \in {y \in Its(w) : y.k = "export" /\ y.form = "iface"}}
  IN \E n \in exs : UsesOf(p, n) \cap exs # {}

PkgJson(p) ==
  [id |-> p.id,
   ifaces |-> [n \in {i.name : i \in Range(p.ifaces)} |-> [path |-> D_Path[<<p.id, n>>], kind |-> IfaceKind(p, n, Tag("ex", {}))]],
   worlds |-> [n \in {w.name : w \in Range(p.worlds)} |-> WorldKind(p, WorldOf(p, n))],
   \* resource identity is beyond conformance by names: the comparison with the reference validator's
   \* component subtyping is made for resource-free packages (as the property says)
   res |-> \E i \in Range(p.ifaces) : \E x \in Range(i.items) : x.k = "res",
   \* C11: the worlds of the package each world's component conforms to
   conf |-> [n \in {w.name : w \in Range(p.worlds)} |->
               {b.name : b \in {x \in Range(p.worlds) : ConformsTo(p, WorldOf(p, n), x)}}],
   kf |-> [n \in {w.name : w \in Range(p.worlds)} |->
             IF ExportUsesExport(p, WorldOf(p, n)) THEN "export-uses-export" ELSE ""]]

EmitDecls == \A i \in DOMAIN D_Packages : PrintT(<<"DECL", ToJson(PkgJson(D_Packages[i]))>>)

VARIABLE x
Init == x = 0
Next == UNCHANGED x
Spec == Init /\ [][Next]_x
Laws == DeclLaws /\ EmitDecls
====
