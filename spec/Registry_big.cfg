\* requests of five and six keys (more than any cap on concurrent downloads), all completion orders
CONSTANTS
  Names = {"a", "b", "c"}
  Published <- MCPublished
  Versions = {0, 1, 2, 3}
  MaxKeys = 6
  ByNameTable = FALSE
  Requests <- MCBigRequests
SPECIFICATION Spec
INVARIANTS ResultCorrect NoForeignContent EmitReplay
CHECK_DEADLOCK FALSE
