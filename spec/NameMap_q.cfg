\* quick: all insertion sequences (with and without shadowing) of at most 3 entries over the reduced universe
CONSTANTS
  Universe <- L_names_Small
  MaxLen = 3
SPECIFICATION Spec
VIEW MCView
INVARIANTS LookupCorrect NoForeignEntry AltConsistent RelationLaws KeysAgree EmitReplay
CHECK_DEADLOCK FALSE
