---- MODULE MC_Registry ----
EXTENDS Registry
\* package a has releases 1 and 2, b has release 1, c does not exist; 3 is a version nobody released
MCPublished == ("a" :> {1, 2} @@ "b" :> {1})

\* --- requests larger than any bound on concurrent downloads (Registry_big.cfg): every order of the five
\* keys that have a meaning, alone and followed by a key of the package that does not exist
S5 == {[n |-> "a", v |-> 0], [n |-> "a", v |-> 1], [n |-> "a", v |-> 2], [n |-> "b", v |-> 0], [n |-> "b", v |-> 1]}
Perms5 == {l \in [1..5 -> S5] : Distinct(l)}
MCBigRequests == Perms5 \cup {Append(p, [n |-> "c", v |-> 0]) : p \in Perms5}

\* --- pre-release versions (Registry_pre.cfg): 4 is 1.1.0-rc.1, a release of a that sorts between 1 (1.0.0)
\* and 2 (1.1.0); a key asking for it gets exactly it, an unversioned key still gets 2
MCPublishedPre == ("a" :> {1, 2, 4} @@ "b" :> {1})
MCLatestPre(n) == IF n = "a" THEN 2 ELSE 1
====
