---- MODULE MC_Registry ----
EXTENDS Registry
\* package a has releases 1 and 2, b has release 1, c does not exist; 3 is a version nobody released
MCPublished == ("a" :> {1, 2} @@ "b" :> {1})
====
