---- MODULE Targets ----
(***************************************************************************)
(* C11: conformance of a composition to a target world.                    *)
(*                                                                         *)
(* A world is [imports : name -> kind, exports : name -> kind] (generated  *)
(* from the same terms as its WIT text, lib/universe_wac.py).  The         *)
(* composition is a state of the WAC evaluator (Wac.tla).  Conformance is  *)
(* component subtyping between the composition and the world:              *)
(*   every import of the composition is answered by an import of the world *)
(*   whose type satisfies it; every export of the world is provided at a   *)
(*   conforming type.                                                      *)
(* Names are matched like everywhere else in the component tooling: the    *)
(* exact name, else a name on the same semver compatibility track (C15).   *)
(* `exact` = TRUE gives the reading without track matching; the two        *)
(* readings differ only for versioned names and the difference is reported *)
(* separately (kf flag).                                                   *)
(***************************************************************************)
EXTENDS Wac

ImpNodesT(w) == {n \in Live(w.g) : w.g.nodes[n].k = "imp"}
\* what resolution sees: explicit imports and every unsatisfied argument, one by one
CompRequirements(w) ==
  {[name |-> w.g.nodes[n].imp, kind |-> w.g.nodes[n].item] : n \in ImpNodesT(w)} \cup Requirements(w.g)
\* what the encoded output imports (defined when the composition encodes)
OutputImports(w) == EncodeOfM(w.g, FALSE).imports
CompExports(w) == [x \in DOMAIN w.g.exports |-> Kind(w, w.g.exports[x])]

MatchIn(names, n, exact) ==
  IF n \in names THEN n
  ELSE IF ~exact /\ \E m \in names : OnSameTrack(NameInfo[m], NameInfo[n])
       THEN CHOOSE m \in names : OnSameTrack(NameInfo[m], NameInfo[n])
       ELSE NONE

Verdict(reqs, exports, W, exact) ==
  [notInTarget |-> {r.name : r \in {x \in reqs : MatchIn(DOMAIN W.imports, x.name, exact) = NONE}},
   importMismatch |-> {r.name : r \in {x \in reqs : /\ MatchIn(DOMAIN W.imports, x.name, exact) # NONE
                                                     /\ ~Sub(W.imports[MatchIn(DOMAIN W.imports, x.name, exact)], x.kind)}},
   missing |-> {n \in DOMAIN W.exports : MatchIn(DOMAIN exports, n, exact) = NONE},
   exportMismatch |-> {n \in DOMAIN W.exports : /\ MatchIn(DOMAIN exports, n, exact) # NONE
                                                 /\ ~Sub(exports[MatchIn(DOMAIN exports, n, exact)], W.exports[n])}]

Conforms(v) == v.notInTarget = {} /\ v.importMismatch = {} /\ v.missing = {} /\ v.exportMismatch = {}
\* the diagnostics that correspond to the violations present
Diagnostics(v) ==
  (IF v.notInTarget # {} THEN {"ImportNotInTarget"} ELSE {})
  \cup (IF v.importMismatch # {} \/ v.exportMismatch # {} THEN {"TargetMismatch"} ELSE {})
  \cup (IF v.missing # {} THEN {"MissingTargetExport"} ELSE {})

\* conformance is component subtyping (Types.tla) between the composition and the world, when
\* names need no track matching
AsComp(reqs, exports) ==
  [c |-> "comp",
   im |-> [n \in {r.name : r \in reqs} |-> (CHOOSE r \in reqs : r.name = n).kind],
   ex |-> exports]
WorldComp(W) == [c |-> "comp", im |-> W.imports, ex |-> W.exports]
\* (unique kinds per name: the merged requirement is what counts; used for single-requirement names)
SubtypingAgrees(w, W) ==
  LET reqs == CompRequirements(w)
      single == \A r1, r2 \in reqs : r1.name = r2.name => r1 = r2
  IN single => (Conforms(Verdict(reqs, CompExports(w), W, TRUE)) <=> Sub(AsComp(reqs, CompExports(w)), WorldComp(W)))

TargetsLaws == faults = {} => \A wid \in DOMAIN W_Worlds : SubtypingAgrees(ws, W_Worlds[wid])
====
