\* the checker as it is: TLC refutes the checker's part of the clause (KF25)
SPECIFICATION Spec
CONSTANTS
  DEV_ResByName = TRUE
INVARIANTS ClauseArgsInv
CHECK_DEADLOCK FALSE
