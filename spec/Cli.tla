---- MODULE Cli ----
(***************************************************************************)
(* C19: the `wac` command line (README.md, `wac <cmd> --help`).  A         *)
(* decision table: for every subcommand, every combination of its          *)
(* documented flags and every pipeline scenario (the stage at which the    *)
(* library pipeline fails, or none) the table gives                        *)
(*   exit      "zero" | "nonzero"                                          *)
(*   stdout    "binary" | "text" | "json" | "empty"                        *)
(*   file      whether the -o file must exist afterwards                   *)
(*   define    the define_components option that must reach the encoder    *)
(*   validate  the validate option that must reach the encoder             *)
(* The content of what is written is decided by the library pipeline run   *)
(* on the same inputs (harness); the table decides where it goes.          *)
(***************************************************************************)
EXTENDS Naturals, Sequences, FiniteSets, TLC, Json

\* pipeline scenarios: where the library pipeline fails
ComposeScenarios == {"ok", "parse-error", "self-instantiation", "resolution-error", "encode-error", "missing-file"}
PlugScenarios == {"ok", "no-plug-happened", "socket-not-a-component", "missing-file"}
ParseScenarios == {"ok", "parse-error", "missing-file"}
\* (README.md documents `wac targets <component> --wit <wit>`; it used to show a positional WIT
\* path that the command rejects -- repaired in the README, see known_findings.json)
\* "unknown-world": --world names a world the WIT package does not contain (with or without other worlds)
TargetsScenarios == {"ok", "mismatch", "missing-file", "unknown-world"}

\* srcdir: the document is given with a directory component (sub/in.wac); relative dependency
\* locations (the default `deps`, --deps-dir, --dep paths) are relative to the working directory
ComposeRows ==
  [cmd : {"compose"}, scenario : ComposeScenarios, t : BOOLEAN, o : BOOLEAN, import_deps : BOOLEAN,
   no_validate : BOOLEAN, deps : {"default-dir", "deps-dir", "dep-override"}, srcdir : BOOLEAN]
PlugRows == [cmd : {"plug"}, scenario : PlugScenarios, t : BOOLEAN, o : BOOLEAN, plugs : {1, 2, 3}]
ParseRows == [cmd : {"parse"}, scenario : ParseScenarios]
TargetsRows == [cmd : {"targets"}, scenario : TargetsScenarios, world : BOOLEAN]

Succeeds(r) == r.scenario = "ok" \/ (r.cmd = "targets" /\ r.scenario = "positional-wit")

Expect(r) ==
  IF r.cmd \in {"compose", "plug"}
  THEN [exit |-> IF Succeeds(r) THEN "zero" ELSE "nonzero",
        \* -o writes exactly what would otherwise go to stdout; nothing is written on failure
        stdout |-> IF ~Succeeds(r) \/ r.o THEN "empty" ELSE IF r.t THEN "text" ELSE "binary",
        file |-> Succeeds(r) /\ r.o,
        stderr |-> ~Succeeds(r),
        \* dependencies are embedded unless --import-dependencies; validated unless --no-validate;
        \* `wac plug` has neither flag: embedded and validated
        define |-> IF r.cmd = "compose" THEN ~r.import_deps ELSE TRUE,
        validate |-> IF r.cmd = "compose" THEN ~r.no_validate ELSE TRUE,
        \* the encoder is reached iff every earlier stage succeeded
        encodes |-> r.scenario \in {"ok", "encode-error"}]
  ELSE IF r.cmd = "parse"
  THEN [exit |-> IF Succeeds(r) THEN "zero" ELSE "nonzero", stdout |-> IF Succeeds(r) THEN "json" ELSE "empty",
        file |-> FALSE, stderr |-> ~Succeeds(r), define |-> TRUE, validate |-> TRUE, encodes |-> FALSE]
  ELSE \* targets: README documents `wac targets <component> <wit>`; a conforming component exits 0
       [exit |-> IF Succeeds(r) THEN "zero" ELSE "nonzero", stdout |-> "empty", file |-> FALSE,
        stderr |-> ~Succeeds(r), define |-> TRUE, validate |-> TRUE, encodes |-> FALSE]

VARIABLE row
Rows == ComposeRows \cup PlugRows \cup ParseRows \cup TargetsRows
Init == row \in Rows
Next == UNCHANGED row
Spec == Init /\ [][Next]_row

TableLaws ==
  /\ Expect(row).file => Expect(row).exit = "zero"
  /\ Expect(row).exit = "nonzero" => Expect(row).stdout = "empty" /\ Expect(row).stderr
  /\ (row.cmd = "compose" /\ Expect(row).stdout = "empty" /\ Expect(row).exit = "zero") => row.o

RowJson(r) ==
  IF r.cmd = "compose" THEN [cmd |-> r.cmd, scenario |-> r.scenario, t |-> r.t, o |-> r.o, import_deps |-> r.import_deps,
                              no_validate |-> r.no_validate, deps |-> r.deps, plugs |-> 0, world |-> r.srcdir]
  ELSE IF r.cmd = "plug" THEN [cmd |-> r.cmd, scenario |-> r.scenario, t |-> r.t, o |-> r.o, import_deps |-> FALSE,
                                no_validate |-> FALSE, deps |-> "-", plugs |-> r.plugs, world |-> FALSE]
  ELSE IF r.cmd = "parse" THEN [cmd |-> r.cmd, scenario |-> r.scenario, t |-> FALSE, o |-> FALSE, import_deps |-> FALSE,
                                 no_validate |-> FALSE, deps |-> "-", plugs |-> 0, world |-> FALSE]
  ELSE [cmd |-> r.cmd, scenario |-> r.scenario, t |-> FALSE, o |-> FALSE, import_deps |-> FALSE,
        no_validate |-> FALSE, deps |-> "-", plugs |-> 0, world |-> r.world]

EmitReplay == PrintT(<<"REPLAY", ToJson([row |-> RowJson(row), expect |-> Expect(row)])>>)
====
