---- MODULE MC_ResSub ----
(***************************************************************************)
(* Model-checking harness for ResSub.tla: one state per (provider,         *)
(* consumer) pair; the clause as an invariant; replay emission.            *)
(***************************************************************************)
EXTENDS ResSub, Json

VARIABLES p, c
vars == <<p, c>>
Init == p \in DOMAIN RS_Sides /\ c \in DOMAIN RS_Sides
Next == UNCHANGED vars
Spec == Init /\ [][Next]_vars

P == RS_Sides[p]
C == RS_Sides[c]

\* the clause of C07 for this pair
ClauseInv == Clause(P, C)
\* the checker's part of it: every accepted argument is right
ClauseArgsInv == ClauseArgs(P, C)
\* sanity of the universe: a side supplied by itself is accepted and valid
SelfSupply == p = c => ImplAccepts(P, C) /\ RefValid(P, C)

EmitReplay ==
  PrintT(<<"REPLAY", ToJson([p |-> p, c |-> c, verdicts |-> ImplVerdicts(P, C), valid |-> RefValid(P, C),
                             kf |-> IF NameOnlyShape(P, C) THEN "resource-identity-by-name"
                                    ELSE IF LeftoverShape(P, C) THEN "leftover-import-uses-supplied-resource" ELSE ""])>>)
====
