\* the code as found before 921573d: the owner of a used resource is imported a second time under a
\* semver-compatible name -- TLC reports the violation of OneImportPerKey
SPECIFICATION Spec
CONSTANTS
  MaxContrib = 2
  Focus <- FocusShape
  DEV_NestedSupertype = FALSE
  DEV_OwnerImportTwice = TRUE
  DEV_OwnerNaming = TRUE
  DEV_WorldMerge = TRUE
  DEV_SharedRemap = TRUE
INVARIANTS OneImportPerKey
CHECK_DEADLOCK FALSE
