SPECIFICATION Spec
INVARIANT Laws
CHECK_DEADLOCK FALSE
