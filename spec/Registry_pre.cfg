\* a pre-release version in the registry; all requests of 1..2 distinct keys, all completion orders
CONSTANTS
  Names = {"a", "b", "c"}
  Published <- MCPublishedPre
  Latest <- MCLatestPre
  Versions = {0, 1, 2, 3, 4}
  MaxKeys = 2
  ByNameTable = FALSE
SPECIFICATION Spec
INVARIANTS ResultCorrect NoForeignContent EmitReplay
CHECK_DEADLOCK FALSE
