\* the pair relation over the full universe of the property; the PAIRS verdict vectors are printed
\* when TLC evaluates the constant-level definition EmitPairs at start-up
SPECIFICATION Spec
INVARIANTS RelationLaws KeysAgree
CHECK_DEADLOCK FALSE
