---- MODULE SubRel ----
(***************************************************************************)
(* C07: the subtype relation over the type universe of lib/universe_types, *)
(* and the memoising checker.                                              *)
(*                                                                         *)
(* Part 1 (constant level): SubK(i, j) for every ordered pair of kinds;    *)
(* laws (reflexive, transitive within a class, false across classes);      *)
(* EmitSubs prints one verdict vector per left operand for the harness,    *)
(* which asks wac's SubtypeChecker and wasmparser about the same types.    *)
(*                                                                         *)
(* Part 2 (state machine): a checker that records successful item-level    *)
(* checks in a memo exactly where checker.rs recurses through is_subtype   *)
(* (exports of instances, imports and exports of components).  For every   *)
(* order of up to MaxChecks checks sharing one memo, every verdict equals  *)
(* Sub and the memo only ever holds true pairs.  InsertBeforeCheck = TRUE  *)
(* models a checker that memoises before it has checked (a failed pair     *)
(* stays in the memo): TLC then finds a wrong later verdict.               *)
(***************************************************************************)
EXTENDS Types, Json, Lib_types

CONSTANTS MaxChecks, InsertBeforeCheck

K == T_Kinds
N == 1..Len(K)
SubK(i, j) == Sub(K[i], K[j])

SameClass(i, j) == T_Class[i] = T_Class[j]
Laws ==
  /\ \A i \in N : SubK(i, i)
  /\ \A i, j \in N : ~SameClass(i, j) /\ T_Class[i] \notin {"value", "fn"} /\ T_Class[j] \notin {"value", "fn"} => ~SubK(i, j)
  /\ \A i, j, k \in {x \in N : T_Class[x] \in {"inst", "comp", "mod"}} : SubK(i, j) /\ SubK(j, k) => SubK(i, k)
  \* functions and values: subtyping is structural equality, hence symmetric
  /\ \A i, j \in {x \in N : T_Class[x] \in {"value", "fn"}} : SubK(i, j) = SubK(j, i)

EmitSubs ==
  \A i \in N : PrintT(<<"SUBS", ToJson([a |-> i, sub |-> {j \in N : SubK(i, j)}])>>)

(***************************************************************************)
(* The memoising checker.                                                  *)
(***************************************************************************)
\* the kinds among which checks are drawn: instances and components (the ones with nested items)
M == {i \in N : T_Class[i] \in {"inst", "comp"}}

SeqOfSet(S) ==
  LET RECURSIVE F(_)
      F(T) == IF T = {} THEN <<>> ELSE LET x == CHOOSE y \in T : TRUE IN <<x>> \o F(T \ {x})
  IN F(S)

\* result: [ok |-> BOOLEAN, memo |-> set of <<a, b>>]
RECURSIVE MCheck(_, _, _)
RECURSIVE MAll(_, _, _)
\* all pairs of a sequence must check, threading the memo; stops at the first failure like `?`
MAll(memo, pairs, i) ==
  IF i > Len(pairs) THEN [ok |-> TRUE, memo |-> memo]
  ELSE LET r == MCheck(memo, pairs[i][1], pairs[i][2])
       IN IF r.ok THEN MAll(r.memo, pairs, i + 1) ELSE [ok |-> FALSE, memo |-> r.memo]

MCheck(memo, a, b) ==
  IF <<a, b>> \in memo THEN [ok |-> TRUE, memo |-> memo]
  ELSE
    LET m0 == IF InsertBeforeCheck THEN memo \cup {<<a, b>>} ELSE memo
        r == IF a.c # b.c THEN [ok |-> FALSE, memo |-> m0]
             ELSE CASE a.c = "inst" ->
                         IF ~(DOMAIN b.ex \subseteq DOMAIN a.ex) THEN [ok |-> FALSE, memo |-> m0]
                         ELSE MAll(m0, [i \in 1..Cardinality(DOMAIN b.ex) |->
                                          LET e == SeqOfSet(DOMAIN b.ex)[i] IN <<a.ex[e], b.ex[e]>>], 1)
                    [] a.c = "comp" ->
                         IF ~(DOMAIN a.im \subseteq DOMAIN b.im) \/ ~(DOMAIN b.ex \subseteq DOMAIN a.ex)
                         THEN [ok |-> FALSE, memo |-> m0]
                         ELSE MAll(m0,
                                   [i \in 1..Cardinality(DOMAIN a.im) |->
                                      LET k == SeqOfSet(DOMAIN a.im)[i] IN <<b.im[k], a.im[k]>>]
                                   \o [i \in 1..Cardinality(DOMAIN b.ex) |->
                                         LET k == SeqOfSet(DOMAIN b.ex)[i] IN <<a.ex[k], b.ex[k]>>], 1)
                    [] OTHER -> [ok |-> Sub(a, b), memo |-> m0]     \* functions: no nested item checks
    IN IF r.ok THEN [ok |-> TRUE, memo |-> r.memo \cup {<<a, b>>}] ELSE r

VARIABLES memo, n, lastOk, lastPair
mvars == <<memo, n, lastOk, lastPair>>
MInit == memo = {} /\ n = 0 /\ lastOk = TRUE /\ lastPair = <<1, 1>>
MNext ==
  /\ n < MaxChecks
  /\ \E i, j \in M :
       LET r == MCheck(memo, K[i], K[j])
       IN memo' = r.memo /\ lastOk' = r.ok /\ lastPair' = <<i, j>> /\ n' = n + 1
MSpec == MInit /\ [][MNext]_mvars

\* never changed by earlier checks that populated the memo
VerdictStable == n > 0 => lastOk = SubK(lastPair[1], lastPair[2])
MemoSound == \A p \in memo : Sub(p[1], p[2])
====
