\* trace validation against the contract GraphAbs, versioned library, up to 16 live nodes
CONSTANTS
  Pkgs <- L_ver_Pkgs
  PkgKey <- L_ver_PkgKey
  PkgImports <- L_ver_PkgImports
  PkgExports <- L_ver_PkgExports
  KindTab <- L_ver_Kinds
  ImportNames <- L_ver_ImportNames
  ExportNames <- L_ver_ExportNames
  DefNames <- L_ver_DefNames
  ValidNames <- L_ver_ValidNames
  DefClass <- L_ver_DefClass
  DefDeps <- L_ver_DefDeps
  NameInfo <- L_ver_NameInfo
  NodeIds = {1, 2, 3, 4, 5, 6, 7, 8, 9, 10, 11, 12, 13, 14, 15, 16}
  OpKinds = {"register", "unregister", "define_type", "import", "instantiate", "alias", "set_arg", "unset_arg", "export", "unexport", "set_name", "remove"}
SPECIFICATION TraceSpec
INVARIANT WellFormed
POSTCONDITION TraceAccepted
CHECK_DEADLOCK FALSE
