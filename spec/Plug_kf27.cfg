\* "a successful plug always encodes to a valid component" is refuted: a contributing plug's own import
\* can clash with an import that is left (KF27)
CONSTANTS
  MaxPlugs = 2
  DEV_FirstOnTrack = FALSE
SPECIFICATION Spec
INVARIANTS SuccessEncodes
CHECK_DEADLOCK FALSE
