\* recogniser: one initial state per document of $DOCS_FILE; ACCEPT lines name the documents in the language
SPECIFICATION RecSpec
INVARIANT EmitAccept
CHECK_DEADLOCK FALSE
