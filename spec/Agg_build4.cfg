\* replay generation + contract invariants on the repaired merge (FocusBuild, histories up to 4 contributors)
SPECIFICATION Spec
CONSTANTS
  MaxContrib = 4
  Focus <- FocusBuild
  DEV_NestedSupertype = FALSE
INVARIANTS FailsExactly MatchesContract UniqueNames Canonical Satisfies Idempotent EmitReplay
CHECK_DEADLOCK FALSE
