\* replay generation: one instance type definition under two plain names (FocusShared, histories up to 3), code as it is
SPECIFICATION Spec
CONSTANTS
  MaxContrib = 3
  Focus <- FocusShared
  DEV_NestedSupertype = FALSE
  DEV_OwnerImportTwice = FALSE
  DEV_OwnerNaming = TRUE
  DEV_WorldMerge = TRUE
  DEV_SharedRemap = TRUE
INVARIANTS FailsExactly MatchesContract MatchesByKey OneImportPerKey UniqueNames Canonical Satisfies Idempotent EmitReplay
CHECK_DEADLOCK FALSE
