---- MODULE MC_Targets ----
EXTENDS Targets, Json

WNodeIds == 1..48

VJson(v) == [notInTarget |-> v.notInTarget, importMismatch |-> v.importMismatch, missing |-> v.missing,
             exportMismatch |-> v.exportMismatch, conforms |-> Conforms(v), diagnostics |-> Diagnostics(v)]

ReplayLine ==
  LET enc == EncodeOutcome(ws.g)
      reqs == CompRequirements(ws)
      ex == CompExports(ws)
  IN [prog |-> prog, encode |-> enc,
      worlds |-> [wid \in DOMAIN W_Worlds |->
         [resolve |-> VJson(Verdict(reqs, ex, W_Worlds[wid], FALSE)),
          exact |-> VJson(Verdict(reqs, ex, W_Worlds[wid], TRUE)),
          output |-> IF "ok" \in enc THEN VJson(Verdict(OutputImports(ws), ex, W_Worlds[wid], FALSE))
                     ELSE VJson(Verdict({}, ex, W_Worlds[wid], FALSE)),
          outputExact |-> IF "ok" \in enc THEN VJson(Verdict(OutputImports(ws), ex, W_Worlds[wid], TRUE))
                          ELSE VJson(Verdict({}, ex, W_Worlds[wid], TRUE))]]]

EmitReplay == (prog # <<>> /\ faults = {}) => PrintT(<<"REPLAY", ToJson(ReplayLine)>>)
====
