\* the loop of plug.rs as found (one import tried per export): TLC refutes ImplConforms
CONSTANTS
  MaxPlugs = 2
  DEV_FirstOnTrack = TRUE
SPECIFICATION Spec
INVARIANTS ImplConforms
CHECK_DEADLOCK FALSE
