---- MODULE GrammarRec ----
\* Recogniser of spec/Grammar.tla (see there).
EXTENDS Grammar

(***************************************************************************)
(* Recogniser.                                                             *)
(***************************************************************************)
Docs == ndJsonDeserialize(IOEnv.DOCS_FILE)     \* sequence of [toks |-> <<kind, ...>>]

VARIABLES doc, rstack, pos
rvars == <<doc, rstack, pos>>

RecInit == doc \in 1..Len(Docs) /\ rstack = <<"document">> /\ pos = 1

Toks == Docs[doc].toks
RExpand ==
  /\ rstack # <<>> /\ IsNT(Head(rstack))
  /\ \E alt \in G_Prods[Head(rstack)] :
       LET st2 == alt \o Tail(rstack)
       IN /\ MinOf(st2) <= Len(Toks) - pos + 1       \* cannot need more tokens than are left
          \* one token of look-ahead: the alternative must be able to start with the next token
          /\ (alt # <<>> /\ ~IsNT(alt[1])) => (pos <= Len(Toks) /\ Toks[pos] = alt[1])
          /\ rstack' = st2
  /\ UNCHANGED <<doc, pos>>
RMatch ==
  /\ rstack # <<>> /\ ~IsNT(Head(rstack))
  /\ pos <= Len(Toks) /\ Toks[pos] = Head(rstack)
  /\ rstack' = Tail(rstack) /\ pos' = pos + 1
  /\ UNCHANGED doc
RecNext == RExpand \/ RMatch
RecSpec == RecInit /\ [][RecNext]_rvars

\* reaching the empty stack at the end of the input = the document is in the language
EmitAccept == (rstack = <<>> /\ pos = Len(Toks) + 1) => PrintT(<<"ACCEPT", doc>>)
====
