\* the merged component / module type as the greatest common subtype: every invariant holds, nothing excused
SPECIFICATION Spec
CONSTANTS
  MaxContrib = 3
  Focus <- FocusWorld
  DEV_NestedSupertype = FALSE
  DEV_OwnerImportTwice = FALSE
  DEV_OwnerNaming = FALSE
  DEV_WorldMerge = FALSE
  DEV_SharedRemap = FALSE
INVARIANTS FailsExactly MatchesContract MatchesByKey OneImportPerKey UniqueNames Canonical Satisfies SatisfiesAll Idempotent
CHECK_DEADLOCK FALSE
