\* the checker as it is (resources compared by name): replay generation
SPECIFICATION Spec
CONSTANTS
  DEV_ResByName = TRUE
INVARIANTS SelfSupply EmitReplay
CHECK_DEADLOCK FALSE
