\* the whole decision table (1536 rows)
SPECIFICATION Spec
INVARIANTS TableLaws EmitReplay
CHECK_DEADLOCK FALSE
