\* the whole decision table (3072 rows)
SPECIFICATION Spec
INVARIANTS TableLaws EmitReplay
CHECK_DEADLOCK FALSE
