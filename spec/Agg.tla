---- MODULE Agg ----
(***************************************************************************)
(* C09: aggregation of import requirements (wac-types TypeAggregator).     *)
(*                                                                         *)
(* Contract layer (declarative, a function of the multiset of              *)
(* requirements): which histories fail, which names are imported, the      *)
(* merged kind of every import, the canonical name of every requirement.   *)
(*                                                                         *)
(* Impl layer (code-shaped): one step per aggregate() call, following      *)
(* aggregator.rs -- exact-name lookup, then the first import on the same   *)
(* semver track, then a fresh remap; named interfaces are shared objects   *)
(* (the `interfaces` map), merged wherever they are met: as imports, as    *)
(* the source of used types.  Named deviation:                             *)
(*   DEV_NestedSupertype   merge_interface, for an export both sides have, *)
(*                         keeps whichever of the two kinds is the         *)
(*                         SUPERtype (and fails when they are unrelated)   *)
(*                         instead of merging them.                        *)
(*   DEV_OwnerImportTwice  remap_resource ensures that the interface owning*)
(*                         a used resource is imported by looking the      *)
(*                         interface's own id up in the import map; with   *)
(*                         the deviation an import of that interface under *)
(*                         a semver-compatible name is not seen and the    *)
(*                         interface is imported a second time.            *)
(*   DEV_OwnerNaming       (code as it is, KF24) that import is made       *)
(*                         outside the supersede logic of aggregate():     *)
(*                         it is named by the id the merged interface      *)
(*                         happens to carry and never renamed/redirected   *)
(*                         by a later owner of a higher version.  FALSE =  *)
(*                         the ideal: the owner is aggregated like any     *)
(*                         other requirement under the name it was used by.*)
(*   DEV_WorldMerge        (code as it is, KF28) merge_world and           *)
(*                         merge_module_type: union of the imports, the    *)
(*                         subtype of a common import and the supertype of *)
(*                         a common export are kept.  FALSE = the merged   *)
(*                         type is the greatest common subtype (CMerge).   *)
(*   DEV_SharedRemap       (code as it is, KF29) one instance type         *)
(*                         definition imported under several plain names   *)
(*                         is remapped once: a later merge into one of the *)
(*                         names changes the others.  FALSE = every import *)
(*                         has a definition of its own.                    *)
(*                                                                         *)
(* The state machine appends one contributor at a time; invariants tie     *)
(* the Impl state to the contract for every history (= every order).       *)
(***************************************************************************)
EXTENDS Integers, Sequences, FiniteSets, TLC, Types, Names, Lib_agg

CONSTANTS MaxContrib,           \* longest history
          Focus,                \* contributor ids histories are drawn from
          DEV_NestedSupertype,
          DEV_OwnerImportTwice,
          DEV_OwnerNaming,
          DEV_WorldMerge,
          DEV_SharedRemap

Contrib(id) == AG_Contribs[id]

(***************************************************************************)
(* Names.                                                                  *)
(***************************************************************************)
\* alternate_lookup_key: names on one compatibility track share a key; any other name is its own key
Key(n) == IF HasTrack(n)
          THEN IF n.ver[1] > 0 THEN <<n.base, n.ver[1], -1>> ELSE <<n.base, 0, n.ver[2]>>
          ELSE <<n.s, -2, -2>>
\* are_semver_compatible
SameIface(a, b) == Key(a) = Key(b)
IsIfaceName(n) == n.iface

(***************************************************************************)
(* Kinds: [c |-> "func", sig], [c |-> "rtype", desc],                      *)
(* [c |-> "inst", ex |-> name -> kind, us |-> local -> [iface, name, kind]]*)
(* Sub of Types.tla applies (it reads c, sig, desc, ex).                   *)
(***************************************************************************)
SeqOfSet(S) ==
  LET RECURSIVE F(_)
      F(T) == IF T = {} THEN <<>> ELSE LET x == CHOOSE y \in T : TRUE IN <<x>> \o F(T \ {x})
  IN F(S)

UsesOK(a, b) ==
  \A n \in DOMAIN a.us \cap DOMAIN b.us : SameIface(a.us[n].iface, b.us[n].iface) /\ a.us[n].name = b.us[n].name

Max2(x, y) == IF x >= y THEN x ELSE y
Min2(x, y) == IF x <= y THEN x ELSE y

(* Component- and module-kinded requirements ([c |-> "comp" | "mod", im, ex], Types.tla).  The merged     *)
(* type must be a subtype of every contributor's: it offers the union of the exports (merged, covariant)  *)
(* and may need at most what EVERY contributor provides -- the common imports, each under the least kind  *)
(* both required kinds are subtypes of (the join; an import without a join is not needed at all).         *)
RECURSIVE HasJoin(_, _), Join(_, _)
HasJoin(a, b) == a.c = b.c /\ (a.c = "inst" \/ a = b)
Join(a, b) ==
  IF a.c # "inst" THEN a
  ELSE [c |-> "inst",
        ex |-> [e \in {x \in DOMAIN a.ex \cap DOMAIN b.ex : HasJoin(a.ex[x], b.ex[x])} |-> Join(a.ex[e], b.ex[e])],
        us |-> <<>>]
\* core externs: the meet (offered by the merged module: within both limits) and the join (needed by it)
XHasMeet(a, b) ==
  /\ a.x = b.x
  /\ IF a.x = "mem"
     THEN /\ a.shared = b.shared /\ a.m64 = b.m64
          /\ LET m == IF a.max = -1 THEN b.max ELSE IF b.max = -1 THEN a.max ELSE Min2(a.max, b.max)
             IN m = -1 \/ Max2(a.init, b.init) <= m
     ELSE a = b
XMeet(a, b) ==
  IF a.x = "mem"
  THEN [a EXCEPT !.init = Max2(a.init, b.init),
                 !.max = IF a.max = -1 THEN b.max ELSE IF b.max = -1 THEN a.max ELSE Min2(a.max, b.max)]
  ELSE a
XHasJoin(a, b) == a.x = b.x /\ IF a.x = "mem" THEN a.shared = b.shared /\ a.m64 = b.m64 ELSE a = b
XJoin(a, b) ==
  IF a.x = "mem"
  THEN [a EXCEPT !.init = Min2(a.init, b.init), !.max = IF a.max = -1 \/ b.max = -1 THEN -1 ELSE Max2(a.max, b.max)]
  ELSE a

RECURSIVE CMergeable(_, _)
CMergeable(a, b) ==
  /\ a.c = b.c
  /\ CASE a.c = "func" -> a.sig = b.sig
       [] a.c = "rtype" -> a.desc = b.desc
       [] a.c = "inst" -> UsesOK(a, b) /\ \A e \in DOMAIN a.ex \cap DOMAIN b.ex : CMergeable(a.ex[e], b.ex[e])
       [] a.c = "comp" -> \A e \in DOMAIN a.ex \cap DOMAIN b.ex : CMergeable(a.ex[e], b.ex[e])
       [] a.c = "mod" -> \A e \in DOMAIN a.ex \cap DOMAIN b.ex : XHasMeet(a.ex[e], b.ex[e])
       [] OTHER -> FALSE

RECURSIVE CMerge(_, _)
CMerge(a, b) ==
  CASE a.c = "inst" ->
         [c |-> "inst",
          ex |-> [e \in DOMAIN a.ex \cup DOMAIN b.ex |->
                    IF e \in DOMAIN a.ex /\ e \in DOMAIN b.ex THEN CMerge(a.ex[e], b.ex[e])
                    ELSE IF e \in DOMAIN a.ex THEN a.ex[e] ELSE b.ex[e]],
          us |-> [n \in DOMAIN a.us \cup DOMAIN b.us |-> IF n \in DOMAIN a.us THEN a.us[n] ELSE b.us[n]]]
    [] a.c = "comp" ->
         [c |-> "comp",
          im |-> [n \in {x \in DOMAIN a.im \cap DOMAIN b.im : HasJoin(a.im[x], b.im[x])} |-> Join(a.im[n], b.im[n])],
          ex |-> [e \in DOMAIN a.ex \cup DOMAIN b.ex |->
                    IF e \in DOMAIN a.ex /\ e \in DOMAIN b.ex THEN CMerge(a.ex[e], b.ex[e])
                    ELSE IF e \in DOMAIN a.ex THEN a.ex[e] ELSE b.ex[e]]]
    [] a.c = "mod" ->
         [c |-> "mod",
          im |-> [n \in {x \in DOMAIN a.im \cap DOMAIN b.im : XHasJoin(a.im[x], b.im[x])} |-> XJoin(a.im[n], b.im[n])],
          ex |-> [e \in DOMAIN a.ex \cup DOMAIN b.ex |->
                    IF e \in DOMAIN a.ex /\ e \in DOMAIN b.ex THEN XMeet(a.ex[e], b.ex[e])
                    ELSE IF e \in DOMAIN a.ex THEN a.ex[e] ELSE b.ex[e]]]
    [] OTHER -> a

(***************************************************************************)
(* Contract.                                                               *)
(***************************************************************************)
RECURSIVE Flatten(_)
Flatten(h) == IF h = <<>> THEN <<>> ELSE Contrib(Head(h)).reqs \o Flatten(Tail(h))
Range(f) == {f[x] : x \in DOMAIN f}

Explicit(h) == Range(Flatten(h))
\* a requirement whose interface uses a type of another interface also requires that interface
Implicit(h) == UNION {IF r.kind.c = "inst" THEN {[name |-> u.iface, kind |-> u.kind] : u \in Range(r.kind.us)} ELSE {} : r \in Explicit(h)}
AllReqs(h) == Explicit(h) \cup Implicit(h)
\* handles name a used resource through the interface that owns it: that interface must be imported
IsRes(k) == k.c = "rtype" /\ k.desc = "resource"
OwnerLocals(k) == IF k.c = "inst"
                  THEN {n \in DOMAIN k.us : LET u == k.us[n] IN u.kind.c = "inst" /\ u.name \in DOMAIN u.kind.ex /\ IsRes(u.kind.ex[u.name])}
                  ELSE {}
OwnerUses(k) == {k.us[n] : n \in OwnerLocals(k)}
Owners(h) == UNION {{[name |-> u.iface, kind |-> u.kind] : u \in OwnerUses(r.kind)} : r \in Explicit(h)}
\* the requirements that name an import
Required(h) == Explicit(h) \cup Owners(h)

Fails(h) == \E r1, r2 \in AllReqs(h) : Key(r1.name) = Key(r2.name) /\ ~CMergeable(r1.kind, r2.kind)

MergeSet(S) ==
  LET s == SeqOfSet(S)
      RECURSIVE F(_, _)
      F(acc, i) == IF i > Len(s) THEN acc ELSE F(CMerge(acc, s[i]), i + 1)
  IN F(s[1], 2)

\* interfaces are shared: requirements met through `use` merge into the same definition
MergedKind(h, key) == MergeSet({r.kind : r \in {x \in AllReqs(h) : Key(x.name) = key}})
VerLeq(a, b) == a = b \/ VerLess(a, b)
\* versions are totally ordered (semver::Version's Ord): of two versions that differ in build
\* metadata only, the one with build metadata is the higher (the universe has one build string)
Higher(n, m) == VerLess(m.ver, n.ver) \/ (m.ver = n.ver /\ n.build /\ ~m.build)
CanonOfKey(h, key) ==
  LET ns == {r.name : r \in {x \in Required(h) : Key(x.name) = key}}
  IN CHOOSE n \in ns : \A m \in ns : m = n \/ m.ver = <<>> \/ Higher(n, m)
ContractImports(h) == {[name |-> CanonOfKey(h, k).s, kind |-> MergedKind(h, k)] : k \in {Key(r.name) : r \in Required(h)}}
ContractCanon(h) == [s \in {r.name.s : r \in Explicit(h)} |->
                       CanonOfKey(h, Key((CHOOSE r \in Explicit(h) : r.name.s = s).name)).s]

(***************************************************************************)
(* Impl: the aggregator.                                                   *)
(*   imports  sequence of [n |-> name, k |-> kind, named |-> BOOLEAN]      *)
(*            (named: an instance import whose interface has an id; its    *)
(*            definition lives in ifc)                                     *)
(*   ifc      Key -> kind: the one definition of every named interface     *)
(*   redir    name string -> name string                                   *)
(***************************************************************************)
Fail(ifc) == [ok |-> FALSE, ifc |-> ifc, k |-> [c |-> "none"]]
Done(ifc, k) == [ok |-> TRUE, ifc |-> ifc, k |-> k]

RECURSIVE RemapKind(_, _), RemapIface(_, _, _), MergeInto(_, _, _), MergeExport(_, _, _)

\* remap_interface for a named interface: merge into the known definition or create it
RemapIface(ifc, name, k) ==
  IF Key(name) \in DOMAIN ifc
  THEN LET r == MergeInto(ifc, ifc[Key(name)], k)
       IN IF r.ok THEN Done([r.ifc EXCEPT ![Key(name)] = r.k], r.k) ELSE r
  ELSE LET r == RemapKind(ifc, k)
       IN IF r.ok THEN Done((Key(name) :> r.k) @@ r.ifc, r.k) ELSE r

\* remap_item_kind for an unnamed kind: used interfaces and nested instances are remapped in turn
RemapKind(ifc, k) ==
  IF k.c # "inst" THEN Done(ifc, k)
  ELSE
    LET us == SeqOfSet(DOMAIN k.us)
        RECURSIVE U(_, _)
        U(f, i) == IF i > Len(us) THEN Done(f, k)
                   ELSE LET r == RemapIface(f, k.us[us[i]].iface, k.us[us[i]].kind)
                        IN IF r.ok THEN U(r.ifc, i + 1) ELSE r
        r1 == U(ifc, 1)
        es == SeqOfSet(DOMAIN k.ex)
        RECURSIVE E(_, _, _)
        E(f, acc, i) == IF i > Len(es) THEN Done(f, [k EXCEPT !.ex = acc])
                        ELSE LET r == RemapKind(f, k.ex[es[i]])
                             IN IF r.ok THEN E(r.ifc, [acc EXCEPT ![es[i]] = r.k], i + 1) ELSE r
    IN IF r1.ok THEN E(r1.ifc, k.ex, 1) ELSE r1

\* an export both sides have
MergeExport(ifc, t, s) ==
  IF DEV_NestedSupertype
  THEN \* checker.is_subtype(source, target) ? keep target : require target <: source and replace
       IF Sub(s, t) THEN Done(ifc, t)
       ELSE IF Sub(t, s) THEN RemapKind(ifc, s)
       ELSE Fail(ifc)
  ELSE IF t.c = "inst" /\ s.c = "inst" THEN MergeInto(ifc, t, s)
       ELSE IF Sub(s, t) /\ Sub(t, s) THEN Done(ifc, t)
       ELSE Fail(ifc)

\* merge_interface(existing = t, source = s)
MergeInto(ifc, t, s) ==
  IF t.c # s.c THEN Fail(ifc)
  ELSE IF t.c \in {"comp", "mod"} THEN
    IF ~DEV_WorldMerge
    THEN (IF CMergeable(t, s) THEN Done(ifc, CMerge(t, s)) ELSE Fail(ifc))
    ELSE \* merge_world / merge_module_type as they are (KF28): the UNION of the imports; of an import both
         \* have the SUBtype is kept, of an export both have the SUPERtype; unrelated kinds fail
         LET S(a, b) == IF t.c = "comp" THEN Sub(a, b) ELSE ExternSub(a, b)
             bothIm == DOMAIN t.im \cap DOMAIN s.im
             bothEx == DOMAIN t.ex \cap DOMAIN s.ex
         IN IF \/ \E n \in bothIm : ~S(t.im[n], s.im[n]) /\ ~S(s.im[n], t.im[n])
               \/ \E n \in bothEx : ~S(s.ex[n], t.ex[n]) /\ ~S(t.ex[n], s.ex[n])
            THEN Fail(ifc)
            ELSE Done(ifc, [c |-> t.c,
                            im |-> [n \in DOMAIN t.im \cup DOMAIN s.im |->
                                      IF n \notin DOMAIN s.im THEN t.im[n]
                                      ELSE IF n \notin DOMAIN t.im THEN s.im[n]
                                      ELSE IF S(t.im[n], s.im[n]) THEN t.im[n] ELSE s.im[n]],
                            ex |-> [n \in DOMAIN t.ex \cup DOMAIN s.ex |->
                                      IF n \notin DOMAIN s.ex THEN t.ex[n]
                                      ELSE IF n \notin DOMAIN t.ex THEN s.ex[n]
                                      ELSE IF S(s.ex[n], t.ex[n]) THEN t.ex[n] ELSE s.ex[n]]])
  ELSE IF t.c # "inst" THEN (IF Sub(s, t) /\ Sub(t, s) THEN Done(ifc, t) ELSE Fail(ifc))
  ELSE
    LET us == SeqOfSet(DOMAIN s.us)
        \* merge_interface_used_types
        RECURSIVE U(_, _, _)
        U(f, acc, i) ==
          IF i > Len(us) THEN Done(f, [t EXCEPT !.us = acc])
          ELSE LET n == us[i]
                   clash == n \in DOMAIN acc /\ ~(SameIface(acc[n].iface, s.us[n].iface) /\ acc[n].name = s.us[n].name)
               IN IF clash THEN Fail(f)
                  ELSE LET r == RemapIface(f, s.us[n].iface, s.us[n].kind)
                       IN IF ~r.ok THEN r
                          ELSE U(r.ifc, IF n \in DOMAIN acc THEN acc ELSE (n :> s.us[n]) @@ acc, i + 1)
        r1 == U(ifc, t.us, 1)
        es == SeqOfSet(DOMAIN s.ex)
        RECURSIVE E(_, _, _)
        E(f, acc, i) ==
          IF i > Len(es) THEN Done(f, acc)
          ELSE LET e == es[i]
                   r == IF e \in DOMAIN acc.ex THEN MergeExport(f, acc.ex[e], s.ex[e]) ELSE RemapKind(f, s.ex[e])
               IN IF ~r.ok THEN r
                  ELSE E(r.ifc, [acc EXCEPT !.ex = (e :> r.k) @@ acc.ex], i + 1)
    IN IF r1.ok THEN E(r1.ifc, r1.k, 1) ELSE r1

ImportKind(st, e) == IF e.named THEN st.ifc[Key(e.n)] ELSE e.k
First(S) == CHOOSE i \in S : \A j \in S : i <= j
RemoveAt(s, i) == [j \in 1..(Len(s) - 1) |-> IF j < i THEN s[j] ELSE s[j + 1]]

\* ids: Key -> the id the one definition of a named interface carries (the name it was first met by)
\* shared: <<position, definition>> -> the import names that were remapped from that one instance type definition
InitSt == [imports |-> <<>>, ifc |-> <<>>, redir |-> <<>>, failed |-> FALSE, ids |-> <<>>, shared |-> <<>>]

\* the body of TypeAggregator::aggregate(name, kind): exact name, track, fresh remap
AggregateMain(st, req) ==
  LET name == req.name
      k == req.kind
      named == IsIfaceName(name) /\ k.c = "inst"
      exact == {i \in DOMAIN st.imports : st.imports[i].n.s = name.s}
      track == {i \in DOMAIN st.imports : HasTrack(name) /\ HasTrack(st.imports[i].n) /\ Key(st.imports[i].n) = Key(name)}
      failed == [st EXCEPT !.failed = TRUE]
      \* merge_item_kind(existing import i, kind)
      MergeWith(i) ==
        LET e == st.imports[i]
        IN IF e.named
           THEN IF k.c # "inst" THEN Fail(st.ifc)
                ELSE LET r == MergeInto(st.ifc, st.ifc[Key(e.n)], k)
                     IN IF r.ok THEN Done([r.ifc EXCEPT ![Key(e.n)] = r.k], r.k) ELSE r
           ELSE MergeInto(st.ifc, e.k, k)
  IN IF st.failed THEN st
     ELSE IF exact # {} THEN
       LET i == First(exact)
           r == MergeWith(i)
       IN IF ~r.ok THEN failed
          ELSE [st EXCEPT !.ifc = r.ifc, !.imports[i].k = r.k]
     ELSE IF track # {} THEN
       LET i == First(track)
           old == st.imports[i]
           r == MergeWith(i)
       IN IF ~r.ok THEN failed
          ELSE IF Higher(name, old.n)
               THEN [st EXCEPT !.ifc = r.ifc,
                               \* the merged interface is known by the higher version from now on
                               !.ids = IF old.named /\ Key(old.n) \in DOMAIN st.ids /\ st.ids[Key(old.n)].s = old.n.s
                                       THEN [st.ids EXCEPT ![Key(old.n)] = name] ELSE st.ids,
                               !.imports = Append(RemoveAt(st.imports, i), [n |-> name, k |-> r.k, named |-> old.named]),
                               !.redir = (old.n.s :> name.s) @@ [x \in DOMAIN st.redir |-> IF st.redir[x] = old.n.s THEN name.s ELSE st.redir[x]]]
               ELSE [st EXCEPT !.ifc = r.ifc, !.imports[i].k = r.k, !.redir = (name.s :> old.n.s) @@ st.redir]
     ELSE
       LET r == IF named THEN RemapIface(st.ifc, name, k) ELSE RemapKind(st.ifc, k)
       IN IF ~r.ok THEN failed
          ELSE [st EXCEPT !.ifc = r.ifc, !.imports = Append(st.imports, [n |-> name, k |-> r.k, named |-> named])]

\* the interface names a requirement spells
ReqNames(req) == {req.name} \cup (IF req.kind.c = "inst" THEN {u.iface : u \in Range(req.kind.us)} ELSE {})

\* remap_resource: "if there is an owning interface, ensure it is imported" (o: the name the owner was used by)
EnsureOwner(s, o) ==
  LET id == s.ids[Key(o)]
      OnTrack(n) == {i \in DOMAIN s.imports :
                       \/ s.imports[i].n.s = n.s
                       \/ HasTrack(n) /\ HasTrack(s.imports[i].n) /\ Key(s.imports[i].n) = Key(n)}
      exact == \E i \in DOMAIN s.imports : s.imports[i].n.s = id.s
  IN IF DEV_OwnerNaming
     THEN \* named by the id the merged definition carries; no rename, no redirect
          IF exact \/ (~DEV_OwnerImportTwice /\ OnTrack(id) # {}) THEN s
          ELSE [s EXCEPT !.imports = Append(@, [n |-> id, k |-> s.ifc[Key(o)], named |-> TRUE])]
     ELSE \* ideal: the owner is a requirement like any other
          IF OnTrack(o) = {} THEN [s EXCEPT !.imports = Append(@, [n |-> o, k |-> s.ifc[Key(o)], named |-> TRUE])]
          ELSE LET i == First(OnTrack(o))
                   old == s.imports[i]
               IN IF old.n.s # o.s /\ Higher(o, old.n)
                  THEN [s EXCEPT !.imports = Append(RemoveAt(s.imports, i), [old EXCEPT !.n = o]),
                                 !.redir = (old.n.s :> o.s) @@ [x \in DOMAIN s.redir |-> IF s.redir[x] = old.n.s THEN o.s ELSE s.redir[x]]]
                  ELSE s

\* TypeAggregator::aggregate(name, kind)
AggregateOne(st, req, pos) ==
  LET s1 == AggregateMain(st, req)
      k == req.kind
      named == IsIfaceName(req.name) /\ k.c = "inst"
      newKeys == DOMAIN s1.ifc \ DOMAIN st.ifc
      s2 == [s1 EXCEPT !.ids = [x \in DOMAIN s1.ids \cup newKeys |->
                                  IF x \in DOMAIN s1.ids THEN s1.ids[x] ELSE CHOOSE n \in ReqNames(req) : Key(n) = x]]
      \* a used resource that is new to the user's definition is remapped (not merged): its owner is ensured
      \* (the ideal aggregates the owner of every used resource)
      isNew(n) == ~DEV_OwnerNaming \/ ~(named /\ Key(req.name) \in DOMAIN st.ifc /\ n \in DOMAIN st.ifc[Key(req.name)].ex)
      owners == SeqOfSet({k.us[n].iface : n \in {m \in OwnerLocals(k) : isNew(m)}})
      RECURSIVE F(_, _)
      F(s, i) == IF i > Len(owners) THEN s ELSE F(EnsureOwner(s, owners[i]), i + 1)
      s3 == F(s2, 1)
      \* --- the remap table (DEV_SharedRemap, KF29): a contributor may import ONE instance type definition under
      \* several plain names (req.grp # 0 names the definition).  The first of them that is remapped afresh
      \* creates the aggregated definition, every later one that is remapped afresh gets THE SAME definition from
      \* the table -- so a later merge into any of them changes all of them.  (A member that was merged into an
      \* existing import instead of being remapped does not enter the table.)
      fresh == Len(s1.imports) = Len(st.imports) + 1 /\ s1.imports[Len(s1.imports)].n.s = req.name.s /\ ~named
      gid == <<pos, req.grp>>
      s4 == IF req.grp = 0 \/ ~fresh THEN s3
            ELSE LET members == IF gid \in DOMAIN s3.shared THEN s3.shared[gid] ELSE {}
                     \* the kind of the definition as it is now (an earlier member may have been merged into since)
                     first == IF members = {} THEN req.name.s ELSE CHOOSE m \in members : TRUE
                     cur == CHOOSE i \in DOMAIN s3.imports : s3.imports[i].n.s = first
                     fi == CHOOSE i \in DOMAIN s3.imports : s3.imports[i].n.s = req.name.s
                 IN [s3 EXCEPT !.shared = (gid :> (members \cup {req.name.s})) @@ s3.shared,
                               !.imports[fi].k = IF DEV_SharedRemap THEN s3.imports[cur].k ELSE @]
      \* a merge into an import that shares its definition reaches the other names of the definition
      touched == IF req.name.s \in DOMAIN s4.redir THEN s4.redir[req.name.s] ELSE req.name.s
      tix == {i \in DOMAIN s4.imports : s4.imports[i].n.s = touched}
      s5 == IF ~DEV_SharedRemap \/ fresh \/ tix = {} THEN s4
            ELSE LET ti == CHOOSE i \in tix : TRUE
                     mates == UNION {G \in {s4.shared[g] : g \in DOMAIN s4.shared} : touched \in G}
                 IN [s4 EXCEPT !.imports = [i \in DOMAIN s4.imports |->
                                              IF s4.imports[i].n.s \in mates THEN [s4.imports[i] EXCEPT !.k = s4.imports[ti].k]
                                              ELSE s4.imports[i]]]
  IN IF st.failed \/ s1.failed THEN s1 ELSE s5

\* pos: the position of the contributor in the history (every contributor has its own type collection)
RECURSIVE AggregateAll(_, _, _)
AggregateAll(st, reqs, pos) ==
  IF reqs = <<>> THEN st ELSE AggregateAll(AggregateOne(st, Head(reqs), pos), Tail(reqs), pos)

\* a used interface is identified up to compatibility (which contributor's spelling is kept is unspecified)
RECURSIVE NormKind(_)
NormKind(k) ==
  IF k.c # "inst" THEN k
  ELSE [c |-> "inst", ex |-> [e \in DOMAIN k.ex |-> NormKind(k.ex[e])],
        us |-> [n \in DOMAIN k.us |-> [key |-> Key(k.us[n].iface), name |-> k.us[n].name]]]
ImplImports(st) == {[name |-> st.imports[i].n.s, kind |-> NormKind(ImportKind(st, st.imports[i]))] : i \in DOMAIN st.imports}
ImplCanon(st, s) == IF s \in DOMAIN st.redir THEN st.redir[s] ELSE s

(***************************************************************************)
(* State machine: histories of contributors.                               *)
(***************************************************************************)
VARIABLES hist, st
vars == <<hist, st>>

Init == hist = <<>> /\ st = InitSt
Next ==
  /\ Len(hist) < MaxContrib
  /\ ~st.failed
  /\ \E c \in Focus :
       /\ hist' = Append(hist, c)
       /\ st' = AggregateAll(st, Contrib(c).reqs, Len(hist) + 1)
Spec == Init /\ [][Next]_vars

(***************************************************************************)
(* Properties of the Impl state, for every history.                        *)
(***************************************************************************)
\* KF28 (DEV_WorldMerge): two different component- or module-kinded requirements for one name are merged by
\* merge_world / merge_module_type, which do not compute a common subtype; such histories are excused from
\* the invariants about outcome and merged kind (names, uniqueness and idempotence are still checked)
WorldShape(h) ==
  \E r1, r2 \in Explicit(h) : /\ Key(r1.name) = Key(r2.name) /\ r1.kind.c \in {"comp", "mod"}
                              /\ r1.kind.c = r2.kind.c /\ r1.kind # r2.kind
WorldExcused(h) == DEV_WorldMerge /\ WorldShape(h)
\* KF29 (DEV_SharedRemap): a contributor imports one instance type definition under two plain names and some
\* requirement for one of the names differs from it: the merge reaches the other name too
SharedShape(h) ==
  \E i \in DOMAIN h : \E r1, r2 \in Range(Contrib(h[i]).reqs) :
    /\ r1.grp # 0 /\ r1.grp = r2.grp /\ r1.name # r2.name
    /\ \E r3 \in Explicit(h) : Key(r3.name) = Key(r1.name) /\ r3.kind # r1.kind
SharedExcused(h) == DEV_SharedRemap /\ SharedShape(h)
\* fails exactly when two contributors are incompatible
FailsExactly == ~WorldExcused(hist) /\ ~SharedExcused(hist) => st.failed = Fails(hist)
\* one import per key, under the highest version; merged kinds are the unions; names are unique
\* KF24 (DEV_OwnerNaming): the import of a resource's owner is named outside the supersede logic.  Its name
\* agrees with the contract in every order only when the highest name spelled on that track is an explicit
\* requirement (which then supersedes whatever the owner import was called); the other histories are excused
OwnerNameShape(h) ==
  \E o \in Owners(h) :
    LET ns == {r.name : r \in {x \in AllReqs(h) : Key(x.name) = Key(o.name)}}
        top == CHOOSE n \in ns : \A m \in ns : m = n \/ m.ver = <<>> \/ Higher(n, m)
    IN ~\E r \in Explicit(h) : r.name = top
Excused(h) == (DEV_OwnerNaming /\ OwnerNameShape(h)) \/ WorldExcused(h) \/ SharedExcused(h)
MatchesContract == ~st.failed /\ ~Fails(hist) /\ ~Excused(hist) => ImplImports(st) = {[name |-> i.name, kind |-> NormKind(i.kind)] : i \in ContractImports(hist)}
UniqueNames == \A i, j \in DOMAIN st.imports : st.imports[i].n.s = st.imports[j].n.s => i = j
\* whatever an import is called (also in the excused histories): one import per compatibility key, of the merged kind
OneImportPerKey == ~st.failed => \A i, j \in DOMAIN st.imports : Key(st.imports[i].n) = Key(st.imports[j].n) => i = j
MatchesByKey ==
  ~st.failed /\ ~Fails(hist) /\ ~WorldExcused(hist) /\ ~SharedExcused(hist) =>
    {[key |-> Key(st.imports[i].n), kind |-> NormKind(ImportKind(st, st.imports[i]))] : i \in DOMAIN st.imports}
      = {[key |-> k, kind |-> NormKind(MergedKind(hist, k))] : k \in {Key(r.name) : r \in Required(hist)}}
\* every lower name is redirected to the canonical name, which is imported (chains have length one)
Canonical ==
  ~st.failed /\ ~Fails(hist) /\ ~Excused(hist) =>
    \A s \in DOMAIN ContractCanon(hist) :
      /\ ImplCanon(st, s) = ContractCanon(hist)[s]
      /\ \E i \in DOMAIN st.imports : st.imports[i].n.s = ImplCanon(st, s)
\* the merged type satisfies every contributor
Satisfies ==
  ~st.failed /\ ~WorldExcused(hist) =>
    \A r \in Explicit(hist) :
      \E i \in DOMAIN st.imports :
        /\ st.imports[i].n.s = ImplCanon(st, r.name.s)
        /\ Sub(ImportKind(st, st.imports[i]), r.kind)
\* (nothing excused: refuted for the code as it is, Agg_found4.cfg)
MatchesByKeyAll ==
  ~st.failed /\ ~Fails(hist) =>
    {[key |-> Key(st.imports[i].n), kind |-> NormKind(ImportKind(st, st.imports[i]))] : i \in DOMAIN st.imports}
      = {[key |-> k, kind |-> NormKind(MergedKind(hist, k))] : k \in {Key(r.name) : r \in Required(hist)}}
\* (the same with nothing excused: refuted for the code as it is, Agg_found3.cfg)
SatisfiesAll ==
  ~st.failed =>
    \A r \in Explicit(hist) :
      \E i \in DOMAIN st.imports :
        /\ st.imports[i].n.s = ImplCanon(st, r.name.s)
        /\ Sub(ImportKind(st, st.imports[i]), r.kind)
\* the contract is a function of the multiset: nothing above mentions the order of hist.  Idempotence:
Idempotent ==
  ~st.failed => \A c \in {hist[i] : i \in DOMAIN hist} :
                  LET again == AggregateAll(st, Contrib(c).reqs, Len(hist) + 1)
                  IN ~again.failed /\ ImplImports(again) = ImplImports(st)
====
