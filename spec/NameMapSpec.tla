---- MODULE NameMapSpec ----
(***************************************************************************)
(* C15: semver-compatible name matching.                                   *)
(*                                                                         *)
(* Contract layer: Compatible(a, b) (the semver track relation of          *)
(* Names.tla) and DeclGet(S, q), the declarative meaning of a lookup in a  *)
(* semver-aware name map holding the set S of entries: the exact entry if  *)
(* there is one, otherwise the entries with the highest version on the     *)
(* track of q (a version with build metadata being higher than the same     *)
(* version without), never an entry of another name or track.              *)
(*                                                                         *)
(* Code-shaped layer (crates/wac-types/src/names.rs): `defs` (exact map,   *)
(* name -> value) and `alt` (track -> the name registered for it) with the *)
(* keep-highest-on-insert rule and shadowing.  TLC checks, for all         *)
(* insertion sequences within the bound and all query names, that the      *)
(* code-shaped lookup returns a value the contract allows.                 *)
(***************************************************************************)
EXTENDS Names, FiniteSets, TLC, Json, Lib_names

CONSTANTS Universe,   \* sequence of name records [id, base, ver, pre, build]
          MaxLen      \* bound on the number of inserts

N == 1..Len(Universe)
Nm(i) == Universe[i]

\* two names are compatible iff identical or on the same compatibility track
Compatible(i, j) == i = j \/ OnSameTrack(Nm(i), Nm(j))

\* the order that decides "highest": semver precedence, and of two versions that differ in build
\* metadata only the one without build metadata is the lower (semver::Version's total order; the
\* universe has one build string per version, two different build strings would still tie).
\* Compatibility ignores build metadata; which entry a track lookup returns must not depend on the
\* order of insertion, so ties are broken by the order, not by arrival.
Lower(i, j) == \/ VerLess(Nm(i).ver, Nm(j).ver)
               \/ Nm(i).ver = Nm(j).ver /\ ~Nm(i).build /\ Nm(j).build

DeclGet(S, q) ==
  IF q \in S THEN {q}
  ELSE {e \in S : OnSameTrack(Nm(e), Nm(q)) /\ \A f \in S : OnSameTrack(Nm(f), Nm(q)) => ~Lower(e, f)}

VARIABLES defs,   \* function: inserted name index -> value (the insert counter at that time)
          alt,    \* function: track -> name index
          count,  \* number of accepted inserts so far
          hist    \* history (hidden from the VIEW): <<name, shadow flag, result>>
vars == <<defs, alt, count, hist>>

Init == defs = <<>> /\ alt = <<>> /\ count = 0 /\ hist = <<>>

Ext(f, k, v) == [x \in DOMAIN f \cup {k} |-> IF x = k THEN v ELSE f[x]]

\* NameMap::insert(name, allow_shadowing, value)
Insert(i, shadow) ==
  /\ Len(hist) < MaxLen
  /\ IF i \in DOMAIN defs /\ ~shadow
     THEN /\ UNCHANGED <<defs, alt, count>>                      \* "defined twice": nothing changes
          /\ hist' = Append(hist, <<i, shadow, "err">>)
     ELSE /\ defs' = Ext(defs, i, count + 1)
          /\ count' = count + 1
          /\ alt' = IF HasTrack(Nm(i))
                    THEN LET t == TrackOf(Nm(i))
                         IN IF t \in DOMAIN alt /\ Lower(i, alt[t]) THEN alt    \* keep the higher one
                            ELSE Ext(alt, t, i)
                    ELSE alt
          /\ hist' = Append(hist, <<i, shadow, "ok">>)

Next == \E i \in N, shadow \in BOOLEAN : Insert(i, shadow)
Spec == Init /\ [][Next]_vars

\* NameMap::get(name): exact first, else the registered name of the track
ImplGet(q) ==
  IF q \in DOMAIN defs THEN defs[q]
  ELSE IF HasTrack(Nm(q)) /\ TrackOf(Nm(q)) \in DOMAIN alt THEN defs[alt[TrackOf(Nm(q))]]
  ELSE 0

Allowed(q) == {defs[e] : e \in DeclGet(DOMAIN defs, q)}

\* the code-shaped lookup agrees with the declarative one, in every reachable state
LookupCorrect ==
  \A q \in N : IF Allowed(q) = {} THEN ImplGet(q) = 0 ELSE ImplGet(q) \in Allowed(q)
\* never an entry of another base name or track
NoForeignEntry ==
  \A q \in N : \A e \in DOMAIN defs : ImplGet(q) = defs[e] => Compatible(e, q)
AltConsistent ==
  \A t \in DOMAIN alt : alt[t] \in DOMAIN defs /\ HasTrack(Nm(alt[t])) /\ TrackOf(Nm(alt[t])) = t

\* the relation is an equivalence and equals the semver rule, on the whole universe
RelationLaws ==
  /\ \A i, j \in N : Compatible(i, j) = Compatible(j, i)
  /\ (Len(Universe) <= 40 => \A i, j, k \in N : Compatible(i, j) /\ Compatible(j, k) => Compatible(i, k))
  /\ \A i, j \in N : i # j /\ Compatible(i, j) =>
        /\ Nm(i).base = Nm(j).base /\ ~Nm(i).pre /\ ~Nm(j).pre
        /\ Nm(i).ver # <<>> /\ Nm(j).ver # <<>>
        /\ IF Nm(i).ver[1] > 0 THEN Nm(i).ver[1] = Nm(j).ver[1]
           ELSE Nm(i).ver[2] > 0 /\ Nm(j).ver[1] = 0 /\ Nm(i).ver[2] = Nm(j).ver[2]

MCView == <<defs, alt, count>>

\* REPLAY: one line per distinct state: the inserts and, for every query, the allowed values
EmitReplay ==
  PrintT(<<"REPLAY", ToJson([seq |-> hist,
                             gets |-> [q \in N |-> Allowed(q)]])>>)

\* the same relation through a table of track keys computed once (a name without a track gets a
\* key of its own); KeysAgree ties the table to Compatible
TrackKey == [i \in N |->
               IF ~HasTrack(Nm(i)) THEN <<"single", "", i, 0>>
               ELSE IF Nm(i).ver[1] > 0 THEN <<"major", Nm(i).base, Nm(i).ver[1], 0>>
               ELSE <<"minor", Nm(i).base, 0, Nm(i).ver[2]>>]
CompatibleK(i, j) == TrackKey[i] = TrackKey[j]
KeysAgree == \A i, j \in N : CompatibleK(i, j) = Compatible(i, j)

\* the pair relation as one verdict vector per left operand (no state machine involved)
EmitPairs ==
  \* (constant-level, so TLC evaluates it once at start-up in every configuration; n tells the
  \* harness which universe the indices refer to)
  \A i \in N : PrintT(<<"PAIRS", ToJson([n |-> Len(Universe), a |-> i, compat |-> {j \in N : CompatibleK(i, j)}])>>)
====
