---- MODULE MC_Agg ----
(***************************************************************************)
(* Model-checking harness for Agg.tla: replay emission and bounds.         *)
(***************************************************************************)
EXTENDS Agg, Json

\* the used interface is identified up to compatibility: any name of its key that a contributor wrote
RECURSIVE EmitKind(_, _)
EmitKind(h, k) ==
  IF k.c # "inst" THEN k
  ELSE [c |-> "inst",
        ex |-> [e \in DOMAIN k.ex |-> EmitKind(h, k.ex[e])],
        us |-> [n \in DOMAIN k.us |->
                  [ifaces |-> {r.name.s : r \in {x \in AllReqs(h) : Key(x.name) = Key(k.us[n].iface)}},
                   name |-> k.us[n].name]]]

\* histories on which the code as found (DEV_NestedSupertype) departs from the contract
RECURSIVE NestedClash(_, _)
NestedClash(a, b) ==
  /\ a.c = "inst" /\ b.c = "inst"
  /\ \E e \in DOMAIN a.ex \cap DOMAIN b.ex :
       /\ a.ex[e].c = "inst" /\ b.ex[e].c = "inst"
       /\ a.ex[e].ex # b.ex[e].ex
KnownShape(h) ==
  IF \E r1, r2 \in AllReqs(h) : Key(r1.name) = Key(r2.name) /\ NestedClash(r1.kind, r2.kind)
  THEN "nested-instance-merge"
  ELSE IF OwnerNameShape(h) THEN "owner-import-name"
  ELSE IF WorldShape(h) THEN "component-or-module-requirement"
  ELSE IF SharedShape(h) THEN "shared-instance-type" ELSE ""

ReplayLine ==
  LET ok == ~Fails(hist)
      imps == IF ok THEN ContractImports(hist) ELSE {}
  IN [h |-> hist, ok |-> ok,
      imports |-> [s \in {i.name : i \in imps} |-> EmitKind(hist, (CHOOSE i \in imps : i.name = s).kind)],
      canon |-> IF ok THEN ContractCanon(hist) ELSE <<>>,
      kf |-> KnownShape(hist),
      \* for the histories KF28 excuses: what the Impl layer (merge_world / merge_module_type as they are) yields
      impl |-> IF WorldShape(hist) \/ SharedShape(hist)
               THEN [ok |-> ~st.failed,
                     imports |-> IF st.failed THEN <<>>
                                 ELSE [s \in {st.imports[i].n.s : i \in DOMAIN st.imports} |->
                                         EmitKind(hist, ImportKind(st, st.imports[CHOOSE i \in DOMAIN st.imports : st.imports[i].n.s = s]))]]
               ELSE <<>>]

EmitReplay == hist # <<>> => PrintT(<<"REPLAY", ToJson(ReplayLine)>>)

FocusAll == 1..Len(AG_Contribs)
\* everything but the component- / module-kinded requirements (those: FocusWorld)
FocusMain == 1..44
\* the version / conflict core: three versions of one track, another track, unversioned, nested
FocusCore == {1, 2, 3, 4, 5, 6, 7, 10, 12, 14, 25, 26}
FocusUses == {1, 5, 29, 30, 31, 32, 33, 34, 35, 36, 37}
\* versions differing in build metadata only, next to lower and higher ones
FocusBuild == {1, 4, 5, 6, 38}
\* one signature through one or two type definitions; a resource required alone and through a user
FocusShape == {1, 2, 5, 8, 29, 32, 37, 39, 40, 41, 42, 43, 44}
\* component- and module-kinded requirements (API level)
FocusWorld == 45..58
\* two-digit versions, used types from track-less interfaces (0.0.x, pre-release), exports after a nested instance
FocusMore == {1, 2, 5, 25, 26, 29, 32} \cup (59..66)
\* one instance type definition under two plain names
FocusShared == {1, 23, 24} \cup (67..70)
====
