\* the memoising checker: every order of up to 3 checks over the instance and component kinds
CONSTANTS
  MaxChecks = 3
  InsertBeforeCheck = FALSE
SPECIFICATION MSpec
INVARIANTS VerdictStable MemoSound
CHECK_DEADLOCK FALSE
