\* the code as found: the download table is keyed by package name (expected: ResultCorrect is violated)
CONSTANTS
  Names = {"a", "b", "c"}
  Published <- MCPublished
  Versions = {0, 1, 2, 3}
  MaxKeys = 3
  ByNameTable = TRUE
SPECIFICATION Spec
INVARIANTS ResultCorrect NoForeignContent
CHECK_DEADLOCK FALSE
