\* the code as found: TLC reports the violation of Satisfies (nested instance exports)
SPECIFICATION Spec
CONSTANTS
  MaxContrib = 2
  Focus <- FocusMain
  DEV_NestedSupertype = TRUE
  DEV_OwnerImportTwice = FALSE
  DEV_OwnerNaming = TRUE
  DEV_WorldMerge = TRUE
  DEV_SharedRemap = TRUE
INVARIANTS Satisfies FailsExactly
CHECK_DEADLOCK FALSE
