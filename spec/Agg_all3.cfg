\* replay generation + contract invariants on the repaired merge (FocusAll, histories up to 3 contributors)
SPECIFICATION Spec
CONSTANTS
  MaxContrib = 3
  Focus <- FocusMain
  DEV_NestedSupertype = FALSE
  DEV_OwnerImportTwice = FALSE
  DEV_OwnerNaming = TRUE
  DEV_WorldMerge = TRUE
  DEV_SharedRemap = TRUE
INVARIANTS FailsExactly MatchesContract MatchesByKey OneImportPerKey UniqueNames Canonical Satisfies Idempotent EmitReplay
CHECK_DEADLOCK FALSE
