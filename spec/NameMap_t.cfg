\* thorough: all insertion sequences (with and without shadowing) of at most 4 entries over the reduced universe
CONSTANTS
  Universe <- L_names_Small
  MaxLen = 4
SPECIFICATION Spec
VIEW MCView
INVARIANTS LookupCorrect NoForeignEntry AltConsistent RelationLaws KeysAgree EmitReplay
CHECK_DEADLOCK FALSE
