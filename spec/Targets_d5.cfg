SPECIFICATION WSpec
CONSTANTS
  LibName = "wac"
  NodeIds <- WNodeIds
  OpKinds = {}
  MaxStmts = 5
  PoolFocus <- W_TargetsFocus
INVARIANTS EnvSound NamesSound Room TargetsLaws EmitReplay
CHECK_DEADLOCK FALSE
