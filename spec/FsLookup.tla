---- MODULE FsLookup ----
(***************************************************************************)
(* C18: file-system dependency lookup (FileSystemPackageResolver), written *)
(* from README.md ("Dependencies may be located within a deps              *)
(* subdirectory ...") and the property text.  A pure decision function     *)
(* over a small space of package keys, directory layouts, overrides, the   *)
(* unknown-package mode and the `wat` build feature.                       *)
(*                                                                         *)
(* The candidate path of `ns:name[@version]` is deps/ns/name[/version]     *)
(* (one path segment per name segment); the extension is APPENDED to it,   *)
(* never replacing the last component of a version.  Layout facts:         *)
(*   dir    the candidate path itself is a directory holding a WIT package *)
(*   wasm   <candidate>.wasm is a file (a binary component)                *)
(*   wat    <candidate>.wat is a file (a text component)                   *)
(*   decoy  files exist at the paths obtained by REPLACING the last dotted *)
(*          component of the candidate (1.2.3 -> 1.2.wasm / 1.2.wat); they *)
(*          must never be read                                             *)
(***************************************************************************)
EXTENDS Naturals, Sequences, FiniteSets, TLC, Json

Names == {"ns:pkg", "ns:sub:pkg"}
Versions == {"none", "1.2.3", "1.2.3-rc.1", "1.2.3+b.7"}
\* "textfile": the override points to an existing `.wasm` file whose CONTENTS are text
Overrides == {"none", "file", "textfile", "dangling"}

\* wasmtext: the `.wasm` file at the candidate path holds text (it starts with a parenthesis).  The
\* format is decided by the extension alone, never by the contents: such a file is returned as it is.
Rows ==
  {r \in [name : Names, ver : Versions, dir : BOOLEAN, wasm : BOOLEAN, wasmtext : BOOLEAN, wat : BOOLEAN,
          decoy : BOOLEAN, ovr : Overrides, strict : BOOLEAN, watfeature : BOOLEAN] : r.wasmtext => r.wasm}

\* the documented outcome of resolving the key of row r
Lookup(r) ==
  IF r.ovr # "none" /\ r.ver = "none"
  THEN \* an explicit --dep applies to unversioned references only and must exist
       IF r.ovr \in {"file", "textfile"} THEN "loaded:override" ELSE "failure"
  ELSE IF r.dir THEN "loaded:dir"                                   \* a directory is a WIT package
  ELSE IF r.watfeature /\ r.wat THEN "loaded:wat"                   \* .wat preferred when text support is on
  ELSE IF r.wasm THEN "loaded:wasm"
  ELSE IF r.strict THEN "unknown" ELSE "skipped"

VARIABLE row
Init == row \in Rows
Next == UNCHANGED row
Spec == Init /\ [][Next]_row

\* sanity of the table itself
TableLaws ==
  \* the decoy never matters, a versioned key ignores the override, the mode matters only when nothing is found
  /\ Lookup(row) = Lookup([row EXCEPT !.decoy = ~row.decoy])
  /\ row.ver # "none" => Lookup(row) = Lookup([row EXCEPT !.ovr = "none"])
  /\ Lookup(row) \notin {"unknown", "skipped"} => Lookup(row) = Lookup([row EXCEPT !.strict = ~row.strict])
  /\ ~row.watfeature => Lookup(row) # "loaded:wat"
  \* what a `.wasm` file holds never changes where the package comes from
  /\ row.wasm => Lookup(row) = Lookup([row EXCEPT !.wasmtext = ~row.wasmtext])
  /\ row.ovr = "file" => Lookup(row) = Lookup([row EXCEPT !.ovr = "textfile"])

\* what is returned: the file's bytes as they are, or the encoding of the WIT / WAT that was found
Bytes(r) ==
  LET w == Lookup(r)
  IN IF w \in {"loaded:dir", "loaded:wat"} THEN "encoded"
     ELSE IF w \in {"loaded:wasm", "loaded:override"} THEN "as-is" ELSE "-"

EmitReplay == PrintT(<<"REPLAY", ToJson([row |-> row, expect |-> Lookup(row), bytes |-> Bytes(row)])>>)

(***************************************************************************)
(* Requests with several keys: every key is looked up on its own.  In the  *)
(* lenient mode a missing package is skipped and the others are returned;  *)
(* in the strict mode the request fails for the first missing key.         *)
(* Slots: a, b (unversioned, present), v (versioned, present), m, n        *)
(* (absent, n versioned).                                                  *)
(***************************************************************************)
Slots == {"a", "b", "v", "m", "n"}
Present == {"a", "b", "v"}
NoRepeat(s) == \A i, j \in DOMAIN s : i # j => s[i] # s[j]
Requests == {s \in UNION {[1..k -> Slots] : k \in 2..3} : NoRepeat(s) /\ \E i \in DOMAIN s : s[i] \notin Present}
MultiLookup(s, strict) ==
  LET missing == {i \in DOMAIN s : s[i] \notin Present}
  IN IF strict /\ missing # {}
     THEN [outcome |-> "unknown", key |-> s[CHOOSE i \in missing : \A j \in missing : i <= j], loaded |-> {}]
     ELSE [outcome |-> "ok", key |-> "-", loaded |-> {s[i] : i \in DOMAIN s} \cap Present]
\* the presence of a missing key never changes what the other keys get
KeysIndependent ==
  \A s \in Requests : MultiLookup(s, FALSE).loaded = {s[i] : i \in DOMAIN s} \cap Present
ASSUME KeysIndependent
ASSUME \A s \in Requests : \A strict \in BOOLEAN :
         PrintT(<<"MULTI", ToJson([req |-> s, strict |-> strict, expect |-> MultiLookup(s, strict)])>>)
====
