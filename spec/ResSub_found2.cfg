\* even with identities compared, the clause is refuted: an import that is left over cannot use a
\* resource of a supplied import (KF26)
SPECIFICATION Spec
CONSTANTS
  DEV_ResByName = FALSE
INVARIANTS ClauseInv
CHECK_DEADLOCK FALSE
