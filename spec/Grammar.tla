---- MODULE Grammar ----
(***************************************************************************)
(* The WAC grammar of LANGUAGE.md as a pushdown machine (C12, C13, C14,    *)
(* C17).  The productions come from spec/Lib_grammar.tla, generated from   *)
(* the production-by-production transcription in lib/grammar.py.           *)
(*                                                                         *)
(* Generator (GenSpec): `stack` holds the sentential form still to derive, *)
(* `out` the token stream derived so far.  Expand replaces the nonterminal *)
(* on top by one of its alternatives, Emit moves a terminal to the output  *)
(* together with a lexeme choice (for the lexical classes ID, STRING, ...) *)
(* and a trivia choice (the layout that follows the token).  Nonterminals  *)
(* in G_Marked are bracketed in the output ("<nt" ... ">"), so a finished  *)
(* output carries its derivation tree.                                     *)
(*                                                                         *)
(* Recogniser (RecSpec): the same machine constrained to consume the token *)
(* kinds of a given document; a document is in the language iff some       *)
(* behaviour reaches the empty stack at the end of its input.  Used to     *)
(* classify token-level mutants and the repository's own .wac files.       *)
(***************************************************************************)
EXTENDS Naturals, Sequences, FiniteSets, TLC, Json, IOUtils, Lib_grammar

IsNT(s) == s \in DOMAIN G_Prods
IsClose(s) == s = "#close"     \* stack marker ending a bracketed nonterminal (not the terminal ">")

RECURSIVE MinOf(_)
MinOf(st) == IF st = <<>> THEN 0
             ELSE (IF IsClose(Head(st)) THEN 0 ELSE G_Min[Head(st)]) + MinOf(Tail(st))
====
