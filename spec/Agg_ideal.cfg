\* the ideal aggregator (owner imports take part in the supersede logic, KF24 repaired): every
\* invariant holds with nothing excused
SPECIFICATION Spec
CONSTANTS
  MaxContrib = 3
  Focus <- FocusShape
  DEV_NestedSupertype = FALSE
  DEV_OwnerImportTwice = FALSE
  DEV_OwnerNaming = FALSE
  DEV_WorldMerge = FALSE
  DEV_SharedRemap = FALSE
INVARIANTS FailsExactly MatchesContract MatchesByKey OneImportPerKey UniqueNames Canonical Satisfies Idempotent
CHECK_DEADLOCK FALSE
