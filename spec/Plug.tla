---- MODULE Plug ----
(***************************************************************************)
(* C10: wac_graph::plug(graph, plugs, socket).                             *)
(*                                                                         *)
(* Contract layer (from the property text and the doc comment of plug):    *)
(*   Offers(p, s)     the exports of plug p that can supply socket import  *)
(*                    s: same name, or a semver-compatible name, and a     *)
(*                    type that is a subtype of the import's type          *)
(*   Chosen(p, s)     the same-named offer if there is one, failing that   *)
(*                    the semver-compatible offers                         *)
(*   Providers(s)     the plugs with an offer for s                        *)
(* and PlugAllowed / WiringOk below.                                       *)
(*                                                                         *)
(* Code-shaped layer: ImplPlug transcribes the loop of plug.rs (per plug,  *)
(* per export: exact-name import first, else the first semver-compatible   *)
(* import; type filter; one instantiation per contributing plug;           *)
(* ArgumentAlreadyPassed from the graph when an import is supplied twice). *)
(* TLC checks ImplConforms for every socket and every ordered list of      *)
(* distinct plugs within the bound.                                        *)
(***************************************************************************)
EXTENDS Naturals, Sequences, FiniteSets, TLC, Json, Types, Names, Libs

CONSTANTS MaxPlugs

L == LibTable["plug"]
Sockets == L.Sockets
Plugs == L.Plugs
Imports(p) == L.PkgImports[p]     \* sequences of [n, k]
Exports(p) == L.PkgExports[p]
Info(n) == L.NameInfo[n]

SeqNames(s) == {s[i].n : i \in DOMAIN s}
KindOf(s, n) == s[CHOOSE i \in DOMAIN s : s[i].n = n].k
Compat(a, b) == a = b \/ OnSameTrack(Info(a), Info(b))

(***************************************************************************)
(* Contract.                                                               *)
(***************************************************************************)
Offers(p, sock, s) ==
  {e \in SeqNames(Exports(p)) : Compat(e, s) /\ Sub(KindOf(Exports(p), e), KindOf(Imports(sock), s))}
Chosen(p, sock, s) ==
  IF s \in Offers(p, sock, s) THEN {s} ELSE Offers(p, sock, s)
Providers(ps, sock, s) == {p \in ps : Chosen(p, sock, s) # {}}

\* unspecified (DESIGN.md): a semver-compatible offer that is also the same-named offer of
\* *another* import of the socket may be used for that import only
Busy(p, sock, s) ==
  /\ s \notin Offers(p, sock, s)
  /\ \A e \in Chosen(p, sock, s) : e \in SeqNames(Imports(sock)) /\ e \in Offers(p, sock, e)
\* one plug with several semver-compatible offers for one import: also unspecified (pick or fail)
Ambiguous(p, sock, s) == Cardinality(Chosen(p, sock, s)) > 1

MustSupply(ps, sock) ==
  {s \in SeqNames(Imports(sock)) : \E p \in Providers(ps, sock, s) : ~Busy(p, sock, s)}
MaySupply(ps, sock) == {s \in SeqNames(Imports(sock)) : Providers(ps, sock, s) # {}}
\* two plugs both offer a compatible item for one import: the operation must fail.  Offers that
\* fall under the unspecified case above count only towards a *possible* conflict.
Conflict(ps, sock) ==
  \E s \in SeqNames(Imports(sock)) : Cardinality({p \in Providers(ps, sock, s) : ~Busy(p, sock, s)}) > 1
PossibleConflict(ps, sock) ==
  \E s \in SeqNames(Imports(sock)) : Cardinality(Providers(ps, sock, s)) > 1
AnyAmbiguous(ps, sock) == \E s \in SeqNames(Imports(sock)), p \in ps : Ambiguous(p, sock, s)

\* the result classes the contract allows for plug(ps, sock)
PlugAllowed(ps, sock) ==
  IF Conflict(ps, sock) THEN {"GraphError"}
  ELSE (IF MustSupply(ps, sock) # {} THEN {"ok"}
        ELSE IF MaySupply(ps, sock) = {} THEN {"NoPlugHappened"} ELSE {"ok", "NoPlugHappened"})
       \cup (IF AnyAmbiguous(ps, sock) \/ PossibleConflict(ps, sock) THEN {"GraphError"} ELSE {})

\* a wiring: set of [imp |-> socket import, plug |-> p, exp |-> export of p]
WiringOk(ps, sock, w) ==
  /\ \A x \in w : x.plug \in ps /\ x.exp \in Chosen(x.plug, sock, x.imp)       \* only allowed sources
  /\ \A x, y \in w : x.imp = y.imp => x = y                                   \* one source per import
  /\ \A s \in MustSupply(ps, sock) : \E x \in w : x.imp = s                    \* every matchable import supplied
  /\ w # {}

(***************************************************************************)
(* The loop of plug.rs.                                                    *)
(***************************************************************************)
\* matching socket import for export e of a plug: exact name first, else the first compatible import
MatchImport(sock, e) ==
  IF e \in SeqNames(Imports(sock)) THEN e
  ELSE LET I == {i \in DOMAIN Imports(sock) : Compat(e, Imports(sock)[i].n)}
       IN IF I = {} THEN "-" ELSE Imports(sock)[CHOOSE i \in I : \A j \in I : i <= j].n

\* the (export, import) pairs plug p contributes, in export order
RECURSIVE PairsFrom(_, _, _)
PairsFrom(p, sock, i) ==
  IF i > Len(Exports(p)) THEN <<>>
  ELSE LET e == Exports(p)[i]
           s == MatchImport(sock, e.n)
       IN (IF s # "-" /\ Sub(e.k, KindOf(Imports(sock), s)) THEN <<[exp |-> e.n, imp |-> s]>> ELSE <<>>)
          \o PairsFrom(p, sock, i + 1)

\* fold over the plug list; acc = [w |-> wiring so far, err |-> BOOLEAN]
RECURSIVE ApplyPairs(_, _, _, _)
ApplyPairs(acc, p, pairs, i) ==
  IF acc.err \/ i > Len(pairs) THEN acc
  ELSE LET x == pairs[i]
       IN IF \E y \in acc.w : y.imp = x.imp          \* set_instantiation_argument: ArgumentAlreadyPassed
          THEN [acc EXCEPT !.err = TRUE]
          ELSE ApplyPairs([acc EXCEPT !.w = @ \cup {[imp |-> x.imp, plug |-> p, exp |-> x.exp]}], p, pairs, i + 1)

RECURSIVE ImplFold(_, _, _, _)
ImplFold(acc, plugs, sock, i) ==
  IF acc.err \/ i > Len(plugs) THEN acc
  ELSE ImplFold(ApplyPairs(acc, plugs[i], PairsFrom(plugs[i], sock, 1), 1), plugs, sock, i + 1)

ImplPlug(plugs, sock) ==
  LET r == ImplFold([w |-> {}, err |-> FALSE], plugs, sock, 1)
  IN IF r.err THEN [res |-> "GraphError", w |-> {}]
     ELSE IF r.w = {} THEN [res |-> "NoPlugHappened", w |-> {}]
     ELSE [res |-> "ok", w |-> r.w]

Range(s) == {s[i] : i \in DOMAIN s}
ImplConformsFor(plugs, sock) ==
  LET r == ImplPlug(plugs, sock)
  IN /\ r.res \in PlugAllowed(Range(plugs), sock)
     /\ r.res = "ok" => WiringOk(Range(plugs), sock, r.w)

(***************************************************************************)
(* Enumeration: every socket and ordered list of distinct plugs.           *)
(***************************************************************************)
RECURSIVE Lists(_)
Lists(n) == IF n = 0 THEN {<<>>}
            ELSE LET prev == Lists(n - 1)
                 IN prev \cup {Append(l, p) : l \in {x \in prev : Len(x) = n - 1}, p \in Plugs}
Distinct(l) == \A i, j \in DOMAIN l : i # j => l[i] # l[j]
PlugLists == {l \in Lists(MaxPlugs) : Len(l) >= 1 /\ Distinct(l)}

VARIABLES sock, plugs
vars == <<sock, plugs>>
Init == sock \in Sockets /\ plugs \in PlugLists
Next == UNCHANGED vars
Spec == Init /\ [][Next]_vars

ImplConforms == ImplConformsFor(plugs, sock)

\* one REPLAY line per case: what the contract allows, for the harness to compare the real plug() with
EmitReplay ==
  PrintT(<<"REPLAY", ToJson(
     [sock |-> sock, plugs |-> plugs,
      allowed |-> PlugAllowed(Range(plugs), sock),
      must |-> MustSupply(Range(plugs), sock),
      sources |-> {[imp |-> s, plug |-> p, exps |-> Chosen(p, sock, s)]
                     : s \in SeqNames(Imports(sock)), p \in Range(plugs)},
      exports |-> SeqNames(Exports(sock))])>>)
====
