---- MODULE Plug ----
(***************************************************************************)
(* C10: wac_graph::plug(graph, plugs, socket).                             *)
(*                                                                         *)
(* Contract layer (from the property text and the doc comment of plug):    *)
(*   Offers(p, s)     the exports of plug p that can supply socket import  *)
(*                    s: same name, or a semver-compatible name, and a     *)
(*                    type that is a subtype of the import's type          *)
(*   Chosen(p, s)     the same-named offer if there is one, failing that   *)
(*                    the semver-compatible offers                         *)
(*   Providers(s)     the plugs with an offer for s                        *)
(* and PlugAllowed / WiringOk below.                                       *)
(*                                                                         *)
(* Code-shaped layer: ImplPlug transcribes the loop of plug.rs (per plug,  *)
(* per export: the socket imports it is wired to; type filter; one         *)
(* instantiation per contributing plug; ArgumentAlreadyPassed from the     *)
(* graph when an import is supplied twice).  Named deviation:              *)
(*   DEV_FirstOnTrack  (the loop as found) an export is tried against ONE  *)
(*                     import only: the import of its own name if the      *)
(*                     socket has one -- whatever its type --, else the    *)
(*                     first import on its semver track.  A socket with    *)
(*                     two imports on one track then keeps an import a     *)
(*                     plug could supply, or reports NoPlugHappened.       *)
(* TLC checks ImplConforms for every socket and every ordered list of      *)
(* distinct plugs within the bound, and the interface of the result        *)
(* (SocketImportsKept; SuccessEncodes is refuted: KF27).                   *)
(***************************************************************************)
EXTENDS Naturals, Sequences, FiniteSets, TLC, Json, Types, Names, Libs

CONSTANTS MaxPlugs, DEV_FirstOnTrack

L == LibTable["plug"]
Sockets == L.Sockets
Plugs == L.Plugs
Imports(p) == L.PkgImports[p]     \* sequences of [n, k]
Exports(p) == L.PkgExports[p]
Info(n) == L.NameInfo[n]

SeqNames(s) == {s[i].n : i \in DOMAIN s}
KindOf(s, n) == s[CHOOSE i \in DOMAIN s : s[i].n = n].k
Compat(a, b) == a = b \/ OnSameTrack(Info(a), Info(b))

(***************************************************************************)
(* Contract.                                                               *)
(***************************************************************************)
Offers(p, sock, s) ==
  {e \in SeqNames(Exports(p)) : Compat(e, s) /\ Sub(KindOf(Exports(p), e), KindOf(Imports(sock), s))}
Chosen(p, sock, s) ==
  IF s \in Offers(p, sock, s) THEN {s} ELSE Offers(p, sock, s)
Providers(ps, sock, s) == {p \in ps : Chosen(p, sock, s) # {}}

\* unspecified (DESIGN.md): a semver-compatible offer that is also the same-named offer of
\* *another* import of the socket may be used for that import only
Busy(p, sock, s) ==
  /\ s \notin Offers(p, sock, s)
  /\ \A e \in Chosen(p, sock, s) : e \in SeqNames(Imports(sock)) /\ e \in Offers(p, sock, e)
\* one plug with several semver-compatible offers for one import: also unspecified (pick or fail)
Ambiguous(p, sock, s) == Cardinality(Chosen(p, sock, s)) > 1

MustSupply(ps, sock) ==
  {s \in SeqNames(Imports(sock)) : \E p \in Providers(ps, sock, s) : ~Busy(p, sock, s)}
MaySupply(ps, sock) == {s \in SeqNames(Imports(sock)) : Providers(ps, sock, s) # {}}
\* two plugs both offer a compatible item for one import: the operation must fail.  Offers that
\* fall under the unspecified case above count only towards a *possible* conflict.
Conflict(ps, sock) ==
  \E s \in SeqNames(Imports(sock)) : Cardinality({p \in Providers(ps, sock, s) : ~Busy(p, sock, s)}) > 1
PossibleConflict(ps, sock) ==
  \E s \in SeqNames(Imports(sock)) : Cardinality(Providers(ps, sock, s)) > 1
AnyAmbiguous(ps, sock) == \E s \in SeqNames(Imports(sock)), p \in ps : Ambiguous(p, sock, s)

\* the result classes the contract allows for plug(ps, sock)
PlugAllowed(ps, sock) ==
  IF Conflict(ps, sock) THEN {"GraphError"}
  ELSE (IF MustSupply(ps, sock) # {} THEN {"ok"}
        ELSE IF MaySupply(ps, sock) = {} THEN {"NoPlugHappened"} ELSE {"ok", "NoPlugHappened"})
       \cup (IF AnyAmbiguous(ps, sock) \/ PossibleConflict(ps, sock) THEN {"GraphError"} ELSE {})

\* a wiring: set of [imp |-> socket import, plug |-> p, exp |-> export of p]
WiringOk(ps, sock, w) ==
  /\ \A x \in w : x.plug \in ps /\ x.exp \in Chosen(x.plug, sock, x.imp)       \* only allowed sources
  /\ \A x, y \in w : x.imp = y.imp => x = y                                   \* one source per import
  /\ \A s \in MustSupply(ps, sock) : \E x \in w : x.imp = s                    \* every matchable import supplied
  /\ w # {}

(***************************************************************************)
(* The loop of plug.rs.                                                    *)
(***************************************************************************)
\* as found (DEV_FirstOnTrack): the ONE socket import tried for export e of a plug -- the import of that
\* name if the socket has one (whatever its type), else the first compatible-named import in import order
MatchImport(sock, e) ==
  IF e \in SeqNames(Imports(sock)) THEN e
  ELSE LET I == {i \in DOMAIN Imports(sock) : Compat(e, Imports(sock)[i].n)}
       IN IF I = {} THEN "-" ELSE Imports(sock)[CHOOSE i \in I : \A j \in I : i <= j].n

\* the socket imports export e of plug p is wired to, in import order.  Repaired loop: the import of the
\* export's own name if the export satisfies it (and then only that one); failing that, every import with a
\* semver-compatible name it satisfies and the plug has no type-compatible export of that import's own name for
\* (that is: every other import e is a chosen source of)
TargetsOf(p, sock, e) ==
  IF DEV_FirstOnTrack
  THEN LET s == MatchImport(sock, e.n)
       IN IF s # "-" /\ Sub(e.k, KindOf(Imports(sock), s)) THEN <<s>> ELSE <<>>
  ELSE IF e.n \in SeqNames(Imports(sock)) /\ Sub(e.k, KindOf(Imports(sock), e.n)) THEN <<e.n>>
  ELSE LET names == [i \in DOMAIN Imports(sock) |-> Imports(sock)[i].n]
           Hit(s) == s # e.n /\ e.n \in Chosen(p, sock, s)
       IN SelectSeq(names, Hit)

\* the (export, import) pairs plug p contributes, in export order
RECURSIVE PairsFrom(_, _, _)
PairsFrom(p, sock, i) ==
  IF i > Len(Exports(p)) THEN <<>>
  ELSE LET e == Exports(p)[i]
           t == TargetsOf(p, sock, e)
       IN [j \in DOMAIN t |-> [exp |-> e.n, imp |-> t[j]]] \o PairsFrom(p, sock, i + 1)

\* fold over the plug list; acc = [w |-> wiring so far, err |-> BOOLEAN]
RECURSIVE ApplyPairs(_, _, _, _)
ApplyPairs(acc, p, pairs, i) ==
  IF acc.err \/ i > Len(pairs) THEN acc
  ELSE LET x == pairs[i]
       IN IF \E y \in acc.w : y.imp = x.imp          \* set_instantiation_argument: ArgumentAlreadyPassed
          THEN [acc EXCEPT !.err = TRUE]
          ELSE ApplyPairs([acc EXCEPT !.w = @ \cup {[imp |-> x.imp, plug |-> p, exp |-> x.exp]}], p, pairs, i + 1)

RECURSIVE ImplFold(_, _, _, _)
ImplFold(acc, plugs, sock, i) ==
  IF acc.err \/ i > Len(plugs) THEN acc
  ELSE ImplFold(ApplyPairs(acc, plugs[i], PairsFrom(plugs[i], sock, 1), 1), plugs, sock, i + 1)

ImplPlug(plugs, sock) ==
  LET r == ImplFold([w |-> {}, err |-> FALSE], plugs, sock, 1)
  IN IF r.err THEN [res |-> "GraphError", w |-> {}]
     ELSE IF r.w = {} THEN [res |-> "NoPlugHappened", w |-> {}]
     ELSE [res |-> "ok", w |-> r.w]

Range(s) == {s[i] : i \in DOMAIN s}
ImplConformsFor(plugs, sock) ==
  LET r == ImplPlug(plugs, sock)
  IN /\ r.res \in PlugAllowed(Range(plugs), sock)
     /\ r.res = "ok" => WiringOk(Range(plugs), sock, r.w)

(***************************************************************************)
(* The interface of the result of a successful plug with wiring w.         *)
(* What is left to import: the socket's imports nothing was supplied for   *)
(* and the imports of the contributing plugs (plug() wires nothing into a  *)
(* plug).  Left imports on one semver track merge into one import under    *)
(* the highest version (C03/C09); two that cannot be merged make encode    *)
(* fail although plug() succeeded (KF27).                                  *)
(***************************************************************************)
Left(sock, w) ==
  {i \in Range(Imports(sock)) : i.n \notin {x.imp : x \in w}}
    \cup UNION {Range(Imports(p)) : p \in {x.plug : x \in w}}
TrackKey(n) == IF HasTrack(Info(n)) THEN TrackOf(Info(n)) ELSE <<n>>
TopName(S) == CHOOSE n \in S : \A m \in S : m = n \/ VerLess(Info(m).ver, Info(n).ver)
ResultImports(sock, w) ==
  {TopName({i.n : i \in {j \in Left(sock, w) : TrackKey(j.n) = k}}) : k \in {TrackKey(i.n) : i \in Left(sock, w)}}
ImportConflict(sock, w) ==
  \E i, j \in Left(sock, w) : TrackKey(i.n) = TrackKey(j.n) /\ ~Mergeable(i.k, j.k)
\* "a successful plug always encodes to a valid component"
SuccessEncodesFor(plugs, sock) ==
  LET r == ImplPlug(plugs, sock) IN r.res = "ok" => ~ImportConflict(sock, r.w)
\* every socket import is supplied or still imported (under the canonical name of its track)
SocketImportsKeptFor(plugs, sock) ==
  LET r == ImplPlug(plugs, sock)
  IN r.res = "ok" /\ ~ImportConflict(sock, r.w) =>
       \A s \in SeqNames(Imports(sock)) :
         \/ \E x \in r.w : x.imp = s
         \/ \E n \in ResultImports(sock, r.w) : TrackKey(n) = TrackKey(s)

(***************************************************************************)
(* Enumeration: every socket and ordered list of distinct plugs.           *)
(***************************************************************************)
RECURSIVE Lists(_)
Lists(n) == IF n = 0 THEN {<<>>}
            ELSE LET prev == Lists(n - 1)
                 IN prev \cup {Append(l, p) : l \in {x \in prev : Len(x) = n - 1}, p \in Plugs}
Distinct(l) == \A i, j \in DOMAIN l : i # j => l[i] # l[j]
PlugLists == {l \in Lists(MaxPlugs) : Len(l) >= 1 /\ Distinct(l)}

VARIABLES sock, plugs
vars == <<sock, plugs>>
Init == sock \in Sockets /\ plugs \in PlugLists
Next == UNCHANGED vars
Spec == Init /\ [][Next]_vars

ImplConforms == ImplConformsFor(plugs, sock)
SuccessEncodes == SuccessEncodesFor(plugs, sock)
SocketImportsKept == SocketImportsKeptFor(plugs, sock)

\* names of the case, by track and by rank within the track; pairs of imports that cannot be merged
CaseImports == UNION {{[p |-> q, n |-> i.n, k |-> i.k] : i \in Range(Imports(q))} : q \in Range(plugs) \cup {sock}}
Rank(n) == Cardinality({m \in {i.n : i \in CaseImports} : m # n /\ TrackKey(m) = TrackKey(n) /\ VerLess(Info(m).ver, Info(n).ver)})
Clashes == {[a |-> [p |-> x[1].p, n |-> x[1].n], b |-> [p |-> x[2].p, n |-> x[2].n]] :
              x \in {y \in CaseImports \X CaseImports : TrackKey(y[1].n) = TrackKey(y[2].n) /\ ~Mergeable(y[1].k, y[2].k)}}

\* one REPLAY line per case: what the contract allows, for the harness to compare the real plug() with
EmitReplay ==
  LET r == ImplPlug(plugs, sock)
  IN PrintT(<<"REPLAY", ToJson(
     [sock |-> sock, plugs |-> plugs,
      allowed |-> PlugAllowed(Range(plugs), sock),
      must |-> MustSupply(Range(plugs), sock),
      sources |-> {[imp |-> s, plug |-> p, exps |-> Chosen(p, sock, s)]
                     : s \in SeqNames(Imports(sock)), p \in Range(plugs)},
      exports |-> SeqNames(Exports(sock)),
      \* the Impl layer's own answer (the harness compares when the real wiring is the same)
      impl |-> [res |-> r.res, w |-> r.w,
                imports |-> IF r.res = "ok" /\ ~ImportConflict(sock, r.w) THEN ResultImports(sock, r.w) ELSE {},
                conflict |-> r.res = "ok" /\ ImportConflict(sock, r.w)],
      \* for any other allowed wiring: track and rank of every import name of the case, unmergeable pairs
      tracks |-> [n \in {i.n : i \in CaseImports} |-> [key |-> ToString(TrackKey(n)), rank |-> Rank(n)]],
      clashes |-> Clashes,
      kf |-> IF r.res = "ok" /\ ImportConflict(sock, r.w) THEN "plug-import-conflict" ELSE ""])>>)
====
