---- MODULE Decl ----
(***************************************************************************)
(* C05 / C08: what WIT declarations denote.                                *)
(*                                                                         *)
(* An elaborator for the declaration terms of lib/universe_decl.py (the    *)
(* same terms are printed as the WIT / WAC text the tools read):           *)
(*   * type names are resolved in their scope -- definitions, aliases of   *)
(*     aliases, `use` with renames through chains and diamonds -- down to  *)
(*     the structure they denote; a resource stays a name: its *origin*    *)
(*     (the scope that declares it), which is what makes two mentions the  *)
(*     same type;                                                          *)
(*   * an interface denotes an instance type: its named types, its         *)
(*     functions, and the constructor / methods / statics of its resources *)
(*     under their component-model names, methods taking `self`;           *)
(*   * a world denotes a component type: its explicit imports and exports, *)
(*     `include` copying the items of another world under the `with`       *)
(*     renames.                                                            *)
(* Exported interfaces declare fresh resources (tag "ex"); everything an   *)
(* interface reaches through `use` comes from the imported side ("im").    *)
(***************************************************************************)
EXTENDS Integers, Sequences, FiniteSets, TLC, Lib_decl

Range(s) == {s[i] : i \in DOMAIN s}
IfaceOf(p, name) == CHOOSE i \in Range(p.ifaces) : i.name = name
WorldOf(p, name) == CHOOSE w \in Range(p.worlds) : w.name = name

\* the item that binds the local type name n in a scope
Binds(it, n) ==
  \/ it.k \in {"type", "res"} /\ it.name = n
  \/ it.k = "use" /\ \E j \in DOMAIN it.names : it.names[j].as = n
Lookup(items, n) == items[CHOOSE i \in DOMAIN items : Binds(items[i], n)]
Declared(items, n) == \E i \in DOMAIN items : Binds(items[i], n)
OrigName(it, n) == it.names[CHOOSE j \in DOMAIN it.names : it.names[j].as = n].name

(***************************************************************************)
(* Types.  A scope is (key, items, tag): key identifies the scope (an      *)
(* interface name, or <<"inline", world, name>>), tag is "im" or "ex".     *)
(***************************************************************************)
\* tag = [t |-> "im" | "ex", exs |-> the interfaces the enclosing world exports]: a scope reached
\* through `use` is the exported instance when the world exports that interface, else an import
Tag(t, exs) == [t |-> t, exs |-> exs]
Via(tag, from) == Tag(IF tag.t = "ex" /\ from \in tag.exs THEN "ex" ELSE "im", tag.exs)

RECURSIVE Expand(_, _, _, _, _), Resolve(_, _, _, _, _, _)

Expand(p, key, items, tag, ty) ==
  CASE ty.c \in {"prim", "none", "enum", "flags"} -> ty
    [] ty.c \in {"list", "option"} -> [ty EXCEPT !.e = Expand(p, key, items, tag, ty.e)]
    [] ty.c = "result" -> [ty EXCEPT !.ok = Expand(p, key, items, tag, ty.ok), !.err = Expand(p, key, items, tag, ty.err)]
    [] ty.c = "tuple" -> [ty EXCEPT !.es = [i \in DOMAIN ty.es |-> Expand(p, key, items, tag, ty.es[i])]]
    [] ty.c = "record" -> [ty EXCEPT !.fs = [i \in DOMAIN ty.fs |-> [n |-> ty.fs[i].n, v |-> Expand(p, key, items, tag, ty.fs[i].v)]]]
    [] ty.c = "variant" -> [ty EXCEPT !.cs = [i \in DOMAIN ty.cs |-> [n |-> ty.cs[i].n, v |-> Expand(p, key, items, tag, ty.cs[i].v)]]]
    [] ty.c = "ref" -> Resolve(p, key, items, tag, ty.n, "own")
    [] ty.c = "borrow" -> Resolve(p, key, items, tag, ty.n, "borrow")

\* mode: "own" | "borrow" (a mention inside a type) or "resource" (the exported type item itself)
Resolve(p, key, items, tag, n, mode) ==
  LET it == Lookup(items, n) IN
  CASE it.k = "type" -> Expand(p, key, items, tag, it.def)
    [] it.k = "res" -> [c |-> mode, r |-> <<tag.t, key,n>>]
    [] it.k = "use" -> LET src == IfaceOf(p, it.from)
                       IN Resolve(p, src.name, src.items, Via(tag, it.from), OrigName(it, n), mode)

(***************************************************************************)
(* Interfaces.                                                             *)
(***************************************************************************)
Fn(p, key, items, tag, ps, r) ==
  [c |-> "fn", ps |-> [i \in DOMAIN ps |-> [n |-> ps[i].n, v |-> Expand(p, key, items, tag, ps[i].v)]],
   r |-> Expand(p, key, items, tag, r)]

ResFn(p, key, items, tag, res, f) ==
  LET self == [n |-> "self", v |-> [c |-> "borrow", r |-> <<tag.t, key,res>>]]
      own == [c |-> "own", r |-> <<tag.t, key,res>>]
      ps == [i \in DOMAIN f.ps |-> [n |-> f.ps[i].n, v |-> Expand(p, key, items, tag, f.ps[i].v)]]
  IN CASE f.kind = "ctor" -> [c |-> "fn", ps |-> ps, r |-> own]
       [] f.kind = "method" -> [c |-> "fn", ps |-> <<self>> \o ps, r |-> Expand(p, key, items, tag, f.r)]
       [] f.kind = "static" -> [c |-> "fn", ps |-> ps, r |-> Expand(p, key, items, tag, f.r)]

\* the exports an item contributes: set of [n, kind]
ItemExports(p, key, items, tag, it) ==
  CASE it.k = "type" -> {[n |-> it.name, kind |-> [c |-> "type", def |-> Expand(p, key, items, tag, it.def)]]}
    [] it.k = "res" ->
         {[n |-> it.name, kind |-> [c |-> "type", def |-> [c |-> "resource", r |-> <<tag.t, key,it.name>>]]]}
         \cup {[n |-> D_ResFuncName[<<it.name, it.funcs[i].kind, it.funcs[i].name>>],
                kind |-> ResFn(p, key, items, tag, it.name, it.funcs[i])] : i \in DOMAIN it.funcs}
    [] it.k = "func" -> {[n |-> it.name, kind |-> Fn(p, key, items, tag, it.ps, it.r)]}
    [] it.k = "use" ->
         {[n |-> it.names[j].as, kind |-> [c |-> "type", def |-> Resolve(p, key, items, tag, it.names[j].as, "resource")]]
            : j \in DOMAIN it.names}

InstKind(p, key, items, tag) ==
  LET ex == UNION {ItemExports(p, key, items, tag, items[i]) : i \in DOMAIN items}
  IN [c |-> "inst", ex |-> [n \in {e.n : e \in ex} |-> (CHOOSE e \in ex : e.n = n).kind]]

IfaceKind(p, name, tag) == InstKind(p, name, IfaceOf(p, name).items, tag)

(***************************************************************************)
(* Worlds: the explicit items, includes expanded.                          *)
(***************************************************************************)
\* the interfaces a world exports by name (an imported interface keeps referring to imports)
Exported(w) == {w.items[i].iface : i \in {j \in DOMAIN w.items : w.items[j].k = "export" /\ w.items[j].form = "iface"}}

RECURSIVE WorldItems(_, _)
\* sequence of [dir, n, kind]
WorldItems(p, w) ==
  LET One(x) ==
        CASE x.k = "include" ->
               LET inner == WorldItems(p, WorldOf(p, x.world))
                   Ren(n) == IF \E j \in DOMAIN x.with : x.with[j].from = n
                             THEN x.with[CHOOSE j \in DOMAIN x.with : x.with[j].from = n].to ELSE n
               IN [i \in DOMAIN inner |-> [inner[i] EXCEPT !.n = Ren(inner[i].n)]]
          [] x.form = "iface" -> <<[dir |-> x.k, n |-> D_Path[<<p.id, x.iface>>],
                                    kind |-> IfaceKind(p, x.iface, Tag(IF x.k = "export" THEN "ex" ELSE "im", Exported(w)))]>>
          [] x.form = "inline" -> <<[dir |-> x.k, n |-> x.name,
                                     kind |-> InstKind(p, <<"inline", w.name, x.name>>, x.items,
                                                       Tag(IF x.k = "export" THEN "ex" ELSE "im", Exported(w)))]>>
          [] x.form = "func" -> <<[dir |-> x.k, n |-> x.name, kind |-> Fn(p, <<"world", w.name>>, <<>>, Tag("im", {}), x.ps, x.r)]>>
      RECURSIVE All(_)
      All(i) == IF i > Len(w.items) THEN <<>> ELSE One(w.items[i]) \o All(i + 1)
  IN All(1)

WorldKind(p, w) ==
  LET its == WorldItems(p, w)
      side(d) == {its[i] : i \in {j \in DOMAIN its : its[j].dir = d}}
      fun(S) == [n \in {e.n : e \in S} |-> (CHOOSE e \in S : e.n = n).kind]
  IN [c |-> "comp", im |-> fun(side("import")), ex |-> fun(side("export"))]

(***************************************************************************)
(* Conformance of a component of world a to world b of the same package    *)
(* (C11).  Inside one package equal names denote equal declarations, so    *)
(* conformance is a matter of names: everything a imports -- explicitly or *)
(* because an interface it imports or exports `use`s it -- is imported by  *)
(* b, and a exports everything b exports.                                  *)
(***************************************************************************)
UsesOfIface(p, n) == {x.from : x \in {y \in Range(IfaceOf(p, n).items) : y.k = "use"}}
RECURSIVE UseClosure(_, _)
UseClosure(p, S) == LET T == S \cup UNION {UsesOfIface(p, n) : n \in S} IN IF T = S THEN S ELSE UseClosure(p, T)

RECURSIVE FlatWorldItems(_, _)
\* the items of a world with includes expanded: set of [k, form, name (after renames), iface]
FlatWorldItems(p, w) ==
  UNION {LET x == w.items[i] IN
         IF x.k = "include"
         THEN LET Ren(n) == IF \E j \in DOMAIN x.with : x.with[j].from = n
                            THEN x.with[CHOOSE j \in DOMAIN x.with : x.with[j].from = n].to ELSE n
              IN {[y EXCEPT !.name = Ren(y.name)] : y \in FlatWorldItems(p, WorldOf(p, x.world))}
         ELSE {[k |-> x.k, form |-> x.form,
                name |-> IF x.form = "iface" THEN D_Path[<<p.id, x.iface>>] ELSE x.name,
                iface |-> IF x.form = "iface" THEN x.iface ELSE ""]}
         : i \in DOMAIN w.items}

AllImportNames(p, w) ==
  LET its == FlatWorldItems(p, w)
      imported == {x.iface : x \in {y \in its : y.k = "import" /\ y.form = "iface"}}
      exported == {x.iface : x \in {y \in its : y.k = "export" /\ y.form = "iface"}}
      \* what exported interfaces use and the world does not export must be imported
      viaExports == UNION {UsesOfIface(p, n) : n \in exported} \ exported
  IN {x.name : x \in {y \in its : y.k = "import"}}
     \cup {D_Path[<<p.id, n>>] : n \in UseClosure(p, imported \cup viaExports)}
ExportNames(p, w) == {x.name : x \in {y \in FlatWorldItems(p, w) : y.k = "export"}}
ConformsTo(p, a, b) == AllImportNames(p, a) \subseteq AllImportNames(p, b) /\ ExportNames(p, b) \subseteq ExportNames(p, a)
\* conformance is reflexive and transitive
ConformanceLaws(p) ==
  /\ \A a \in Range(p.worlds) : ConformsTo(p, a, a)
  /\ \A a, b, c \in Range(p.worlds) : ConformsTo(p, a, b) /\ ConformsTo(p, b, c) => ConformsTo(p, a, c)

(***************************************************************************)
(* Laws of the elaboration (checked by TLC for every package).             *)
(***************************************************************************)
\* every type name an item mentions is declared in its scope, and `use` chains end in a declaration
RECURSIVE Mentions(_)
Mentions(ty) ==
  CASE ty.c \in {"ref", "borrow"} -> {ty.n}
    [] ty.c \in {"list", "option"} -> Mentions(ty.e)
    [] ty.c = "result" -> Mentions(ty.ok) \cup Mentions(ty.err)
    [] ty.c = "tuple" -> UNION {Mentions(ty.es[i]) : i \in DOMAIN ty.es}
    [] ty.c = "record" -> UNION {Mentions(ty.fs[i].v) : i \in DOMAIN ty.fs}
    [] ty.c = "variant" -> UNION {Mentions(ty.cs[i].v) : i \in DOMAIN ty.cs}
    [] OTHER -> {}
ItemMentions(it) ==
  CASE it.k = "type" -> Mentions(it.def)
    [] it.k = "func" -> UNION {Mentions(it.ps[i].v) : i \in DOMAIN it.ps} \cup Mentions(it.r)
    [] it.k = "res" -> UNION {UNION {Mentions(it.funcs[i].ps[j].v) : j \in DOMAIN it.funcs[i].ps} \cup Mentions(it.funcs[i].r) : i \in DOMAIN it.funcs}
    [] OTHER -> {}
WellScoped(p) ==
  \A i \in Range(p.ifaces) :
    /\ \A x \in Range(i.items) : \A n \in ItemMentions(x) : Declared(i.items, n)
    /\ \A x \in Range(i.items) : x.k = "use" =>
         /\ \E s \in Range(p.ifaces) : s.name = x.from
         /\ \A j \in DOMAIN x.names : Declared(IfaceOf(p, x.from).items, x.names[j].name)
\* a used type is the type it names: the same denotation as in the source interface
UseTransparent(p) ==
  \A i \in Range(p.ifaces) : \A x \in Range(i.items) : x.k = "use" =>
    \A j \in DOMAIN x.names :
      Resolve(p, i.name, i.items, Tag("im", {}), x.names[j].as, "resource")
        = Resolve(p, x.from, IfaceOf(p, x.from).items, Tag("im", {}), x.names[j].name, "resource")
\* include copies every item of the included world, renamed as `with` says, and nothing else changes
IncludeCopies(p) ==
  \A w \in Range(p.worlds) : \A x \in Range(w.items) : x.k = "include" =>
    LET inner == WorldItems(p, WorldOf(p, x.world))
        outer == WorldItems(p, w)
    IN \A i \in DOMAIN inner : \E o \in DOMAIN outer : outer[o].dir = inner[i].dir /\ outer[o].kind = inner[i].kind

DeclLaws == \A i \in DOMAIN D_Packages : /\ WellScoped(D_Packages[i]) /\ UseTransparent(D_Packages[i])
                                         /\ IncludeCopies(D_Packages[i]) /\ ConformanceLaws(D_Packages[i])
====
