\* quick+thorough: scoped library (a function over a type exported next to it, aliased out of its instance)
CONSTANTS
  LibName = "scoped"
  NodeIds = {1, 2, 3, 4}
  OpKinds = {"import", "instantiate", "alias", "export", "unexport"}
  InitReg = {"pg"}
  DEV_StaleSat = FALSE
  DEV_StaleExports = FALSE
  DEV_DoubleRemove = FALSE
  DEV_UndefDep = TRUE
  DEV_DefRename = TRUE
  DEV_NameCase = FALSE
  DEV_DefLocator = FALSE
  DEV_KindBound = TRUE
  DEV_UnnamedDef = TRUE
  MaxDepth = 6
  FullEvery = 1
SPECIFICATION Spec
VIEW MCView
INVARIANTS NoPanic Consistent QueriesAgree EmitReplay
CONSTRAINT DepthBound
PROPERTIES RefinesAbs
CHECK_DEADLOCK FALSE
