SPECIFICATION Spec
CONSTANTS
  MaxContrib = 2
  Focus <- FocusMain
  DEV_NestedSupertype = FALSE
  DEV_OwnerImportTwice = FALSE
  DEV_OwnerNaming = TRUE
  DEV_WorldMerge = TRUE
INVARIANTS FailsExactly MatchesContract MatchesByKey OneImportPerKey UniqueNames Canonical Satisfies Idempotent
CHECK_DEADLOCK FALSE
