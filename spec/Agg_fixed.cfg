SPECIFICATION Spec
CONSTANTS
  MaxContrib = 2
  Focus <- FocusAll
  DEV_NestedSupertype = FALSE
INVARIANTS FailsExactly MatchesContract UniqueNames Canonical Satisfies Idempotent
CHECK_DEADLOCK FALSE
