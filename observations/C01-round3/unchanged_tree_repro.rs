use wac_graph::{types::Package, CompositionGraph, EncodeOptions, PackageId};
use wasmparser::{Validator, WasmFeatures};
use wit_component::{ComponentEncoder, StringEncoding};
use wit_parser::Resolve;

/// Builds a component (with a dummy core module) from WIT text.
fn wit_component(wit: &str, world: &str) -> Vec<u8> {
    let mut resolve = Resolve::default();
    let id = resolve.push_source("demo.wit", wit).expect("the WIT parses");
    let world = resolve
        .select_world(&[id], Some(world))
        .expect("the world exists");
    let mut module = wit_component::dummy_module(
        &resolve,
        world,
        wit_parser::ManglingAndAbi::Legacy(wit_parser::LiftLowerAbi::Sync),
    );
    wit_component::embed_component_metadata(&mut module, &resolve, world, StringEncoding::default())
        .expect("metadata embeds");
    ComponentEncoder::default()
        .validate(true)
        .module(&module)
        .expect("module is accepted")
        .encode()
        .expect("component encodes")
}

fn register(graph: &mut CompositionGraph, name: &str, bytes: Vec<u8>) -> PackageId {
    let package = Package::from_bytes(name, None, bytes, graph.types_mut()).expect("package decodes");
    graph.register_package(package).expect("package registers")
}

/// Independent validation of encoded bytes.
fn validate(bytes: &[u8]) -> Result<(), String> {
    Validator::new_with_features(WasmFeatures::all())
        .validate_all(bytes)
        .map(|_| ())
        .map_err(|e| e.to_string())
}
use wac_graph::types::{
    DefinedType, FuncType, ItemKind, PrimitiveType, Record, Type, ValueType, Variant,
};

// Reproductions of C01 violations on the UNCHANGED tree (every test below FAILS there).
// Copy to crates/wac-graph/tests/ and run with
//   cargo test -p wac-graph --test unchanged_tree_repro --offline -- --test-threads=1

fn assert_valid(graph: &CompositionGraph, what: &str) {
    for define_components in [true, false] {
        let bytes = graph
            .encode(EncodeOptions {
                define_components,
                validate: false,
                processor: None,
            })
            .unwrap_or_else(|e| {
                panic!("{what}: encode failed (define_components={define_components}): {e:?}")
            });
        if let Err(e) = validate(&bytes) {
            panic!("{what}: invalid component (define_components={define_components}): {e}");
        }
    }
}

const PROVIDER: &str = "package test:p;
    interface x { record rec { a: u32 } f: func(q: rec) -> rec; }
    world w { export x; }";

/// V1: a function of an exported (nested) instance is exported from the
/// composition while the instance itself is not exported (or only later).
#[test]
fn v1_export_function_of_nested_instance() {
    let mut graph = CompositionGraph::new();
    let p = register(&mut graph, "test:p", wit_component(PROVIDER, "w"));
    let pi = graph.instantiate(p);
    let x = graph.alias_instance_export(pi, "test:p/x").unwrap();
    let f = graph.alias_instance_export(x, "f").unwrap();
    graph.export(f, "f2").unwrap();
    // observed: "func not valid to be used as export"
    assert_valid(&graph, "export of x.f");
}

/// V1b: the same with the instance exported *after* the function (exporting
/// the instance *before* the function gives a valid component).
#[test]
fn v1b_export_function_before_its_instance() {
    let mut graph = CompositionGraph::new();
    let p = register(&mut graph, "test:p", wit_component(PROVIDER, "w"));
    let pi = graph.instantiate(p);
    let x = graph.alias_instance_export(pi, "test:p/x").unwrap();
    let f = graph.alias_instance_export(x, "f").unwrap();
    graph.export(f, "f2").unwrap();
    graph.export(x, "test:p/x").unwrap();
    assert_valid(&graph, "export of x.f, then of x");
}

/// V1c: exporting the record type the function uses does not help either.
#[test]
fn v1c_export_type_then_function_of_nested_instance() {
    let mut graph = CompositionGraph::new();
    let p = register(&mut graph, "test:p", wit_component(PROVIDER, "w"));
    let pi = graph.instantiate(p);
    let x = graph.alias_instance_export(pi, "test:p/x").unwrap();
    let rec = graph.alias_instance_export(x, "rec").unwrap();
    graph.export(rec, "rec").unwrap();
    let f = graph.alias_instance_export(x, "f").unwrap();
    graph.export(f, "f2").unwrap();
    assert_valid(&graph, "export of x.rec, then of x.f");
}

/// V2: an explicit import of a function whose parameter is a record; the
/// record is imported later (or not at all).  Importing `rec` *first* is fine.
#[test]
fn v2_import_function_with_record_parameter() {
    let mut graph = CompositionGraph::new();
    let p = register(&mut graph, "test:p", wit_component(PROVIDER, "w"));
    let ItemKind::Instance(x) = graph.types()[graph[p].ty()].exports["test:p/x"] else {
        panic!()
    };
    let f = graph.types()[x].exports["f"];
    let rec = graph.types()[x].exports["rec"];
    graph.import("f", f).unwrap();
    graph.import("rec", rec).unwrap();
    // observed: "func not valid to be used as import"
    assert_valid(&graph, "import f, then rec");
}

/// V2b: an imported function that uses types *defined* (and exported) by the
/// graph: the imports are emitted before the definitions.
#[test]
fn v2b_import_function_using_defined_types() {
    let mut graph = CompositionGraph::new();
    let rec = graph.types_mut().add_defined_type(DefinedType::Record(Record {
        fields: [("a".to_string(), ValueType::Primitive(PrimitiveType::U32))]
            .into_iter()
            .collect(),
    }));
    let func = graph.types_mut().add_func_type(FuncType {
        params: [("p".to_string(), ValueType::Defined(rec))].into_iter().collect(),
        result: None,
        is_async: false,
    });
    graph
        .define_type("r", Type::Value(ValueType::Defined(rec)))
        .unwrap();
    graph.import("imp", ItemKind::Func(func)).unwrap();
    assert_valid(&graph, "define r, import imp: func(p: r)");
}

/// V3: any function type with a `borrow` handle at the top level of the
/// composition panics in the encoder (`assert!(!state.scopes.is_empty())`,
/// encoding.rs `borrow`): a world-level resource with a method ...
#[test]
fn v3_world_level_resource_with_method() {
    let mut graph = CompositionGraph::new();
    let c = register(
        &mut graph,
        "test:c",
        wit_component(
            "package test:c; world c { resource r { m: func(); } export run: func(); }",
            "c",
        ),
    );
    graph.instantiate(c);
    assert_valid(&graph, "instantiation of a world with a resource that has a method");
}

/// ... or a world-level function that borrows a resource used from an interface.
#[test]
fn v3b_world_level_function_borrowing_used_resource() {
    let mut graph = CompositionGraph::new();
    let c = register(
        &mut graph,
        "test:c",
        wit_component(
            "package test:p; interface x { resource r; }
             world c { use x.{r}; import g: func(h: borrow<r>); export run: func(); }",
            "c",
        ),
    );
    graph.instantiate(c);
    assert_valid(&graph, "world-level import g: func(h: borrow<r>)");
}

/// V4: a world-level resource supplied as a (type) argument while the function
/// that uses it stays an implicit import: panic in `own` (encoding.rs,
/// `state.current.resources[..]`: no entry found for key).
#[test]
fn v4_world_level_resource_argument() {
    let mut graph = CompositionGraph::new();
    let c = register(
        &mut graph,
        "test:c",
        wit_component(
            "package test:c; world c { resource r; import f: func(x: r); export run: func(); }",
            "c",
        ),
    );
    let p = register(
        &mut graph,
        "test:p",
        wit_component(
            "package test:p; interface x { resource r; } world w { export x; }",
            "w",
        ),
    );
    let ci = graph.instantiate(c);
    let pi = graph.instantiate(p);
    let x = graph.alias_instance_export(pi, "test:p/x").unwrap();
    let r = graph.alias_instance_export(x, "r").unwrap();
    graph.set_instantiation_argument(ci, "r", r).unwrap();
    assert_valid(&graph, "argument r supplied, f left implicit");
}

/// V5: type definitions whose dependency goes through an anonymous compound
/// type (variant -> list -> record), defined dependent-first: no dependency
/// edge is added (`visit_defined_types` is one level deep), so `v` is
/// emitted before `r` with a local, unnamed copy of the record.
#[test]
fn v5_definitions_in_reverse_order_through_anonymous_list() {
    let mut graph = CompositionGraph::new();
    let rec = graph.types_mut().add_defined_type(DefinedType::Record(Record {
        fields: [("a".to_string(), ValueType::Primitive(PrimitiveType::U32))]
            .into_iter()
            .collect(),
    }));
    let list = graph
        .types_mut()
        .add_defined_type(DefinedType::List(ValueType::Defined(rec)));
    let var = graph.types_mut().add_defined_type(DefinedType::Variant(Variant {
        cases: [
            ("x".to_string(), Some(ValueType::Defined(list))),
            ("y".to_string(), None),
        ]
        .into_iter()
        .collect(),
    }));
    graph
        .define_type("v", Type::Value(ValueType::Defined(var)))
        .unwrap();
    graph
        .define_type("r", Type::Value(ValueType::Defined(rec)))
        .unwrap();
    // observed: "type not valid to be used as export"
    assert_valid(&graph, "define v (variant of list<r>), then r");
}
