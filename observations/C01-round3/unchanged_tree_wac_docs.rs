use wac_graph::EncodeOptions;
use wac_parser::Document;
use wac_resolver::{packages, FileSystemPackageResolver};
use wasmparser::{Validator, WasmFeatures};

fn run(name: &str, source: &str) {
    let document = match Document::parse(source) {
        Ok(d) => d,
        Err(e) => { println!("{name}: PARSE ERROR {e:?}"); return; }
    };
    let resolver = FileSystemPackageResolver::new("/tmp/explore/pkgs", Default::default(), true);
    let pk = match packages(&document) { Ok(p) => p, Err(e) => { println!("{name}: packages error {e:?}"); return; } };
    let pkgs = match resolver.resolve(&pk) { Ok(p) => p, Err(e) => { println!("{name}: resolve pk error {e:?}"); return; } };
    let resolution = match document.resolve(pkgs) {
        Ok(r) => r,
        Err(e) => { println!("{name}: rejected at resolution: {e}"); return; }
    };
    for dc in [true, false] {
        let r = std::panic::catch_unwind(std::panic::AssertUnwindSafe(|| resolution.encode(EncodeOptions { define_components: dc, validate: false, processor: None })));
        match r {
            Err(_) => println!("{name} (dc={dc}): PANIC in encode"),
            Ok(Err(e)) => println!("{name} (dc={dc}): encode error: {e}"),
            Ok(Ok(bytes)) => match Validator::new_with_features(WasmFeatures::all()).validate_all(&bytes) {
                Ok(_) => println!("{name} (dc={dc}): valid"),
                Err(e) => println!("{name} (dc={dc}): INVALID: {e}"),
            },
        }
    }
}

#[test]
fn wac_docs() {
    run("w1 nested func export", r#"package test:comp;
let p = new test:p { ... };
export p["test:p/x"].f as f2;
"#);
    run("w1b nested func export after instance", r#"package test:comp;
let p = new test:p { ... };
export p["test:p/x"];
export p["test:p/x"].f as f2;
"#);
    run("w2 import func using doc type", r#"package test:comp;
record rec { a: u32 }
import f: func(q: rec);
export f as g;
"#);
    run("w2b import func using inline record via interface", r#"package test:comp;
interface i { record rec { a: u32 } f: func(q: rec); }
import x: i;
export x.f as g;
"#);
    run("w3 world resource with method", r#"package test:comp;
let c = new test:wres { ... };
export c.run;
"#);
    run("w4 world-level use", r#"package test:comp;
let c = new test:wuse { ... };
export c.k;
"#);
    run("w5 sibling", r#"package test:comp;
let c = new test:sib { ... };
export c.run;
"#);
    run("w6 wire", r#"package test:comp;
let p = new test:p { ... };
let c = new test:c { x: p["test:p/x"] };
export c.run;
export p["test:p/x"].f;
"#);
    run("w7 func type def + import", r#"package test:comp;
record rec { a: u32 }
type ft = func(q: rec) -> list<rec>;
import f: ft;
let c = new test:f { ... };
export c.run;
"#);
    run("w8 import borrow", r#"package test:comp;
import i: interface { resource r; };
import f: func(a: list<string>) -> option<u32>;
let c = new test:f { h: f };
export c.h2;
export f as f-out;
"#);
    run("w9 import instance by path and pass", r#"package test:comp;
import x: test:p/x;
let c = new test:c { x };
export c.run;
export x.f;
"#);
    run("w10 import as other name with implicit", r#"package test:comp;
import x as other: test:p/x;
let c = new test:c { ... };
export c.run;
export x.f;
"#);
}
