#!/usr/bin/env python3
"""Single source of truth for the graph libraries (universes).

For each library this emits
  spec/Lib_<name>.tla          the TLA+ constants (packages, kinds, names)
  harness/data/<name>.json     the concrete artefacts (WAT text per package, signature table)
so the TLA+ model and the Rust harness can never talk about different libraries.

Kinds are abstract terms:
  ("func", sig)                       sig is a key of SIGS
  ("inst", {export: kind, ...})       instance type (width/depth subtyping)
  ("type", id)                        a type definable with define_type (DEFTYPES)
"""
import json
import re
import os
import sys

ROOT = os.path.dirname(os.path.dirname(os.path.abspath(__file__)))

# function signatures: name -> (wat type, core signature, core body) ; structural string used by the harness
SIGS = {
    "A": {
        "wat": '(func (param "a" u32) (result u32))',
        "core": "(param i32) (result i32)",
        "body": "local.get 0",
        "desc": "(a:u32)->u32",
    },
    "B": {
        "wat": '(func (param "b" u32) (param "c" u32))',
        "core": "(param i32 i32)",
        "body": "",
        "desc": "(b:u32,c:u32)->_",
    },
}


# record types that occur as type *items* (type exports of instances, type imports)
RTYPES = {
    "R": {"wat": '(record (field "f" u32))', "desc": "record{f:u32}"},
}

SIGS["C"] = {
    # never lifted (import positions only): a tuple with an anonymous compound element
    "wat": '(func (param "x" (tuple (list u8) u32)))',
    "core": "(param i32 i32 i32)",
    "body": "",
    "desc": "(x:tuple<list<u8>,u32>)->_",
}


SIGS["D"] = {
    # never lifted (import positions only): a result whose arms are anonymous compound types
    "wat": '(func (result (result (list u8) (error (tuple u32 u32)))))',
    "core": "(result i32)",
    "body": "i32.const 0",
    "desc": "()->result<list<u8>,tuple<u32,u32>>",
}


SIGS["G"] = {
    # a function over the record type its own instance exports as `t` (rendered in place: the parameter
    # and result type is the type export that precedes it)
    "wat": None,
    "scoped": True,
    "core": "(param i32) (result i32)",
    "body": "local.get 0",
    "desc": "(q:record{f:u32})->record{f:u32}",
}


def func(sig):
    return ("func", sig)


def inst(**ex):
    return ("inst", dict(ex))


def inst_d(d):
    return ("inst", dict(d))


fA = func("A")
fB = func("B")


# ---------------------------------------------------------------- TLA+ rendering
def tla_str(s):
    return '"' + s.replace("\\", "\\\\").replace('"', '\\"') + '"'


def tla_fun(d, render):
    if not d:
        return "<<>>"
    return "(" + " @@ ".join(f"{tla_str(k)} :> {render(v)}" for k, v in d.items()) + ")"


def tla_kind(k):
    if k[0] == "func":
        return f'[c |-> "func", sig |-> {tla_str(k[1])}]'
    if k[0] == "inst":
        return f'[c |-> "inst", ex |-> {tla_fun(k[1], tla_kind)}]'
    if k[0] == "type":
        return f'[c |-> "type", id |-> {tla_str(k[1])}]'
    if k[0] == "rtype":
        return f'[c |-> "rtype", desc |-> {tla_str(RTYPES[k[1]]["desc"])}]'
    raise ValueError(k)


def tla_seq(xs, render):
    return "<<" + ", ".join(render(x) for x in xs) + ">>"


def tla_set(xs, render=tla_str):
    return "{" + ", ".join(render(x) for x in xs) + "}"


# ---------------------------------------------------------------- WAT rendering
_tcount = [0]


def wat_type(k):
    """component-level type expression for an import/export ascription"""
    if k[0] == "func":
        return SIGS[k[1]]["wat"]
    if k[0] == "inst":
        parts = []
        last = None
        for n, v in k[1].items():
            if v[0] == "rtype":
                # a type export of an instance type: declare the type, export it by equality
                _tcount[0] += 1
                t = f"$rt{_tcount[0]}"
                last = f"$et{_tcount[0]}"
                parts.append(f'(type {t} {RTYPES[v[1]]["wat"]}) (export "{n}" (type {last} (eq {t})))')
            elif v[0] == "func" and SIGS[v[1]].get("scoped"):
                parts.append(f'(export "{n}" (func (param "q" {last}) (result {last})))')
            else:
                parts.append(f'(export "{n}" {wat_type(v)})')
        return f"(instance {' '.join(parts)})"
    raise ValueError(k)


def wat_import(n, k):
    """one top-level import declaration (a type item needs its type declared first)"""
    if k[0] == "rtype":
        _tcount[0] += 1
        t = f"$rt{_tcount[0]}"
        return f'(type {t} {RTYPES[k[1]]["wat"]}) (import "{n}" (type (eq {t})))'
    if k[0] == "func" and SIGS[k[1]].get("scoped"):
        # at the top level the record type is a type import of its own
        _tcount[0] += 1
        t, e = f"$rt{_tcount[0]}", f"$et{_tcount[0]}"
        return (f'(type {t} {RTYPES["R"]["wat"]}) (import "t-{n}" (type {e} (eq {t}))) '
                f'(import "{n}" (func (param "q" {e}) (result {e})))')
    return f'(import "{n}" {wat_type(k)})'


class WatBuilder:
    """Builds a component that imports PkgImports and exports PkgExports with real definitions."""

    def __init__(self, share_types=False):
        self.lines = []
        self.n = 0
        self.core_done = False
        self.share_types = share_types
        self.sig_types = {}

    def fresh(self, p):
        self.n += 1
        return f"${p}{self.n}"

    def ensure_core(self):
        if self.core_done:
            return
        self.core_done = True
        funcs = " ".join(
            f'(func (export "{s}") {d["core"]} {d["body"]})' for s, d in SIGS.items()
        )
        self.lines.append(f"(core module $m {funcs})")
        self.lines.append("(core instance $ci (instantiate $m))")

    def define(self, k):
        """emit a definition of kind k, return (sort, id)"""
        if k[0] == "func":
            self.ensure_core()
            f = self.fresh("f")
            d = SIGS[k[1]]
            if self.share_types:
                # one type definition per signature: exports of one signature share a type id
                if k[1] not in self.sig_types:
                    t = self.fresh("ft")
                    self.lines.append(f'(type {t} {d["wat"]})')
                    self.sig_types[k[1]] = t
                self.lines.append(f'(func {f} (type {self.sig_types[k[1]]}) (canon lift (core func $ci "{k[1]}")))')
            else:
                self.lines.append(
                    f'(func {f} {d["wat"][6:-1]} (canon lift (core func $ci "{k[1]}")))'
                )
            return ("func", f)
        if k[0] == "inst":
            parts = []
            last_type = None
            for n, v in k[1].items():
                if v[0] == "func" and SIGS[v[1]].get("scoped"):
                    # lifted over the record type defined for the preceding type export
                    self.ensure_core()
                    f = self.fresh("f")
                    self.lines.append(f'(func {f} (param "q" {last_type}) (result {last_type}) (canon lift (core func $ci "{v[1]}")))')
                    parts.append(f'(export "{n}" (func {f}))')
                    continue
                sort, ident = self.define(v)
                if sort == "type":
                    last_type = ident
                parts.append(f'(export "{n}" ({sort} {ident}))')
            i = self.fresh("i")
            self.lines.append(f"(instance {i} {' '.join(parts)})")
            return ("instance", i)
        if k[0] == "rtype":
            t = self.fresh("t")
            self.lines.append(f'(type {t} {RTYPES[k[1]]["wat"]})')
            return ("type", t)
        raise ValueError(k)

    def build(self, imports, exports):
        out = ["(component"]
        for n, k in imports:
            out.append("  " + wat_import(n, k))
        ex = []
        for n, k in exports:
            sort, ident = self.define(k)
            ex.append(f'  (export "{n}" ({sort} {ident}))')
        out += ["  " + l for l in self.lines] + ex + [")"]
        return "\n".join(out)


def kinds_package(kinds):
    """a helper component importing one item of every named kind: gives the harness real ItemKinds"""
    out = ["(component"]
    for name, k in kinds.items():
        out.append("  " + wat_import(f"k-{name.lower()}", k))
    out.append(")")
    return "\n".join(out)


def kind_json(k):
    if k[0] == "func":
        return {"c": "func", "sig": k[1]}
    if k[0] == "inst":
        return {"c": "inst", "ex": {n: kind_json(v) for n, v in k[1].items()}}
    if k[0] == "type":
        return {"c": "type", "id": k[1]}
    if k[0] == "rtype":
        return {"c": "rtype", "desc": RTYPES[k[1]]["desc"]}
    raise ValueError(k)


# ---------------------------------------------------------------- libraries
def lib_core():
    Ix = inst(x=fA)
    Ixy = inst(x=fA, y=fA)
    return {
        "name": "core",
        "pkgs": {
            # two equal-typed imports, two equal-typed exports: swapped wiring stays valid
            "pa": {"name": "test:a", "version": None, "imports": [("f", fA), ("g", fA)], "exports": [("x", fA), ("y", fA)]},
            # instance import (width subtyping), instance export (alias of alias)
            "pb": {"name": "test:b", "version": None, "imports": [("i", Ix)], "exports": [("h", fB), ("j", Ixy)]},
            # same import name as pa at a different type: merge conflict
            "pc": {"name": "test:c", "version": "1.0.0", "imports": [("f", fB)], "exports": [("x", fA)]},
        },
        "kinds": {"fA": fA, "Ixy": Ixy},
        "import_names": ["f", "k", "bad name"],
        "export_names": ["e1", "e2", "bad name"],
        "def_names": ["e1", "t1", "t2", "bad name"],
        "valid_names": ["f", "k", "e1", "e2", "t1", "t2"],
        # definable types: id -> (class, deps)
        "deftypes": {"tb": ("value", []), "td": ("value", ["tb"]), "tc": ("value", ["tb", "td"]), "tr": ("resource", [])},
    }


def lib_ver():
    """versioned interface names on the same / different tracks; overlapping instance requirements"""
    Ix = inst(x=fA)
    Iy = inst(y=fA)
    Ixy = inst(x=fA, y=fA)
    IxB = inst(x=fB)
    return {
        "name": "ver",
        "pkgs": {
            # an unversioned interface name aggregated before the lower member of a track
            "p1": {"name": "test:p1", "version": None, "imports": [("ns:q/plain", Iy), ("ns:p/i@0.2.0", Ix)], "exports": [("o", fA)]},
            "p2": {"name": "test:p2", "version": None, "imports": [("ns:p/i@0.2.1", Iy)], "exports": [("o", fA)]},
            "p3": {"name": "test:p3", "version": None, "imports": [("ns:p/i@0.3.0", Ix), ("ns:p/i@0.2.0", IxB)], "exports": []},
            "p4": {"name": "test:p4", "version": "2.0.0", "imports": [("ns:p/i@1.0.0", Ix), ("ns:p/j@1.1.0", Iy)], "exports": [("ns:p/i@1.2.0", Ixy)]},
            "p5": {"name": "test:p5", "version": None, "imports": [("ns:p/i@1.1.0", Iy), ("ns:p/j@1.0.0", Ix)], "exports": [("ns:p/j@1.0.0", Ixy)]},
        },
        # explicit imports on the track of implicit ones: mergeable (Ix) and not mergeable (IxB)
        "kinds": {"Ix": Ix, "IxB": IxB},
        "import_names": ["ns:p/i@0.2.2", "ns:p/i@1.3.0"],
        "export_names": ["e1"],
        "def_names": [],
        "valid_names": ["ns:p/i@0.2.2", "ns:p/i@1.3.0", "e1"],
        "deftypes": {},
    }


def name_info(n):
    """structured form of an extern name (see spec/Names.tla)"""
    base, ver, pre, build = n, "<<>>", "FALSE", "FALSE"
    if "@" in n:
        base, v = n.rsplit("@", 1)
        if "+" in v:
            v, _ = v.split("+", 1)
            build = "TRUE"
        if "-" in v:
            v, _ = v.split("-", 1)
            pre = "TRUE"
        parts = v.split(".")
        if len(parts) == 3 and all(x.isdigit() for x in parts):
            ver = "<<" + ", ".join(str(int(x)) for x in parts) + ">>"
    # fold: extern names are unique up to ASCII case (a kebab label `FOO` is the label `foo`);
    # cls: "locator" names (url=<..>, hash, locked/unlocked dependency) may only be imported, "kindbound"
    # names ([method]r.m, [constructor]r, [static]r.m) are only valid for functions of a matching shape
    cls = "locator" if re.match(r"^(url|integrity|locked-dep|unlocked-dep|relative-url)=", n) else \
          "kindbound" if n.startswith("[") else "plain"
    return (f"[base |-> {tla_str(base)}, ver |-> {ver}, pre |-> {pre}, build |-> {build}, "
            f"fold |-> {tla_str(n.lower())}, cls |-> {tla_str(cls)}]")


def lib_shape():
    """encode-relevant shapes: an import-less package, a package instantiated several times, type
    items inside instances, a function type with an anonymous compound tuple element"""
    fC = func("C")
    R = ("rtype", "R")
    Ityp = ("inst", {"t": R, "x": fA})
    return {
        "name": "shape",
        "pkgs": {
            "pd": {"name": "test:d", "version": None, "imports": [], "exports": [("x", fA), ("j", Ityp)]},
            "pe": {"name": "test:e", "version": "0.1.0", "imports": [("t", fC), ("i", Ityp), ("f", fA)], "exports": [("h", fB)]},
        },
        "kinds": {"fA": fA, "R": R},
        "import_names": ["k", "r"],
        "export_names": ["e1", "e2"],
        "def_names": [],
        "valid_names": ["k", "r", "e1", "e2"],
        "deftypes": {},
    }


def lib_scoped():
    """a function whose signature mentions a type that is exported next to it: aliased out of its
    instance and exported / imported on its own, the type it mentions is no longer in scope"""
    fG = func("G")
    In = ("inst", {"t": ("rtype", "R"), "g": fG})
    return {
        "name": "scoped",
        "pkgs": {
            "pg": {"name": "test:g", "version": None, "imports": [], "exports": [("n", In), ("x", fA)]},
        },
        "kinds": {"fG": fG, "fA": fA},
        "import_names": ["k"],
        "export_names": ["e1", "e2"],
        "def_names": [],
        "valid_names": ["k", "e1", "e2"],
        "deftypes": {},
    }


def lib_plug():
    """sockets and plugs for C10: overlapping export names, exact and semver-compatible versioned
    names, type-compatible and incompatible same-named items, plugs with no match / own imports"""
    Ix = inst(x=fA)
    Iy = inst(y=fA)
    Ixy = inst(x=fA, y=fA)
    return {
        "name": "plug",
        "pkgs": {
            "s1": {"name": "sock:one", "version": None, "imports": [("a", fA), ("b", fB), ("ns:p/i@0.2.0", Ix)], "exports": [("out", fA)]},
            "s2": {"name": "sock:two", "version": "1.0.0", "imports": [("ns:p/i@0.2.0", Ix), ("ns:p/i@0.2.1", Ix), ("ns:p/j@1.0.0", Iy)], "exports": [("out", fA), ("ns:q/o@1.0.0", Ixy)]},
            # a middleware-shaped socket: imports and exports the same interface name, at a version
            # HIGHER than what the plugs g3 / g4 offer on that track
            "s3": {"name": "sock:three", "version": None, "imports": [("ns:p/i@0.2.5", Ix), ("b", fB)], "exports": [("ns:p/i@0.2.5", Ix), ("out", fA)]},
            "g1": {"name": "plug:g1", "version": None, "imports": [], "exports": [("a", fA)]},
            "g2": {"name": "plug:g2", "version": None, "imports": [], "exports": [("a", fB), ("b", fB)]},
            "g3": {"name": "plug:g3", "version": None, "imports": [], "exports": [("ns:p/i@0.2.1", Ixy)]},
            "g4": {"name": "plug:g4", "version": "0.3.0", "imports": [], "exports": [("ns:p/i@0.2.0", Ix), ("ns:p/j@1.2.0", Ixy)]},
            "g5": {"name": "plug:g5", "version": None, "imports": [("a", fA)], "exports": [("zzz", fA)]},
            "g6": {"name": "plug:g6", "version": None, "imports": [("w", fB)], "exports": [("a", fA)]},
            # a socket with two imports of different shapes on one track: the first one on the track
            # (0.2.0, shape y) is not what g3/g4/g7 offer, the second one (0.2.1, shape x) is
            "s4": {"name": "sock:four", "version": None, "imports": [("ns:p/i@0.2.0", Iy), ("ns:p/i@0.2.1", Ix), ("b", fB)], "exports": [("out", fA)]},
            # ... and one that leaves an interface import on a track a plug also imports from
            "s5": {"name": "sock:five", "version": None, "imports": [("a", fA), ("b", fB), ("ns:p/j@1.0.0", Iy)], "exports": [("out", fA)]},
            "g7": {"name": "plug:g7", "version": None, "imports": [], "exports": [("ns:p/i@0.2.2", Ix)]},
            # plugs with imports of their own: one that clashes with a socket import `b: B`, one on
            # the track of the socket import ns:p/j@1.0.0 at a higher version
            "g8": {"name": "plug:g8", "version": None, "imports": [("b", fA)], "exports": [("a", fA)]},
            "g9": {"name": "plug:g9", "version": None, "imports": [("ns:p/j@1.1.0", Iy)], "exports": [("a", fA)]},
        },
        "kinds": {"fA": fA},
        "import_names": ["k"],
        "export_names": ["e1"],
        "def_names": [],
        "valid_names": ["k", "e1"],
        "deftypes": {},
        "sockets": ["s1", "s2", "s3", "s4", "s5"],
        "plugs": ["g1", "g2", "g3", "g4", "g5", "g6", "g7", "g8", "g9"],
    }


def lib_det():
    """C16: the definable types of spec/MC_Det.tla (a base type with two independent dependants
    and a second-level dependant) plus a package whose instantiation leaves several implicit imports"""
    return {
        "name": "det",
        "pkgs": {
            "pm": {"name": "test:many", "version": None,
                   "imports": [("i1", fA), ("i2", fB), ("i3", fA), ("i4", fB)],
                   "exports": [("o1", fA), ("o2", fA), ("o3", fB), ("o4", fB)]},
        },
        "kinds": {"fA": fA},
        "import_names": ["k1", "k2", "k3"],
        "export_names": ["e1", "e2", "e3", "e4"],
        "def_names": ["t1", "t2", "t3", "t4"],
        "valid_names": ["k1", "k2", "k3", "e1", "e2", "e3", "e4", "t1", "t2", "t3", "t4"],
        "deftypes": {"tb": ("value", []), "td": ("value", ["tb"]), "tx": ("value", ["tb"]), "tc": ("value", ["td"])},
    }


def lib_dup():
    """two semver-compatible versions (and a third, incompatible one) of one package; exports of one
    instance that share a single function type; an import whose result type has anonymous compound arms"""
    fD = func("D")
    return {
        "name": "dup",
        "share_types": True,
        "pkgs": {
            "d1": {"name": "test:dup", "version": "1.0.0", "imports": [], "exports": [("x", fA)]},
            "d2": {"name": "test:dup", "version": "1.1.0", "imports": [], "exports": [("x", fA), ("y", fA)]},
            # (different bytes from d1: embedded components are recognised by their content)
            "d3": {"name": "test:dup", "version": "2.0.0", "imports": [], "exports": [("x", fB)]},
            # versions that differ from a release in the pre-release part only (different bytes again)
            "d4": {"name": "test:dup", "version": "2.0.0-rc.1", "imports": [], "exports": [("x", fB), ("z", fB)]},
            "dc": {"name": "test:user", "version": None, "imports": [("a", fA), ("b", fA), ("r", fD)], "exports": [("o", fA)]},
        },
        "kinds": {"fA": fA},
        "import_names": ["k"],
        "export_names": ["e1", "e2"],
        "def_names": [],
        "valid_names": ["k", "e1", "e2"],
        "deftypes": {},
    }


def lib_extern():
    """extern names: names that differ in case only (a kebab label may be written in upper case and still
    is the same label), locator names (importable, not exportable) and a name bound to a kind of item"""
    return {
        "name": "extern",
        "pkgs": {
            "pa": {"name": "test:pa", "version": None, "imports": [("k", fA)], "exports": [("out", fA)]},
        },
        "kinds": {"fA": fA},
        "import_names": ["k", "K", "url=<https://x>", "[method]r.m"],
        "export_names": ["e1", "E1", "url=<https://x>"],
        "def_names": ["t1", "T1", "E1", "url=<https://x>"],
        "valid_names": ["k", "K", "e1", "E1", "t1", "T1", "url=<https://x>", "[method]r.m"],
        # tw: the world type of a registered package (a type without an id of its own)
        "deftypes": {"tb": ("value", []), "td": ("value", ["tb"]), "tw": ("world", [])},
    }


def lib_ver2():
    """four users of one compatibility track: two of them under the same lower name with different
    exports, one under a higher version, one under that version with build metadata"""
    return {
        "name": "ver2",
        "pkgs": {
            "q1": {"name": "test:q1", "version": None, "imports": [("ns:p/i@0.2.0", inst(x=fA))], "exports": [("o", fA)]},
            "q2": {"name": "test:q2", "version": None, "imports": [("ns:p/i@0.2.1", inst(y=fA))], "exports": [("o", fA)]},
            "q3": {"name": "test:q3", "version": None, "imports": [("ns:p/i@0.2.0", inst(z=fB))], "exports": [("o", fA)]},
            "q4": {"name": "test:q4", "version": None, "imports": [("ns:p/i@0.2.1+b2", inst(w=fA))], "exports": [("o", fA)]},
            # versions whose numeric order is not their textual order
            "q5": {"name": "test:q5", "version": None, "imports": [("ns:p/j@0.2.9", inst(x=fA))], "exports": [("o", fA)]},
            "q6": {"name": "test:q6", "version": None, "imports": [("ns:p/j@0.2.10", inst(y=fA))], "exports": [("o", fA)]},
        },
        "kinds": {"fA": fA},
        "import_names": ["k"],
        "export_names": ["e1"],
        "def_names": [],
        "valid_names": ["k", "e1"],
        "deftypes": {},
    }


def lib_wac():
    """C04: packages whose import/export names mix plain names, interface paths with and without
    versions, and ambiguous / unambiguous last segments (see lib/universe_wac.py for the programs)"""
    Ii = inst(x=fA)
    Ik = inst(y=fB)
    return {
        "name": "wac",
        "pkgs": {
            # provider: `.i` and `.k` are unambiguous last segments, `.j` is ambiguous
            "wp": {"name": "test:prov", "version": None, "imports": [],
                   "exports": [("f", fA), ("ns:p/i", Ii), ("ns:p/k@1.0.0", Ik), ("ns:q/j", Ii), ("ns:r/j", Ik), ("g", fB), ("h", Ii)]},
            # an import named like a plain export of the provider next to a path ending in `/i`
            "wt": {"name": "test:tgt", "version": None, "imports": [("h", Ii), ("ns:p/i", Ii)], "exports": [("run", fA)]},
            # import names of the url / locked-dep forms: an `@` before the last `/`
            "wo": {"name": "test:odd", "version": None,
                   "imports": [("url=<https://user@example.com/dep>", fA), ("locked-dep=<foo:dep@1.0.0>,integrity=<sha256-q/8=>", fA)],
                   "exports": [("run", fA)]},
            # C11: imports a lower version than the target world of package ns:v@1.2.0 offers
            "wv": {"name": "test:vcons", "version": None, "imports": [("ns:v/i@1.0.0", Ii)], "exports": [("run", fA)]},
            "wc": {"name": "test:cons", "version": None,
                   "imports": [("f", fA), ("ns:p/i", Ii), ("ns:p/k@1.0.0", Ik)], "exports": [("run", fA), ("ns:p/out", Ii)]},
            # two imports end in `/i`
            "wa": {"name": "test:amb", "version": None,
                   "imports": [("ns:p/i", Ii), ("ns:q/i", Ii), ("g", fB)], "exports": [("run", fA)]},
            "wm": {"name": "test:mid", "version": None,
                   "imports": [("ns:p/i", Ii)], "exports": [("ns:p/k@1.0.0", Ik), ("f", fA)]},
        },
        # Ixz / I0: what target worlds ask of the export `h` (wider / narrower than the provider's {x})
        "kinds": {"fA": fA, "fB": fB, "Ii": Ii, "Ik": Ik, "Ixz": inst(x=fA, z=fA), "I0": inst()},
        "import_names": ["f", "i", "k", "z", "ns:p/i", "ns:v/i@1.2.0", "my-i", "bad name"],
        "export_names": ["run", "r2", "f", "g", "h", "i", "k", "ns:p/i", "ns:p/k@1.0.0", "ns:q/j", "ns:r/j", "ns:p/out", "bad name"],
        "def_names": ["run"],
        "valid_names": ["f", "i", "k", "z", "ns:p/i", "my-i", "run", "r2", "g", "h", "ns:p/k@1.0.0", "ns:q/j", "ns:r/j", "ns:p/out"],
        # `type run = func(..);` in a document: a function *type* under the name of a function export (C11)
        "deftypes": {"tfun": ("value", [])},
    }


LIBS = {"core": lib_core, "ver": lib_ver, "shape": lib_shape, "plug": lib_plug, "det": lib_det, "wac": lib_wac, "dup": lib_dup, "ver2": lib_ver2, "extern": lib_extern, "scoped": lib_scoped}


def emit(lib):
    name = lib["name"]
    pk = lib["pkgs"]
    t = []
    t.append(f"---- MODULE Lib_{name} ----")
    t.append("\\* GENERATED by lib/universe.py -- do not edit")
    t.append("EXTENDS TLC")
    t.append(f"L_{name}_Pkgs == {tla_set(pk.keys())}")
    def key(p):
        return p["name"] + ("@" + p["version"] if p["version"] else "")
    t.append(f"L_{name}_PkgKey == " + tla_fun({k: key(v) for k, v in pk.items()}, tla_str))
    rend_item = lambda it: f"[n |-> {tla_str(it[0])}, k |-> {tla_kind(it[1])}]"
    t.append(f"L_{name}_PkgImports == " + tla_fun({k: v["imports"] for k, v in pk.items()}, lambda xs: tla_seq(xs, rend_item)))
    t.append(f"L_{name}_PkgExports == " + tla_fun({k: v["exports"] for k, v in pk.items()}, lambda xs: tla_seq(xs, rend_item)))
    t.append(f"L_{name}_Kinds == " + tla_fun(lib["kinds"], tla_kind))
    t.append(f"L_{name}_ImportNames == {tla_set(lib['import_names'])}")
    t.append(f"L_{name}_ExportNames == {tla_set(lib['export_names'])}")
    t.append(f"L_{name}_DefNames == {tla_set(lib['def_names'])}")
    t.append(f"L_{name}_ValidNames == {tla_set(lib['valid_names'])}")
    t.append(f"L_{name}_DefClass == " + tla_fun({k: v[0] for k, v in lib["deftypes"].items()}, tla_str))
    allnames = set(lib["import_names"]) | set(lib["export_names"]) | set(lib["def_names"])
    for v in pk.values():
        allnames |= {n for n, _ in v["imports"]} | {n for n, _ in v["exports"]}
    t.append(f"L_{name}_NameInfo == " + tla_fun({n: name_info(n) for n in sorted(allnames)}, lambda x: x))
    t.append(f"L_{name}_DefDeps == " + tla_fun({k: v[1] for k, v in lib["deftypes"].items()}, lambda xs: tla_set(xs)))
    t.append(f"L_{name}_Sockets == {tla_set(lib.get('sockets', []))}")
    t.append(f"L_{name}_Plugs == {tla_set(lib.get('plugs', []))}")
    t.append("====")
    with open(os.path.join(ROOT, "spec", f"Lib_{name}.tla"), "w") as f:
        f.write("\n".join(t) + "\n")

    data = {
        "name": name,
        "sigs": {s: d["desc"] for s, d in SIGS.items()},
        "pkgs": {
            k: {
                "name": v["name"],
                "version": v["version"],
                "wat": WatBuilder(share_types=lib.get("share_types", False)).build(v["imports"], v["exports"]),
                "imports": [[n, kind_json(kk)] for n, kk in v["imports"]],
                "exports": [[n, kind_json(kk)] for n, kk in v["exports"]],
            }
            for k, v in pk.items()
        },
        "kinds": {k: kind_json(v) for k, v in lib["kinds"].items()},
        "kinds_wat": kinds_package(lib["kinds"]),
        "sockets": lib.get("sockets", []),
        "plugs": lib.get("plugs", []),
        "names": {"import": lib["import_names"], "export": lib["export_names"], "def": lib["def_names"]},
        "deftypes": {k: {"class": v[0], "deps": v[1]} for k, v in lib["deftypes"].items()},
    }
    os.makedirs(os.path.join(ROOT, "harness", "data"), exist_ok=True)
    with open(os.path.join(ROOT, "harness", "data", f"{name}.json"), "w") as f:
        json.dump(data, f, indent=1, sort_keys=True)
        f.write("\n")


def emit_table():
    """spec/Libs.tla: every library in one table, selected by the LibName constant of a model.
    (TLC re-evaluates a definition reached through a cfg override `C <- Def` on every reference;
    a table looked up from a constant-level definition is evaluated once.)"""
    fields = ["Pkgs", "PkgKey", "PkgImports", "PkgExports", "Kinds", "ImportNames", "ExportNames",
              "DefNames", "ValidNames", "DefClass", "DefDeps", "NameInfo", "Sockets", "Plugs"]
    t = ["---- MODULE Libs ----", "\\* GENERATED by lib/universe.py -- do not edit",
         "EXTENDS TLC, " + ", ".join(f"Lib_{n}" for n in LIBS)]
    rows = []
    for n in LIBS:
        rows.append(f'"{n}" :> [' + ", ".join(f"{f} |-> L_{n}_{f}" for f in fields) + "]")
    t.append("LibTable == (" + "\n          @@ ".join(rows) + ")")
    t.append("====")
    with open(os.path.join(ROOT, "spec", "Libs.tla"), "w") as f:
        f.write("\n".join(t) + "\n")


if __name__ == "__main__":
    for n in sys.argv[1:] or LIBS.keys():
        emit(LIBS[n]())
    emit_table()
