#!/usr/bin/env python3
"""Resource universe for C07's resource clause: providers (components that define resources and export
instances over them) and consumers (components importing instances over resources).

Emits spec/Lib_res.tla (RS_Providers, RS_Consumers) and harness/data/res.json (one WAT component per side)
from the same terms.

  side   = [iface, ...] in declaration order
  iface  = {"name": str, "res": {local: origin}, "fns": {fname: (local, mode)}}
  origin = ("self",) | (iface name, resource name)       -- `use` of an earlier interface's resource
  mode   = "own" | "borrow"
"""
import itertools
import json
import os
import sys

sys.path.insert(0, os.path.dirname(os.path.abspath(__file__)))
from universe import tla_str  # noqa: E402

ROOT = os.path.dirname(os.path.dirname(os.path.abspath(__file__)))
TYPES, OTHER, API, API2 = "ns:r/types", "ns:r/other", "ns:r/api", "ns:r/api2"
SELF = ("self",)


def sides():
    """the shape space, shared by providers and consumers"""
    out = []
    for has_other in (False, True):
        origins = [(TYPES, "res"), SELF, (TYPES, "res2")] + ([(OTHER, "res")] if has_other else [])
        origins2 = [None, (TYPES, "res"), SELF] + ([(OTHER, "res")] if has_other else [])
        for o, mode, o2 in itertools.product(origins, ("own", "borrow"), origins2):
            if mode == "borrow" and o2 is not None and o2 != (TYPES, "res"):
                continue  # keep the space small: the second user varies only next to an owning first user
            s = [{"name": TYPES, "res": {"res": SELF, "res2": SELF}, "fns": {}}]
            if has_other:
                s.append({"name": OTHER, "res": {"res": SELF}, "fns": {}})
            s.append({"name": API, "res": {"res": o}, "fns": {"take": ("res", mode)}})
            if o2 is not None:
                s.append({"name": API2, "res": {"res": o2}, "fns": {"give": ("res", "own")}})
            out.append(s)
    # without the types interface: the user defines its resource itself
    out.append([{"name": API, "res": {"res": SELF}, "fns": {"take": ("res", "own")}}])
    out.append([{"name": API, "res": {"res": SELF}, "fns": {"take": ("res", "own")}},
                {"name": API2, "res": {"res": (API, "res")}, "fns": {"give": ("res", "own")}}])
    for i, s in enumerate(out):
        for f in s:
            f["id"] = i + 1
    return out


# ------------------------------------------------------------------ TLA+
def tla_fun(d, render):
    if not d:
        return "<<>>"
    return "(" + " @@ ".join(f"{tla_str(k)} :> {render(v)}" for k, v in d.items()) + ")"


def tla_origin(o):
    return '<<"self", "self">>' if o == SELF else f"<<{tla_str(o[0])}, {tla_str(o[1])}>>"


def tla_side(s):
    ifs = ", ".join(
        f'[name |-> {tla_str(f["name"])}, res |-> {tla_fun(f["res"], tla_origin)}, '
        f'fns |-> {tla_fun(f["fns"], lambda v: "[res |-> %s, mode |-> %s]" % (tla_str(v[0]), tla_str(v[1])))}]'
        for f in s)
    return f"<<{ifs}>>"


# ------------------------------------------------------------------ WAT
def ident(name, local):
    return "$" + name.split("/")[1] + "_" + local


def consumer_wat(s):
    lines = []
    for f in s:
        inst = "$" + f["name"].split("/")[1]
        body = []
        local = {}
        for r, o in f["res"].items():
            if o == SELF:
                body.append(f'(export "{r}" (type $l_{r} (sub resource)))')
            else:
                body.append(f"(alias outer 1 {ident(*o)} (type $o_{r}))")
                body.append(f'(export "{r}" (type $l_{r} (eq $o_{r})))')
            local[r] = f"$l_{r}"
        for n, (r, mode) in f["fns"].items():
            body.append(f"(type $h_{n} ({mode} {local[r]}))")
            body.append(f'(export "{n}" (func (param "x" $h_{n})))')
        lines.append(f'(import "{f["name"]}" (instance {inst} {" ".join(body)}))')
        for r in f["res"]:
            lines.append(f'(alias export {inst} "{r}" (type {ident(f["name"], r)}))')
    return "(component\n  " + "\n  ".join(lines) + "\n)"


def provider_wat(s):
    """resources are defined in the component; every function is lifted from a core function taking the handle"""
    lines = ['(core module $m (func (export "f") (param i32)))', "(core instance $ci (instantiate $m))"]
    defs = {}      # (iface, local) -> type index name of the resource it denotes

    def resolve(f, r):
        o = f["res"][r]
        return (f["name"], r) if o == SELF else o

    byname = {f["name"]: f for f in s}
    for f in s:
        for r in f["res"]:
            i, rr = f["name"], r
            while byname[i]["res"][rr] != SELF:
                i, rr = byname[i]["res"][rr]
            if (i, rr) not in defs:
                defs[(i, rr)] = f"$d_{i.split('/')[1]}_{rr}"
                lines.append(f"(type {defs[(i, rr)]} (resource (rep i32)))")
            defs[(f["name"], r)] = defs[(i, rr)]
    for f in s:
        inst = "$" + f["name"].split("/")[1]
        body = [f'(export "{r}" (type {defs[(f["name"], r)]}))' for r in f["res"]]
        for n, (r, mode) in f["fns"].items():
            fn = f"$f_{f['name'].split('/')[1]}_{n}"
            lines.append(f'(func {fn} (param "x" ({mode} {defs[(f["name"], r)]})) (canon lift (core func $ci "f")))')
            body.append(f'(export "{n}" (func {fn}))')
        lines.append(f'(instance {inst} {" ".join(body)})')
        lines.append(f'(export "{f["name"]}" (instance {inst}))')
    return "(component\n  " + "\n  ".join(lines) + "\n)"


def emit():
    ss = sides()
    t = ["---- MODULE Lib_res ----", "\\* GENERATED by lib/universe_res.py -- do not edit", "EXTENDS TLC", "",
         "RS_Sides == <<\n  " + ",\n  ".join(tla_side(s) for s in ss) + ">>", "===="]
    with open(os.path.join(ROOT, "spec", "Lib_res.tla"), "w") as f:
        f.write("\n".join(t) + "\n")
    data = {"sides": [{"id": i + 1, "provider": provider_wat(s), "consumer": consumer_wat(s),
                       "imports": [f["name"] for f in s]} for i, s in enumerate(ss)]}
    with open(os.path.join(ROOT, "harness", "data", "res.json"), "w") as f:
        json.dump(data, f, indent=1)
        f.write("\n")
    return len(ss)


if __name__ == "__main__":
    print(emit(), "sides")
