#!/usr/bin/env python3
"""Type universe for C07 (subtype checking) and C09 (aggregation).

Kinds are terms; the same term is rendered (a) as a TLA+ record for spec/Lib_types.tla and (b) as a
WAT import declaration for the harness (harness/data/types.json), so the TLA+ relation, wac's
SubtypeChecker and wasmparser's is_subtype_of are all asked about the same types.

  value types  ("prim", p) ("list", v) ("option", v) ("result", ok|None, err|None) ("tuple", [v..])
               ("record", [(n, v)..]) ("variant", [(n, v|None)..]) ("enum", [n..]) ("flags", [n..])
  items        ("fn", [(n, v)..], result|None, is_async)
               ("inst", {name: item})   ("comp", {name: item}, {name: item})
"""
import itertools
import json
import os

ROOT = os.path.dirname(os.path.dirname(os.path.abspath(__file__)))

U8, STR, U32 = ("prim", "u8"), ("prim", "string"), ("prim", "u32")


def values_depth1():
    p, q = U8, STR
    return [
        p, q, U32,
        ("list", p), ("list", q), ("option", p), ("option", q),
        ("result", p, None), ("result", None, p), ("result", p, q), ("result", q, p), ("result", None, None),
        ("tuple", [p]), ("tuple", [p, q]), ("tuple", [q, p]), ("tuple", [p, q, p]),
        ("record", [("a", p)]), ("record", [("a", p), ("b", q)]), ("record", [("b", p)]), ("record", [("a", q)]),
        ("record", [("b", q), ("a", p)]),
        ("variant", [("a", None), ("b", p)]), ("variant", [("a", None), ("b", None)]), ("variant", [("a", None), ("c", p)]),
        ("variant", [("a", p), ("b", p)]), ("variant", [("a", None)]),
        ("enum", ["a", "b"]), ("enum", ["a", "c"]), ("enum", ["a"]), ("enum", ["b", "a"]),
        ("flags", ["a", "b"]), ("flags", ["a"]), ("flags", ["b", "a"]),
    ]


def values_depth2():
    inner = [("list", U8), ("option", STR), ("record", [("a", U8)]), ("record", [("a", STR)]), ("tuple", [U8, STR]),
             ("variant", [("a", None), ("b", U8)]), ("enum", ["a", "b"])]
    out = []
    for v in inner:
        out += [("list", v), ("option", v), ("result", v, None), ("tuple", [v, U8]), ("record", [("f", v)])]
    return out


def funcs():
    vs = values_depth1()
    out = [("fn", [], None, False), ("fn", [], None, True), ("fn", [], U8, False), ("fn", [], STR, False),
           ("fn", [("a", U8)], None, False), ("fn", [("b", U8)], None, False), ("fn", [("a", STR)], None, False),
           ("fn", [("a", U8), ("b", STR)], None, False), ("fn", [("b", STR), ("a", U8)], None, False),
           ("fn", [("a", U8)], U8, False), ("fn", [("a", U8)], U8, True)]
    for v in vs[3:]:
        out.append(("fn", [("p", v)], None, False))
    for v in values_depth2()[::3]:
        out.append(("fn", [("p", v)], v, False))
    return out


def instances():
    f0, f1, f2 = ("fn", [], None, False), ("fn", [("a", U8)], None, False), ("fn", [], U8, False)
    i_x = ("inst", {"x": f0})
    i_xy = ("inst", {"x": f0, "y": f1})
    return [
        ("inst", {}), i_x, i_xy, ("inst", {"y": f1}), ("inst", {"x": f1}), ("inst", {"x": f2, "y": f1}),
        ("inst", {"n": i_x}), ("inst", {"n": i_xy}), ("inst", {"n": i_x, "x": f0}), ("inst", {"n": ("inst", {})}),
        ("inst", {"x": f0, "y": f1, "z": f2}),
    ]


def components():
    f0, f1 = ("fn", [], None, False), ("fn", [("a", U8)], None, False)
    i_x, i_xy = ("inst", {"x": f0}), ("inst", {"x": f0, "y": f1})
    return [
        ("comp", {}, {}), ("comp", {}, {"e": f0}), ("comp", {"i": f0}, {"e": f0}), ("comp", {"i": f0, "j": f1}, {"e": f0}),
        ("comp", {"i": f1}, {"e": f0}), ("comp", {"i": f0}, {"e": f0, "g": f1}), ("comp", {"i": f0}, {}),
        ("comp", {"i": i_x}, {"e": f0}), ("comp", {"i": i_xy}, {"e": f0}), ("comp", {}, {"e": i_xy}), ("comp", {}, {"e": i_x}),
    ]


def modules():
    """core module types: externs ("cfunc", params, results) ("mem", init, max|-1, shared, m64)
    ("table", elem, init, max|-1) ("global", valtype, mutable); import keys are "module::name" """
    def mem(i, m=-1, shared=False, m64=False):
        return ("mem", i, m, shared, m64)
    f_i32, f_i64, f_r = ("cfunc", ["i32"], []), ("cfunc", ["i64"], []), ("cfunc", [], ["i32"])
    out = [("mod", {}, {})]
    # one memory import / export with every limit relation
    for m in (mem(1), mem(2), mem(1, 4), mem(1, 8), mem(2, 4), mem(1, 4, True), mem(1, 8, True), mem(1, -1, False, True)):
        out.append(("mod", {"m::mem": m}, {}))
        out.append(("mod", {}, {"mem": m}))
    for t in (("table", "funcref", 1, -1), ("table", "funcref", 2, -1), ("table", "funcref", 1, 4), ("table", "funcref", 1, 8),
              ("table", "externref", 1, -1)):
        out.append(("mod", {"m::t": t}, {}))
        out.append(("mod", {}, {"t": t}))
    for g in (("global", "i32", False), ("global", "i32", True), ("global", "i64", False)):
        out.append(("mod", {"m::g": g}, {}))
        out.append(("mod", {}, {"g": g}))
    # functions, width, kind mismatches, both sides at once
    out += [("mod", {"m::f": f_i32}, {}), ("mod", {"m::f": f_i64}, {}), ("mod", {"m::f": f_i32, "m::h": f_r}, {}),
            ("mod", {"n::f": f_i32}, {}), ("mod", {}, {"f": f_i32}), ("mod", {}, {"f": f_i64}), ("mod", {}, {"f": f_i32, "h": f_r}),
            ("mod", {"m::mem": f_i32}, {}), ("mod", {}, {"mem": f_i32}),
            ("mod", {"m::mem": mem(1, 4)}, {"mem": mem(1, 4)}), ("mod", {"m::mem": mem(1, 8)}, {"mem": mem(2, 4)}),
            ("mod", {"m::mem": mem(2, 4)}, {"mem": mem(1, 8)})]
    return out


# ------------------------------------------------------------------ TLA+ rendering
def q(s):
    return '"' + s + '"'


def tla(t):
    if t is None:
        return '[c |-> "none"]'
    c = t[0]
    if c == "prim":
        return f'[c |-> "prim", p |-> {q(t[1])}]'
    if c in ("list", "option"):
        return f'[c |-> {q(c)}, e |-> {tla(t[1])}]'
    if c == "flist":
        return f'[c |-> "flist", e |-> {tla(t[1])}, n |-> {t[2]}]'
    if c == "result":
        return f'[c |-> "result", ok |-> {tla(t[1])}, err |-> {tla(t[2])}]'
    if c == "tuple":
        return '[c |-> "tuple", es |-> <<' + ", ".join(tla(x) for x in t[1]) + ">>]"
    # labels (field, case, flag and parameter names) are kebab labels: `URL` is the label `url`; the
    # specification sees the folded spelling, the WAT rendering keeps the spelling as written
    if c == "record":
        return '[c |-> "record", fs |-> <<' + ", ".join(f"[n |-> {q(n.lower())}, v |-> {tla(v)}]" for n, v in t[1]) + ">>]"
    if c == "variant":
        return '[c |-> "variant", cs |-> <<' + ", ".join(f"[n |-> {q(n.lower())}, v |-> {tla(v)}]" for n, v in t[1]) + ">>]"
    if c in ("enum", "flags"):
        return f'[c |-> {q(c)}, ns |-> <<' + ", ".join(q(n.lower()) for n in t[1]) + ">>]"
    if c == "fn":
        ps = ", ".join(f"[n |-> {q(n.lower())}, v |-> {tla(v)}]" for n, v in t[1])
        return f'[c |-> "fn", ps |-> <<{ps}>>, r |-> {tla(t[2])}, async |-> {"TRUE" if t[3] else "FALSE"}]'
    if c == "inst":
        return '[c |-> "inst", ex |-> ' + fun(t[1]) + "]"
    if c == "tyof":
        return '[c |-> "tyof", t |-> ' + tla(t[1]) + "]"
    if c == "comp":
        return '[c |-> "comp", im |-> ' + fun(t[1]) + ", ex |-> " + fun(t[2]) + "]"
    if c == "mod":
        return '[c |-> "mod", im |-> ' + xfun(t[1]) + ", ex |-> " + xfun(t[2]) + "]"
    raise ValueError(t)


def xtla(x):
    if x[0] == "cfunc":
        return f'[x |-> "cfunc", sig |-> {q(",".join(x[1]) + "->" + ",".join(x[2]))}]'
    if x[0] == "tag":
        return f'[x |-> "tag", sig |-> {q(",".join(x[1]) + "->")}]'
    if x[0] == "mem":
        return f'[x |-> "mem", init |-> {x[1]}, max |-> {x[2]}, shared |-> {"TRUE" if x[3] else "FALSE"}, m64 |-> {"TRUE" if x[4] else "FALSE"}]'
    if x[0] == "table":
        return f'[x |-> "table", elem |-> {q(x[1])}, init |-> {x[2]}, max |-> {x[3]}]'
    return f'[x |-> "global", vt |-> {q(x[1])}, mut |-> {"TRUE" if x[2] else "FALSE"}]'


def xwat(x):
    if x[0] == "cfunc":
        return "(func" + "".join(f" (param {p})" for p in x[1]) + "".join(f" (result {r})" for r in x[2]) + ")"
    if x[0] == "tag":
        return "(tag" + "".join(f" (param {p})" for p in x[1]) + ")"
    if x[0] == "mem":
        return "(memory" + (" i64" if x[4] else "") + f" {x[1]}" + (f" {x[2]}" if x[2] >= 0 else "") + (" shared" if x[3] else "") + ")"
    if x[0] == "table":
        return f"(table {x[2]}" + (f" {x[3]}" if x[3] >= 0 else "") + f" {x[1]})"
    return "(global " + (f"(mut {x[1]})" if x[2] else x[1]) + ")"


def xfun(d):
    if not d:
        return "<<>>"
    return "(" + " @@ ".join(f"{q(k)} :> {xtla(v)}" for k, v in d.items()) + ")"


def fun(d):
    if not d:
        return "<<>>"
    return "(" + " @@ ".join(f"{q(k)} :> {tla(v)}" for k, v in d.items()) + ")"


# ------------------------------------------------------------------ WAT rendering
class Wat:
    """renders an item as import declarations; named value types (record/variant/enum/flags) must be
    type imports declared before their use"""

    def __init__(self, prefix):
        self.prefix = prefix
        self.decls = []
        self.n = 0

    def val(self, v, scope):
        c = v[0]
        if c == "prim":
            return v[1]
        if c in ("list", "option"):
            return f"({c} {self.val(v[1], scope)})"
        if c == "flist":
            return f"(list {self.val(v[1], scope)} {v[2]})"
        if c == "result":
            s = "(result"
            if v[1] is not None:
                s += " " + self.val(v[1], scope)
            if v[2] is not None:
                s += f" (error {self.val(v[2], scope)})"
            return s + ")"
        if c == "tuple":
            return "(tuple " + " ".join(self.val(x, scope) for x in v[1]) + ")"
        # named types: declare and import/export with an eq bound
        self.n += 1
        name = f"${self.prefix}t{self.n}"
        if c == "record":
            body = "(record " + " ".join(f'(field "{n}" {self.val(x, scope)})' for n, x in v[1]) + ")"
        elif c == "variant":
            body = "(variant " + " ".join(f'(case "{n}"' + (f" {self.val(x, scope)}" if x is not None else "") + ")" for n, x in v[1]) + ")"
        elif c == "enum":
            body = "(enum " + " ".join(f'"{n}"' for n in v[1]) + ")"
        else:
            body = "(flags " + " ".join(f'"{n}"' for n in v[1]) + ")"
        scope.append((name, body))
        return name

    def item_type(self, t, scope):
        c = t[0]
        if c == "fn":
            ps = " ".join(f'(param "{n}" {self.val(v, scope)})' for n, v in t[1])
            r = f" (result {self.val(t[2], scope)})" if t[2] is not None else ""
            return f"(func{' async' if t[3] else ''} {ps}{r})"
        if c == "inst":
            return "(instance " + self.body(t[1], "export") + ")"
        if c == "comp":
            return "(component " + self.body(t[1], "import") + " " + self.body(t[2], "export") + ")"
        if c == "mod":
            ims = " ".join('(import "{}" "{}" {})'.format(*k.split("::"), xwat(v)) for k, v in t[1].items())
            exs = " ".join(f'(export "{k}" {xwat(v)})' for k, v in t[2].items())
            return f"(core module {ims} {exs})"
        raise ValueError(t)

    def body(self, d, word):
        """declarations inside an instance/component type: local type decls then the imports/exports"""
        out = []
        for k, v in d.items():
            scope = []
            if v[0] == "tyof":
                # a TYPE export whose type is the given function type (not an item of that type)
                self.n += 1
                raw = f"${self.prefix}f{self.n}"
                out.append(f'(type {raw} {self.item_type(v[1], scope)}) ({word} "{k}" (type (eq {raw})))')
                continue
            ty = self.item_type(v, scope)
            for name, b in scope:
                raw = name + "x"
                out.append(f'(type {raw} {b}) ({"export" if word == "export" else "import"} "t{name[1:]}" (type {name} (eq {raw})))')
            out.append(f'({word} "{k}" {ty})')
        return " ".join(out)

    def top_import(self, name, t):
        scope = []
        if t[0] in ("fn", "inst", "comp", "mod"):
            ty = self.item_type(t, scope)
        else:
            # a bare value type is wrapped as the parameter of a function
            ty = self.item_type(("fn", [("p", t)], None, False), scope)
        out = []
        for n, b in scope:
            raw = n + "x"
            out.append(f'(type {raw} {b}) (import "t{n[1:]}" (type {n} (eq {raw})))')
        out.append(f'(import "{name}" {ty})')
        return "\n  ".join(out)


def emit():
    kinds = []
    # labels that differ in case only (appended: earlier kind numbers are quoted in evidence and seeds)
    case_values = [("record", [("URL", U8)]), ("record", [("url", U8)]), ("variant", [("A", None), ("b", U8)]),
                   ("enum", ["A", "b"]), ("flags", ["a", "B"]), ("record", [("a-URL", U8)]), ("record", [("a-url", U8)])]
    case_funcs = [("fn", [("A", U8)], None, False), ("fn", [("a-URL", STR)], None, False), ("fn", [("a-url", STR)], None, False)]
    # fixed-length lists next to ordinary ones
    flist_values = [("flist", U8, 4), ("flist", U8, 8), ("flist", STR, 4), ("list", ("flist", U8, 4)), ("flist", ("list", U8), 4)]
    # core modules with tags, next to functions of the same name and signature
    tg, fn_ = ("tag", ["i32"]), ("cfunc", ["i32"], [])
    tag_modules = [("mod", {}, {"t": tg}), ("mod", {}, {"t": fn_}), ("mod", {"m::t": tg}, {}), ("mod", {"m::t": fn_}, {}),
                   ("mod", {}, {"t": ("tag", ["i64"])})]
    # a type export whose type is a function type, next to the function export of that type (kinds of the exports differ)
    f0, f1 = ("fn", [], None, False), ("fn", [("a", U8)], None, False)
    type_items = [("inst", {"x": ("tyof", f0)}), ("inst", {"x": ("tyof", f1)}), ("inst", {"x": f0, "y": ("tyof", f1)}),
                  ("comp", {}, {"e": ("tyof", f0)})]
    for cls, items in (("value", values_depth1() + values_depth2()), ("fn", funcs()), ("inst", instances()), ("comp", components()),
                       ("mod", modules()), ("value", case_values), ("fn", case_funcs), ("inst", type_items[:3]), ("comp", type_items[3:]),
                       ("value", flist_values), ("mod", tag_modules)):
        for t in items:
            kinds.append((cls, t))
    t = ["---- MODULE Lib_types ----", "\\* GENERATED by lib/universe_types.py -- do not edit", "EXTENDS TLC, Integers"]
    t.append("T_Kinds == <<" + ",\n  ".join(tla(k if c != "value" else ("fn", [("p", k)], None, False)) for c, k in kinds) + ">>")
    t.append("T_Class == <<" + ", ".join(q(c) for c, _ in kinds) + ">>")
    t.append("====")
    with open(os.path.join(ROOT, "spec", "Lib_types.tla"), "w") as f:
        f.write("\n".join(t) + "\n")
    data = []
    for i, (c, k) in enumerate(kinds):
        data.append({"id": i + 1, "class": c,
                     "wat_a": Wat("a").top_import("a", k), "wat_b": Wat("b").top_import("b", k)})
    with open(os.path.join(ROOT, "harness", "data", "types.json"), "w") as f:
        json.dump(data, f, indent=0)
        f.write("\n")
    return len(kinds)


if __name__ == "__main__":
    print(emit(), "kinds")
