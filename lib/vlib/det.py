"""C16: reproducibility (spec/Det.tla + re-execution with fresh hash keys / fresh processes)."""
import gzip
import json
import os
import subprocess

from .common import (HARNESS, OUT, ToolError, build_harness, ensure_libs, hbin, log, pipe_gz_to, seed,
                     tlc_cached)
from . import graph


def artefacts(tier):
    ensure_libs()
    return tlc_cached("det-fixed", "MC_Det", "Det_fixed.cfg", workers=4, timeout=900)


def detrun(lib, paths, fresh, every=1, hash_out=None):
    cmd = [hbin("detrun"), "--lib", lib, "--data", os.path.join(HARNESS, "data"), "--fresh", str(fresh),
           "--every", str(every)]
    if hash_out:
        cmd += ["--hash-out", hash_out]
    return pipe_gz_to(cmd, paths)


def run_property(prop, tier, report):
    det_path, det_stats = artefacts(tier)
    build_harness()
    quick = tier == "quick"
    ddir = os.path.join(OUT, "det")
    os.makedirs(ddir, exist_ok=True)
    total_lines = 0
    engines = {}
    # 1. the histories the Det model says matter (definition orders), fresh graphs in one process
    f, s = detrun("det", [det_path], fresh=8 if quick else 32)
    report.add_findings(f, "det-spec-histories")
    engines["spec_histories"] = s
    total_lines += s["lines"]
    # 2. random histories over the det library (many same-rank independent nodes)
    hist = os.path.join(ddir, f"rand-{tier}-{seed()}.txt")
    r = subprocess.run([hbin("drive"), "graph-random", "--lib", "det", "--data", os.path.join(HARNESS, "data"),
                        "--seed", str(seed()), "--runs", "60" if quick else "600", "--len", "80",
                        "--max-nodes", "14", "--out", os.path.join(ddir, "trace.ndjson"), "--hist-out", hist],
                       stdout=subprocess.PIPE, stderr=subprocess.PIPE)
    if r.returncode != 0:
        raise ToolError("driver failed: " + r.stderr.decode(errors="replace")[-1500:])
    f, s = detrun("det", [hist], fresh=3 if quick else 8)
    report.add_findings(f, "det-random-histories")
    engines["random_histories"] = s
    total_lines += s["lines"]
    # 3. every state of the graph models (sampled in the quick tier)
    for lib in ["core", "ver", "shape"]:
        cfg = graph.MODELS[(lib, tier)]
        p, st = tlc_cached(f"graph-{lib}-{tier}", "MC_Graph", cfg, workers=12, timeout=3600)
        f, s = detrun(lib, [p], fresh=2, every=5 if quick else 1)
        report.add_findings(f, f"det-model-states-{lib}")
        engines[f"model_states_{lib}"] = s
        total_lines += s["lines"]
    # 4. fresh processes (fresh per-process hash randomisation): digests must agree line by line
    procs = 3 if quick else 8
    digests = []
    for k in range(procs):
        out = os.path.join(ddir, f"hash-{k}.txt")
        detrun("det", [det_path, hist], fresh=0, hash_out=out)
        with open(out) as fh:
            digests.append(fh.read().splitlines())
    mismatches = 0
    for k in range(1, procs):
        for a, b in zip(digests[0], digests[k]):
            if a != b:
                mismatches += 1
                if mismatches <= 5:
                    report.add_findings([{"class": "nondet", "what": "digests differ between two processes",
                                          "process_0": a[:300], f"process_{k}": b[:300]}], "det-processes")
    engines["processes"] = {"processes": procs, "lines_per_process": len(digests[0]), "mismatches": mismatches}
    cov = report.coverage
    cov["states"] = det_stats["distinct"]
    cov["transitions"] = det_stats["generated"]
    cov["traces_validated_against_impl"] = total_lines
    cov["engines"] = engines
    cov["rule"] = ("Det.tla (self-composition over hash iteration orders) is model checked for the repaired edge "
                   "order; every definition history it generates, random histories with many same-rank nodes and "
                   "the states of the graph models are rebuilt on fresh graphs (fresh hash keys), on clones and in "
                   "fresh processes; SHA-256 of both encodings (or of the diagnostic) must be identical")
    with gzip.open(det_path, "rt") as gz:
        cov["samples"] = [graph.tlc_json(next(gz)) for _ in range(3)][1:]
