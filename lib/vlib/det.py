"""C16: reproducibility (spec/Det.tla + re-execution with fresh hash keys / fresh processes)."""
import gzip
import json
import os
import subprocess

from .common import (HARNESS, OUT, ToolError, build_harness, ensure_libs, hbin, log, pipe_gz_to, seed,
                     tlc_cached)
from . import graph


def artefacts(tier):
    ensure_libs()
    return tlc_cached("det-fixed", "MC_Det", "Det_fixed.cfg", workers=4, timeout=900)


def detrun(lib, paths, fresh, every=1, hash_out=None):
    cmd = [hbin("detrun"), "--lib", lib, "--data", os.path.join(HARNESS, "data"), "--fresh", str(fresh),
           "--every", str(every)]
    if hash_out:
        cmd += ["--hash-out", hash_out]
    return pipe_gz_to(cmd, paths)


class _Hist:
    """builds a history with the abstract ids the replay machine assigns (smallest free id)"""

    def __init__(self):
        self.ops, self.live, self.alias = [], set(), {}

    def _new(self):
        i = 1
        while i in self.live:
            i += 1
        self.live.add(i)
        return i

    def op(self, name, n1=0, n2=0, s1="-", s2="-"):
        self.ops.append([name, n1, n2, s1, s2])

    def register(self, p):
        self.op("register", 0, 0, p)

    def instantiate(self, p):
        self.op("instantiate", 0, 0, p)
        return self._new()

    def imp(self, name, kind="fA"):
        self.op("import", 0, 0, name, kind)
        return self._new()

    def define(self, name, t):
        self.op("define_type", 0, 0, name, t)
        return self._new()

    def alias_of(self, n, e):
        self.op("alias", n, 0, e)
        if (n, e) not in self.alias:
            self.alias[(n, e)] = self._new()
        return self.alias[(n, e)]

    def export(self, n, name):
        self.op("export", n, 0, name)

    def remove(self, dead):
        self.op("remove", dead[0])
        self.live -= set(dead)
        self.alias = {k: v for k, v in self.alias.items() if v not in dead and k[0] not in dead}


def directed_histories():
    import itertools
    out = []
    # an instance with three aliases (some exported) is removed, then the slots are reused
    for order in itertools.permutations(["o1", "o2", "o3"]):
        for exported in ([], [0], [0, 1], [0, 1, 2]):
            h = _Hist()
            h.register("pm")
            keep = h.instantiate("pm")
            k4 = h.alias_of(keep, "o4")
            h.export(k4, "e4")
            i = h.instantiate("pm")
            als = [h.alias_of(i, e) for e in order]
            for j in exported:
                h.export(als[j], f"e{j + 1}")
            h.remove([i] + als)
            new = [h.imp("k1"), h.imp("k2"), h.instantiate("pm"), h.imp("k3")]
            for j, n in enumerate(new[:3]):
                if f"e{j + 1}" not in [f"e{x + 1}" for x in []]:
                    h.export(n, f"e{j + 1}")
            out.append(h.ops)
    # two instances, all four aliases exported, one instance removed: the surviving exports keep their order
    for which in (0, 1):
        for order in itertools.permutations([("o1", "e1"), ("o2", "e2"), ("o3", "e3"), ("o4", "e4")]):
            h = _Hist()
            h.register("pm")
            a, b = h.instantiate("pm"), h.instantiate("pm")
            owner = {0: a, 1: a, 2: b, 3: b}
            als = []
            for j, (o, e) in enumerate(order):
                n = h.alias_of(owner[j], o)
                h.export(n, e)
                als.append(n)
            dead = a if which == 0 else b
            h.remove([dead] + [als[j] for j in range(4) if owner[j] == dead])
            h.imp("k1")
            h.imp("k2")
            h.imp("k3")
            out.append(h.ops)
    # a base type with several dependants is removed, then new definitions reuse the slots
    for order in itertools.permutations([("t2", "td"), ("t3", "tx")]):
        h = _Hist()
        b = h.define("t1", "tb")
        deps = [h.define(n, t) for n, t in order]
        c = h.define("t4", "tc")
        h.remove([b] + deps + [c])
        h.define("t1", "tb")
        h.imp("k1")
        h.define("t2", "tx")
        h.imp("k2")
        h.define("t3", "td")
        out.append(h.ops)
    return out


def run_property(prop, tier, report):
    det_path, det_stats = artefacts(tier)
    build_harness()
    quick = tier == "quick"
    ddir = os.path.join(OUT, "det")
    os.makedirs(ddir, exist_ok=True)
    total_lines = 0
    engines = {}
    # 1. the histories the Det model says matter (definition orders), fresh graphs in one process
    f, s = detrun("det", [det_path], fresh=8 if quick else 32)
    report.add_findings(f, "det-spec-histories")
    engines["spec_histories"] = s
    total_lines += s["lines"]
    # 2. random histories over the det library (many same-rank independent nodes)
    hist = os.path.join(ddir, f"rand-{tier}-{seed()}.txt")
    r = subprocess.run([hbin("drive"), "graph-random", "--lib", "det", "--data", os.path.join(HARNESS, "data"),
                        "--seed", str(seed()), "--runs", "60" if quick else "600", "--len", "80",
                        "--max-nodes", "14", "--out", os.path.join(ddir, "trace.ndjson"), "--hist-out", hist],
                       stdout=subprocess.PIPE, stderr=subprocess.PIPE)
    if r.returncode != 0:
        raise ToolError("driver failed: " + r.stderr.decode(errors="replace")[-1500:])
    f, s = detrun("det", [hist], fresh=3 if quick else 8)
    report.add_findings(f, "det-random-histories")
    engines["random_histories"] = s
    total_lines += s["lines"]
    # 2b. histories in which one removal takes several dependants with it (in whatever order the
    # implementation visits them) and the freed slots are then reused by new nodes
    dhist = os.path.join(ddir, f"directed-{tier}.txt")
    with open(dhist, "w") as fh:
        for h in directed_histories():
            fh.write(json.dumps({"hist": h}) + "\n")
    f, s = detrun("det", [dhist], fresh=12 if quick else 40)
    report.add_findings(f, "det-directed-histories")
    engines["directed_histories"] = s
    total_lines += s["lines"]
    # 2c. the front end: documents of the WAC evaluator's program space (spec/Wac.tla), with and without
    # a `targets` clause, resolved and encoded repeatedly in one process and in several processes --
    # same diagnostic (text and labels) or same bytes
    from . import wac as wacmod
    wpath, _ = wacmod.artefacts("quick")
    wd = []
    for k in range(2 if quick else 4):
        f2, s2 = pipe_gz_to([hbin("wacreplay"), "--data", os.path.join(HARNESS, "data"), "--prop", "C16",
                             "--every", "23" if quick else "5"], [wpath], timeout=7200)
        report.add_findings([x for x in f2 if x.get("class") == "nondet"], "det-documents")
        wd.append([(x["doc"], x["digest"]) for x in f2 if "digest" in x])
    bad = 0
    for k in range(1, len(wd)):
        for a, b in zip(wd[0], wd[k]):
            if a != b:
                bad += 1
                if bad <= 5:
                    report.add_findings([{"class": "nondet", "what": "a document's outcome differs between two processes",
                                          "process_0": str(a), f"process_{k}": str(b)}], "det-documents")
    engines["documents"] = {"documents": len(wd[0]), "processes": len(wd), "mismatches": bad}
    total_lines += len(wd[0])
    # 3. every state of the graph models (sampled in the quick tier)
    for lib in ["core", "ver", "shape", "dup"]:
        cfg = graph.MODELS[(lib, tier)]
        p, st = tlc_cached(f"graph-{lib}-{tier}", "MC_Graph", cfg, workers=12, timeout=3600)
        f, s = detrun(lib, [p], fresh=2, every=5 if quick else 1)
        report.add_findings(f, f"det-model-states-{lib}")
        engines[f"model_states_{lib}"] = s
        total_lines += s["lines"]
    # 4. fresh processes (fresh per-process hash randomisation): digests must agree line by line
    procs = 3 if quick else 8
    digests = []
    for k in range(procs):
        out = os.path.join(ddir, f"hash-{k}.txt")
        detrun("det", [det_path, hist], fresh=0, hash_out=out)
        with open(out) as fh:
            digests.append(fh.read().splitlines())
    mismatches = 0
    for k in range(1, procs):
        for a, b in zip(digests[0], digests[k]):
            if a != b:
                mismatches += 1
                if mismatches <= 5:
                    report.add_findings([{"class": "nondet", "what": "digests differ between two processes",
                                          "process_0": a[:300], f"process_{k}": b[:300]}], "det-processes")
    engines["processes"] = {"processes": procs, "lines_per_process": len(digests[0]), "mismatches": mismatches}
    cov = report.coverage
    cov["states"] = det_stats["distinct"]
    cov["transitions"] = det_stats["generated"]
    cov["traces_validated_against_impl"] = total_lines
    cov["engines"] = engines
    cov["rule"] = ("Det.tla (self-composition over hash iteration orders) is model checked for the repaired edge "
                   "order; every definition history it generates, random histories with many same-rank nodes and "
                   "the states of the graph models are rebuilt on fresh graphs (fresh hash keys), on clones and in "
                   "fresh processes; SHA-256 of both encodings (or of the diagnostic) must be identical")
    with gzip.open(det_path, "rt") as gz:
        cov["samples"] = [graph.tlc_json(next(gz)) for _ in range(3)][1:]
