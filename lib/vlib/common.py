"""Shared machinery of the property checks: building, TLC runs (cached), findings, evidence."""
import glob
import gzip
import hashlib
import json
import os
import re
import shutil
import subprocess
import sys
import time

ROOT = os.path.dirname(os.path.dirname(os.path.dirname(os.path.abspath(__file__))))
SPEC = os.path.join(ROOT, "spec")
HARNESS = os.path.join(ROOT, "harness")
OUT = os.path.join(ROOT, "out")
CACHE = os.path.join(OUT, "cache")
EVIDENCE = os.path.join(ROOT, "evidence")
REPO = "/repo"

ENV = dict(os.environ)
ENV.update({"RUST_BACKTRACE": "0", "CARGO_NET_OFFLINE": "true"})


class ToolError(Exception):
    pass


def log(*a):
    print(*a, file=sys.stderr, flush=True)


def seed():
    try:
        return int(os.environ.get("VERIF_SEED", "1"))
    except ValueError:
        return 1


def sh(cmd, timeout=None, cwd=None, stdin=None, check=True, env=None):
    r = subprocess.run(cmd, cwd=cwd, input=stdin, stdout=subprocess.PIPE, stderr=subprocess.PIPE,
                       timeout=timeout, env=env or ENV)
    if check and r.returncode != 0:
        raise ToolError(f"{cmd} failed ({r.returncode}): {r.stderr.decode(errors='replace')[-2000:]}")
    return r


_built = False


def build_harness(bins=None):
    """cargo build --release of the harness against /repo's working tree, hooks on"""
    global _built
    if _built:
        return
    t = time.time()
    r = subprocess.run(["cargo", "build", "--release", "--offline"], cwd=HARNESS, env=ENV,
                       stdout=subprocess.PIPE, stderr=subprocess.STDOUT)
    if r.returncode != 0:
        raise ToolError("harness build failed:\n" + r.stdout.decode(errors="replace")[-4000:])
    log(f"[build] harness built in {time.time() - t:.1f}s")
    _built = True


def hbin(name):
    return os.path.join(HARNESS, "target", "release", name)


def ensure_libs():
    """(re)generate Lib_*.tla and harness/data/*.json from lib/universe.py when missing or stale"""
    src = os.path.join(ROOT, "lib", "universe.py")
    outs = glob.glob(os.path.join(SPEC, "Lib_*.tla")) + glob.glob(os.path.join(HARNESS, "data", "*.json"))
    if not outs or min(os.path.getmtime(o) for o in outs) < os.path.getmtime(src):
        sh([sys.executable, src])


def module_closure(root):
    """the spec modules (files under /verif/spec) a root module depends on through EXTENDS/INSTANCE"""
    seen, todo = [], [root]
    while todo:
        m = todo.pop()
        p = os.path.join(SPEC, m + ".tla")
        if m in seen or not os.path.exists(p):
            continue
        seen.append(m)
        with open(p) as f:
            text = f.read()
        for mm in re.finditer(r"^\s*EXTENDS\s+(.*)$", text, re.M):
            todo += [x.strip() for x in mm.group(1).split(",")]
        for mm in re.finditer(r"INSTANCE\s+(\w+)", text):
            todo.append(mm.group(1))
    return sorted(seen)


def spec_digest(root, extra=()):
    h = hashlib.sha256()
    for p in [os.path.join(SPEC, m + ".tla") for m in module_closure(root)] + sorted(extra):
        h.update(os.path.basename(p).encode())
        with open(p, "rb") as f:
            h.update(f.read())
    return h


TLC_STATS = re.compile(r"(\d+) states generated, (\d+) distinct states found, (\d+) states left on queue")


def tlc_cached(name, module, cfg, workers=12, timeout=3600, simulate=None, tlc_seed=None, keep=("REPLAY",),
               javaopts=None, extra_env=None, extra_args=None, extra_files=None, expect_violation=None):
    """Runs TLC on spec/<module>.tla with spec/<cfg> and caches its stdout (gz) keyed by the
    content of every spec file + cfg + mode (+ the content of extra input files).  Returns (path, stats)."""
    cfgp = os.path.join(SPEC, cfg)
    h = spec_digest(module, [cfgp] + list(extra_files or []))
    h.update(repr((module, simulate, tlc_seed, extra_args,
                   sorted((k, v) for k, v in (extra_env or {}).items() if k != "DOCS_FILE"))).encode())
    key = h.hexdigest()[:24]
    d = os.path.join(CACHE, f"{name}-{key}")
    outp = os.path.join(d, "out.txt.gz")
    statp = os.path.join(d, "stats.json")
    if os.path.exists(statp) and os.path.exists(outp):
        with open(statp) as f:
            return outp, json.load(f)
    os.makedirs(d, exist_ok=True)
    meta = os.path.join(d, "meta")
    cmd = ["timeout", str(timeout), "tlc", "-workers", str(workers), "-metadir", meta, "-cleanup",
           "-noGenerateSpecTE", "-config", cfg]
    if simulate:
        cmd += ["-simulate", simulate]
    if tlc_seed is not None:
        cmd += ["-seed", str(tlc_seed)]
    cmd += list(extra_args or [])
    cmd += [module + ".tla"]
    env = dict(ENV)
    if javaopts:
        env["JAVA_TOOL_OPTIONS"] = javaopts
    env.update(extra_env or {})
    t = time.time()
    log(f"[tlc] {name}: {' '.join(cmd)}")
    p = subprocess.Popen(cmd, cwd=SPEC, env=env, stdout=subprocess.PIPE, stderr=subprocess.STDOUT)
    other = []
    n_kept = 0
    tmp = outp + ".tmp"
    with gzip.open(tmp, "wt", compresslevel=1) as gz:
        for raw in p.stdout:
            line = raw.decode(errors="replace")
            if any(line.startswith(f'<<"{k}"') for k in keep):
                gz.write(line)
                n_kept += 1
            else:
                other.append(line)
    rc = p.wait()
    text = "".join(other)
    import shutil
    shutil.rmtree(meta, ignore_errors=True)
    m = TLC_STATS.search(text)
    stats = {
        "name": name, "module": module, "cfg": cfg, "rc": rc, "wall_s": round(time.time() - t, 1),
        "lines": n_kept,
        "generated": int(m.group(1)) if m else 0,
        "distinct": int(m.group(2)) if m else 0,
        "left": int(m.group(3)) if m else 0,
        "tail": text[-3000:],
    }
    ok = rc == 0 and "Error:" not in text
    if simulate:
        # a simulation run ends by its num= bound (rc 0) or by timeout
        ok = rc in (0,) and "Error:" not in text
    if expect_violation:
        # a demonstration model (code as found before a repair): TLC must find the violation
        ok = (f"Invariant {expect_violation} is violated" in text
              or f"Action property {expect_violation} is violated" in text)
    if not ok:
        os.remove(tmp)
        raise ToolError(f"TLC run {name} failed (rc={rc}):\n{text[-3000:]}")
    os.rename(tmp, outp)
    with open(statp, "w") as f:
        json.dump(stats, f, indent=1)
    log(f"[tlc] {name}: {stats['distinct']} distinct states, {n_kept} lines, {stats['wall_s']}s")
    return outp, stats


def pipe_gz_to(cmd, paths, timeout=3600):
    """streams the (gz) TLC outputs into a harness binary; returns (findings, summary)"""
    import threading
    p = subprocess.Popen(cmd, stdin=subprocess.PIPE, stdout=subprocess.PIPE, stderr=subprocess.PIPE, env=ENV)
    out_chunks, err_chunks = [], []
    t1 = threading.Thread(target=lambda: out_chunks.append(p.stdout.read()))
    t2 = threading.Thread(target=lambda: err_chunks.append(p.stderr.read()))
    t1.start(); t2.start()
    try:
        for path in paths:
            opener = gzip.open if path.endswith(".gz") else open
            with opener(path, "rb") as f:
                while True:
                    chunk = f.read(1 << 20)
                    if not chunk:
                        break
                    p.stdin.write(chunk)
        p.stdin.close()
    except BrokenPipeError:
        pass
    t1.join(); t2.join()
    rc = p.wait()
    if rc != 0:
        raise ToolError(f"{cmd[0]} failed rc={rc}: {err_chunks[0].decode(errors='replace')[-2000:]}")
    findings, summary = [], None
    for line in out_chunks[0].decode().splitlines():
        if not line.strip():
            continue
        r = json.loads(line)
        if r.get("summary"):
            summary = r
        else:
            findings.append(r)
    if summary is None:
        raise ToolError(f"{cmd[0]} produced no summary")
    return findings, summary


def tlc_validate_trace(trace_path, module, cfg, timeout=1200):
    """TLC as trace validator.  Returns (accepted, rejected_at_event_index_or_None, event, states)."""
    env = dict(ENV)
    env["TRACE_FILE"] = trace_path
    env["JAVA_TOOL_OPTIONS"] = "-Xss1g -Dtlc2.tool.queue.IStateQueue=StateDeque"
    meta = os.path.join(OUT, "tlc_trace_meta_%d" % os.getpid())
    cmd = ["timeout", str(timeout), "tlc", "-workers", "1", "-metadir", meta, "-cleanup", "-noGenerateSpecTE",
           "-config", cfg, module + ".tla"]
    r = subprocess.run(cmd, cwd=SPEC, env=env, stdout=subprocess.PIPE, stderr=subprocess.STDOUT)
    import shutil
    shutil.rmtree(meta, ignore_errors=True)
    text = r.stdout.decode(errors="replace")
    m = re.search(r"(\d+) states generated, (\d+) distinct states found", text)
    states = int(m.group(2)) if m else 0
    rej = re.search(r'<<"TRACE-REJECTED", (\d+), "(.*)">>', text)
    if rej:
        ev = rej.group(2).replace('\\"', '"').replace("\\\\", "\\")
        return False, int(rej.group(1)), ev, states
    if "Model checking completed. No error has been found." in text and r.returncode == 0:
        return True, None, None, states
    if "Invariant" in text and "is violated" in text:
        return False, -1, text[-1500:], states
    raise ToolError("trace validation did not complete:\n" + text[-2500:])


def apalache_cached(name, module, obligations, timeout=1800, only_if_cached=False):
    """Discharges proof obligations of spec/<module>.tla with Apalache (bounded symbolic checks used as an
    inductive-invariant proof): obligations = [(label, [apalache-mc check args...])].  The result is cached
    by the content of the module.  Returns {"obligations": [...], "seconds": s} or None (only_if_cached and
    nothing cached).  A failed obligation is a defect of the specification: ToolError."""
    h = spec_digest(module)
    h.update(repr(obligations).encode())
    d = os.path.join(CACHE, f"{name}-{h.hexdigest()[:24]}")
    statp = os.path.join(d, "apalache.json")
    if os.path.exists(statp):
        with open(statp) as f:
            return json.load(f)
    if only_if_cached:
        return None
    os.makedirs(d, exist_ok=True)
    work = os.path.join(d, "work")
    os.makedirs(work, exist_ok=True)
    for m in module_closure(module):
        shutil.copy(os.path.join(SPEC, m + ".tla"), work)
    t = time.time()
    done = []
    for label, args in obligations:
        cmd = ["timeout", str(timeout), "apalache-mc", "check"] + list(args) + [f"--out-dir={os.path.join(work, 'out')}", module + ".tla"]
        log(f"[apalache] {name}: {label}: {' '.join(cmd)}")
        r = subprocess.run(cmd, cwd=work, stdout=subprocess.PIPE, stderr=subprocess.STDOUT, env=ENV)
        text = r.stdout.decode(errors="replace")
        if r.returncode != 0 or "The outcome is: NoError" not in text:
            raise ToolError(f"apalache obligation `{label}` of {module} was not discharged (rc {r.returncode}):\n" + text[-2500:])
        done.append(label)
    shutil.rmtree(work, ignore_errors=True)
    res = {"obligations": done, "seconds": round(time.time() - t, 1)}
    with open(statp, "w") as f:
        json.dump(res, f)
    log(f"[apalache] {name}: {len(done)} obligations discharged in {res['seconds']}s")
    return res


def load_known():
    p = os.path.join(ROOT, "known_findings.json")
    if not os.path.exists(p):
        return {"findings": [], "fixed": []}
    with open(p) as f:
        return json.load(f)


def match_known(prop, finding, known):
    """returns the known-finding entry a finding matches, or None.  An entry matches only on its
    specific shape: finding class, a regex on the message, and the spec-computed state flag."""
    for k in known.get("findings", []):
        if k["property"] != prop:
            continue
        m = k["match"]
        if "class" in m and finding.get("class") not in m["class"]:
            continue
        if "kf" in m and m["kf"] not in (finding.get("kf") or []):
            continue
        if "what" in m and not re.search(m["what"], finding.get("what", "")):
            continue
        if "key" in m and finding.get("key") != m["key"]:
            continue
        return k
    return None


class Report:
    """collects findings of one property check, applies known findings, writes evidence"""

    def __init__(self, prop, tier, level):
        self.prop = prop
        self.tier = tier
        self.level = level
        self.t0 = time.time()
        self.violations = []
        self.known_hits = {}
        self.coverage = {}
        self.assumptions = []
        self.known = load_known()

    def add_findings(self, findings, engine):
        # every raw finding of the run is kept under out/ for inspection (bin/summarize_findings.py)
        os.makedirs(OUT, exist_ok=True)
        with open(os.path.join(OUT, f"findings-{self.prop}.ndjson"), "a" if self.violations or self.known_hits else "w") as fh:
            for f in findings:
                fh.write(json.dumps(dict(f, engine=engine)) + "\n")
        for f in findings:
            f = dict(f)
            f["engine"] = engine
            k = match_known(self.prop, f, self.known)
            if k:
                self.known_hits.setdefault(k["id"], {"entry": k, "count": 0})["count"] += 1
            else:
                self.violations.append(f)

    def finish(self):
        os.makedirs(EVIDENCE, exist_ok=True)
        vdir = os.path.join(OUT, "violations", self.prop)
        paths = []
        if self.violations:
            os.makedirs(vdir, exist_ok=True)
            for old in glob.glob(os.path.join(vdir, "*.json")):
                os.remove(old)
            for i, v in enumerate(self.violations[:20]):
                p = os.path.join(vdir, f"{i:03d}.json")
                v = dict(v)
                v["property"] = self.prop
                v["seed"] = seed()
                v["rerun"] = f"bin/check {self.prop} --replay {p}"
                with open(p, "w") as f:
                    json.dump(v, f, indent=1)
                paths.append(p)
        for kid, h in sorted(self.known_hits.items()):
            print(f"KNOWN-FINDING: property={self.prop} {kid} {h['entry']['what']} ({h['count']} occurrences)")
        cov = dict(self.coverage)
        cov.setdefault("samples", [])
        ev = {
            "property_id": self.prop,
            "tier": self.tier,
            "seed": seed(),
            "level": self.level,
            "coverage": cov,
            "assumptions": self.assumptions,
            "wall_s": round(time.time() - self.t0, 1),
            "violations": len(self.violations),
            "known_findings_hit": {k: v["count"] for k, v in self.known_hits.items()},
        }
        with open(os.path.join(EVIDENCE, f"{self.prop}.json"), "w") as f:
            json.dump(ev, f, indent=1)
        for p in paths:
            print(f"VIOLATION property={self.prop} replay={p}")
        if self.violations:
            for v in self.violations[:5]:
                log("  violation:", json.dumps({k: v[k] for k in v if k not in ("line",)})[:600])
            return 1
        return 0
