"""bin/check selftest: the binding between specifications and code is demonstrated, not assumed.

  1. trace validation (impl -> spec): a recorded trace of the random graph driver is accepted by
     TraceGraph; the same trace with one logged field corrupted (a result, a returned id, a digest)
     or one event dropped is rejected, at that event.
  2. replay (spec -> impl): a REPLAY file with one expected result flipped makes the replay report a
     finding.
  3. `--mutants`: every patch of /verif/mutants (the defects as they were found) is applied to /repo,
     the responsible quick check must exit 1, and /repo is restored (slow: one check run per patch).

Not a property check: nothing here is registered in MANIFEST.json.  Exit 0 when every demonstration
behaves as described, 1 otherwise.
"""
import gzip
import json
import os
import subprocess
import sys

from .common import HARNESS, OUT, ROOT, build_harness, ensure_libs, hbin, log, tlc_cached
from . import graph

MUTANT_PROPERTY = {
    "m01": "C06", "m02": "C06", "m03": "C06", "m04": "C01", "m05": "C16", "m06": "C20", "m07": "C13", "m08": "C19",
    "m09": "C09", "m10": "C09", "m11": "C11", "m12": "C14", "m13": "C14", "m14": "C13", "m15": "C09", "m16": "C10", "m17": "C06", "m18": "C06", "m19": "C01", "m21": "C01", "m22": "C07", "m23": "C14", "m24": "C16",
}


def run(argv=()):
    ensure_libs()
    build_harness()
    ok = True
    tdir = os.path.join(OUT, "selftest")
    os.makedirs(tdir, exist_ok=True)
    # ---- 1. trace validation
    path = os.path.join(tdir, "trace.ndjson")
    r = subprocess.run([hbin("drive"), "graph-random", "--lib", "core", "--data", os.path.join(HARNESS, "data"), "--seed", "11",
                        "--runs", "6", "--len", "60", "--max-nodes", "6", "--out", path], stdout=subprocess.PIPE, stderr=subprocess.PIPE)
    if r.returncode != 0:
        log("driver failed: " + r.stderr.decode(errors="replace")[-500:])
        return 2
    acc, at, ev, states = graph.tlc_validate_trace(path, "TraceGraph", "TraceGraph_core.cfg")
    log(f"[selftest] recorded trace: accepted={acc} ({states} states)")
    ok &= acc
    with open(path) as f:
        lines = f.readlines()
    ops = [i for i, l in enumerate(lines) if '"a":"op"' in l]
    target = ops[len(ops) // 2]

    def variant(name, mutate):
        nonlocal ok
        new = mutate([l for l in lines])
        p = os.path.join(tdir, f"trace-{name}.ndjson")
        with open(p, "w") as f:
            f.writelines(new)
        try:
            a, where, event, _ = graph.tlc_validate_trace(p, "TraceGraph", "TraceGraph_core.cfg")
        except Exception as e:  # an event that mentions a node the model never saw cannot even be evaluated
            a, where = False, "evaluation error: " + str(e).strip().splitlines()[-1][:120]
        log(f"[selftest] {name}: accepted={a} rejected_at={where}")
        ok &= not a

    def flip_result(ls):
        v = json.loads(ls[target])
        v["res"] = "ImportAlreadyExists" if v["res"] == "ok" else "ok"
        ls[target] = json.dumps(v, separators=(",", ":")) + "\n"
        return ls

    def bump_digest(ls):
        # the digest (node/argument/alias/export/package counts) of the state after the operation
        v = json.loads(ls[target])
        v["d"][0] += 1
        ls[target] = json.dumps(v, separators=(",", ":")) + "\n"
        return ls

    def drop_creating_event(ls):
        # drop an accepted creating operation: a later event mentions a node the model never saw
        for i in ops:
            v = json.loads(ls[i])
            if v["res"] == "ok" and v["o"][0] in ("import", "instantiate", "define_type") and v["ret"] > 0:
                later = [j for j in ops if j > i and v["ret"] in json.loads(ls[j])["o"][1:3]]
                if later:
                    del ls[i]
                    return ls
        del ls[target]
        return ls

    variant("result-flipped", flip_result)
    variant("digest-corrupted", bump_digest)
    variant("event-dropped", drop_creating_event)
    # ---- 2. replay with one expectation flipped
    outp, _ = tlc_cached("graph-core-quick", "MC_Graph", graph.MODELS[("core", "quick")], workers=12, timeout=900)
    rp = os.path.join(tdir, "replay.txt")
    flipped = False
    with gzip.open(outp, "rt") as gz, open(rp, "w") as f:
        for n, line in enumerate(gz):
            if n > 400:
                break
            if not flipped and '\\"encode\\":[\\"ok\\"]' in line:
                line = line.replace('\\"encode\\":[\\"ok\\"]', '\\"encode\\":[\\"GraphContainsCycle\\"]', 1)
                flipped = True
            f.write(line)
    r = subprocess.run([hbin("replay"), "graph", "--lib", "core", "--data", os.path.join(HARNESS, "data"), "--max-findings", "50",
                        "--threads", "4"], stdin=open(rp, "rb"), stdout=subprocess.PIPE, stderr=subprocess.PIPE)
    found = [json.loads(l) for l in r.stdout.decode().splitlines() if l.strip() and not json.loads(l).get("summary")]
    found = [f for f in found if not f.get("kf")]
    log(f"[selftest] replay with one expectation flipped (flipped={flipped}): {len(found)} finding(s)")
    ok &= flipped and len(found) > 0
    # ---- 3. the defects as found
    if "--mutants" in argv:
        for fn in sorted(os.listdir(os.path.join(ROOT, "mutants"))):
            prop = MUTANT_PROPERTY.get(fn[:3])
            if not prop:
                continue
            r = subprocess.run([os.path.join(ROOT, "bin", "try_patch"), os.path.join(ROOT, "mutants", fn), prop],
                               stdout=subprocess.PIPE, stderr=subprocess.STDOUT)
            text = r.stdout.decode(errors="replace")
            hit = f"== {prop} rc=1" in text
            log(f"[selftest] {fn}: {prop} {'detects it' if hit else 'DOES NOT detect it'}")
            ok &= hit
    log("[selftest] " + ("all demonstrations behaved as described" if ok else "a demonstration did not behave as described"))
    return 0 if ok else 1


if __name__ == "__main__":
    sys.exit(run(sys.argv[1:]))
