"""setup: generate the libraries, build the harness, pre-generate the quick-tier TLC artefacts."""
from .common import build_harness, ensure_libs, log, tlc_cached, SPEC
import os


def run():
    ensure_libs()
    build_harness()
    from . import graph
    for (lib, tier), cfg in graph.MODELS.items():
        if tier == "quick" and os.path.exists(os.path.join(SPEC, cfg)):
            tlc_cached(f"graph-{lib}-{tier}", "MC_Graph", cfg, workers=12, timeout=900)
    log("[setup] done")
    return 0
