"""setup: generate the libraries, build the harness binaries, pre-generate the quick-tier TLC artefacts
(they depend on /verif/spec only, so the checks themselves spend their time on the implementation)."""
import os

from .common import SPEC, build_harness, ensure_libs, log, tlc_cached


def run():
    ensure_libs()
    build_harness()
    from . import graph
    for (lib, tier), cfg in graph.MODELS.items():
        if tier == "quick" and os.path.exists(os.path.join(SPEC, cfg)):
            tlc_cached(f"graph-{lib}-{tier}", "MC_Graph", cfg, workers=12, timeout=900)
    from . import names, plug, det, registry, front, fslookup, cli
    names.artefacts("quick")
    plug.artefacts("quick")
    det.artefacts("quick")
    registry.artefacts("quick")
    registry.build()
    front.build_docs("quick")
    fslookup.artefacts("quick")
    fslookup.build_nowat()
    cli.artefacts("quick")
    cli.build_wac()
    from . import types, agg, wac
    types.artefacts("quick")
    types.res_artefacts()
    agg.artefacts("quick")
    wac.artefacts("quick")
    from . import targets, decl
    targets.artefacts("quick")
    decl.artefacts("quick")
    log("[setup] done")
    return 0
