"""C05 (WIT declarations in WAC) and C08 (decoding components): spec/Decl.tla elaborator + declcheck."""
import json
import os
import sys

from .common import HARNESS, ROOT, SPEC, ToolError, build_harness, hbin, pipe_gz_to, sh, tlc_cached
from .common import ensure_libs
from .types import ensure_types


def ensure_universe():
    ensure_libs()
    ensure_types()
    src = os.path.join(ROOT, "lib", "universe_decl.py")
    outs = [os.path.join(SPEC, "Lib_decl.tla"), os.path.join(HARNESS, "data", "decl.json")]
    if not all(os.path.exists(o) for o in outs) or min(os.path.getmtime(o) for o in outs) < os.path.getmtime(src):
        sh([sys.executable, src])
    # extra WIT worlds for the instantiate-and-encode corpus (C01 / C03)
    src = os.path.join(ROOT, "lib", "universe_wit.py")
    out = os.path.join(HARNESS, "data", "wit_extra.json")
    if not os.path.exists(out) or os.path.getmtime(out) < os.path.getmtime(src):
        sh([sys.executable, src])


def artefacts(tier):
    ensure_universe()
    return tlc_cached("decl", "MC_Decl", "Decl.cfg", workers=1, timeout=1800, keep=("DECL",))


def run_property(prop, tier, report):
    path, stats = artefacts(tier)
    build_harness()
    try:
        findings, summary = pipe_gz_to([hbin("declcheck"), "--data", os.path.join(HARNESS, "data"), "--prop", prop], [path], timeout=3600)
    except ToolError as e:
        if "rc=3" in str(e):
            raise ToolError("spec/Decl.tla disagrees with the reference WIT toolchain (a defect of the specification):\n" + str(e))
        raise
    # (declcheck --prop C08 also reports, under classes c01_*, whether the graph that instantiates each
    # component encodes to a valid component: those findings belong to C01)
    findings = [f for f in findings if not f.get("class", "").startswith(("c01_", "c03_"))]
    report.add_findings(findings, "declcheck")
    cov = report.coverage
    cov["states"] = max(stats["distinct"], 1)
    cov["transitions"] = max(stats["generated"], 1)
    cov["packages"] = summary["packages"]
    cov["exhaustive"] = True
    if prop == "C05":
        cov["traces_validated_against_impl"] = summary["interfaces"] + summary["worlds"]
        cov["interfaces"] = summary["interfaces"]
        cov["worlds"] = summary["worlds"]
        cov["rule"] = (f"{summary['packages']} declaration packages (every value-type constructor in parameter and result position and nested in every other constructor, aliases of aliases, "
                       "resources with constructor/methods/statics and own/borrow, `use` chains, renames and diamonds incl. "
                       "resources, worlds with named/inline/function imports and exports, include with renames and chains, "
                       "versioned packages; every interface also as import/export of generated worlds): Decl.tla elaborates each "
                       "term to the instance/component types it denotes and TLC checks its laws (well-scoped, use is "
                       "transparent, include copies); the same text is encoded by wit-component and, as a WAC document, by "
                       "wac; specification, reference and wac must have equal canonical descriptions (resources compared by "
                       "identity) for every interface and for the explicit imports/exports of every world, and the two "
                       "encodings of every interface must be mutual subtypes for wasmparser")
    else:
        cov["traces_validated_against_impl"] = summary["components"]
        cov["components"] = summary["components"]
        cov["dependency_type_checks"] = summary["dep_checks"]
        cov["rule"] = (f"{summary['components']} components: one real component (dummy module + ComponentEncoder) per world of the declaration "
                       "universe, every kind of the C07 type universe as an import (incl. core module and component types), and "
                       "the packages of the six graph libraries: Package::from_bytes must list imports and exports in order with "
                       "the kinds the reference validator sees for the same bytes (canonical descriptions, resources by "
                       "identity), contain the declared items of the specification's elaboration, have an instance type equal to "
                       "its exports, decode twice to mutual subtypes, and the unlocked-dep component type written for it with "
                       "define_components=false must be a supertype of the component's own type and give a valid composition")
    cov["samples"] = [{"package": 20, "world": "wex"}]
    report.assumptions.append("cross-package `use`, world-level `use` and value-kinded items are not generated; "
                              "the reference toolchain decides disagreements between Decl.tla and itself (exit 2, not a violation)")


def c01_findings(tier, prefix="c01_"):
    """C01 (prefix c01_) / C03 (prefix c03_) over the component corpus of C08: (findings, summary)"""
    path, _ = artefacts(tier)
    build_harness()
    findings, summary = pipe_gz_to([hbin("declcheck"), "--data", os.path.join(HARNESS, "data"), "--prop", "C08"], [path], timeout=3600)
    return [f for f in findings if f.get("class", "").startswith(prefix)], summary
