"""C11: a `targets` verdict means the output conforms to the world (spec/Targets.tla, MC_Targets.tla)."""
import json
import os

from .common import HARNESS, ToolError, build_harness, hbin, pipe_gz_to, tlc_cached
from .wac import ensure_pool

MODELS = {"quick": ("d4", "Targets_d4.cfg"), "thorough": ("d6", "Targets_d6.cfg")}


def artefacts(tier):
    ensure_pool()
    name, cfg = MODELS[tier]
    return tlc_cached(f"targets-{name}", "MC_Targets", cfg, workers=12, timeout=7200, keep=("REPLAY",))


def run_property(prop, tier, report):
    path, stats = artefacts(tier)
    build_harness()
    findings, summary = pipe_gz_to([hbin("tgtcheck"), "--data", os.path.join(HARNESS, "data")], [path], timeout=7200)
    if summary is None or summary.get("pairs", 0) == 0:
        raise ToolError("tgtcheck replayed nothing")
    report.add_findings(findings, "tgtcheck")
    # worlds with `use`d interfaces, resources, includes: every world's component of the declaration
    # universe (spec/Decl.tla) against every world of its package
    from . import decl
    dpath, dstats = decl.artefacts(tier)
    try:
        f2, s2 = pipe_gz_to([hbin("declcheck"), "--data", os.path.join(HARNESS, "data"), "--prop", "C11"], [dpath], timeout=3600)
    except ToolError as e:
        if "rc=3" in str(e):
            raise ToolError("spec/Decl.tla's conformance disagrees with the reference validator (a defect of the specification):\n" + str(e))
        raise
    report.add_findings(f2, "declcheck-targets")
    with open(os.path.join(HARNESS, "data", "wacpool.json")) as f:
        pool = json.load(f)
    cov = report.coverage
    cov["states"] = stats["distinct"]
    cov["transitions"] = max(stats["generated"], 1)
    cov["traces_validated_against_impl"] = summary["pairs"]
    cov["programs"] = summary["programs"]
    cov["world_program_pairs"] = summary["pairs"]
    cov["conforming_pairs"] = summary["conforming_pairs"]
    cov["standalone_checks"] = summary["standalone_checks"]
    cov["reference_subtype_checks"] = summary["reference_checks"]
    cov["worlds"] = sorted(pool["worlds"].keys())
    cov["declaration_universe_world_pairs"] = s2["worlds"]
    cov["exhaustive"] = True
    cov["rule"] = (f"every well-formed program of up to {4 if tier == 'quick' else 6} statements over the 17 statements selected for "
                   "C11 (imports of the right type, the wrong type and outside the world; instantiations leaving different "
                   "implicit imports incl. a lower version of a versioned interface; exports by access, rename and spread) "
                   "x 6 target worlds (plain, with function imports, export-only, mismatching import/export types, versioned "
                   "package): Targets.tla computes the violation sets of the composition (a state of the WAC evaluator) "
                   "against the world and TLC checks that conformance is component subtyping (Types.tla Sub); the harness "
                   "resolves the document with the `targets` clause (Ok iff conforming, else a diagnostic of a violation "
                   "present), runs wac_types::validate_target on the encoded output (exact violation sets) and asks "
                   "wasmparser whether output <: world (equal to conformance under exact names); in addition every world of the "
                   "declaration universe (used interfaces, resources, includes with renames, versions) is turned into a real "
                   "component and checked with validate_target against every world of its package: the verdict must be "
                   "Decl.tla's ConformsTo, which for resource-free packages must also be wasmparser's component subtyping")
    cov["samples"] = [{"world": "wv", "text": ["let v = new test:vcons { ... };", "export v.run;"],
                       "meaning": "imports ns:v/i@1.0.0 against a world importing ns:v/i@1.2.0"}]
    report.assumptions.append("worlds come from WIT packages without resources and without `use`d interfaces; "
                              "export names of the worlds are unversioned (exports are matched by exact name in resolution)")
