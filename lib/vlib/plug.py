"""C10: plug() (spec/Plug.tla)."""
import gzip
import os

from .common import HARNESS, ToolError, build_harness, ensure_libs, hbin, pipe_gz_to, tlc_cached
from .graph import tlc_json


def artefacts(tier):
    ensure_libs()
    cfg = "Plug_q.cfg" if tier == "quick" else "Plug_t.cfg"
    # the loop as found before 3f00beb (one import tried per export): TLC must refute ImplConforms;
    # "a successful plug always encodes" is refuted for the code as it is (KF27)
    tlc_cached("plug-found", "Plug", "Plug_found.cfg", workers=1, timeout=900, keep=("NOTHING",), expect_violation="ImplConforms")
    tlc_cached("plug-kf27", "Plug", "Plug_kf27.cfg", workers=1, timeout=900, keep=("NOTHING",), expect_violation="SuccessEncodes")
    return tlc_cached(f"plug-{tier}", "Plug", cfg, workers=4, timeout=1800)


def run_property(prop, tier, report):
    path, stats = artefacts(tier)
    build_harness()
    findings, summary = pipe_gz_to([hbin("replay"), "plug", "--data", os.path.join(HARNESS, "data")], [path])
    if summary["lines"] != stats["lines"] or summary["lines"] == 0:
        raise ToolError(f"plug replay consumed {summary['lines']} of {stats['lines']} lines")
    report.add_findings(findings, "plug-replay")
    samples = []
    with gzip.open(path, "rt") as gz:
        for i, line in enumerate(gz):
            if i in (5, 120, 250):
                v = tlc_json(line)
                samples.append({"socket": v["sock"], "plugs": v["plugs"], "allowed": v["allowed"], "must_supply": v["must"]})
    cov = report.coverage
    cov["states"] = stats["distinct"]
    cov["transitions"] = max(stats["generated"], 1)
    cov["traces_validated_against_impl"] = summary["lines"]
    cov["cases_allowing_ok"] = summary["cases_allowing_ok"]
    cov["exhaustive"] = True
    cov["rule"] = ("every socket x every ordered list of 1..N distinct plugs of the plug library (N=3 quick, 4 thorough); "
                   "TLC checks that the transcribed loop of plug.rs conforms to the contract in every case and prints what "
                   "the contract allows; the real plug() is run on real packages and its result class, wiring (through "
                   "the public queries), instantiated plugs, re-exports and encoded interface are compared: the imports "
                   "of the result are the socket imports that are left and the imports of the contributing plugs, merged "
                   "per semver track under the highest version (tracks/ranks/unmergeable pairs computed by Plug.tla; for "
                   "the Impl layer's own wiring also its predicted import set).  Library: 5 sockets (two with two imports on "
                   "one track, of equal and of different shapes; a middleware shape) and 9 plugs (exact / lower / higher "
                   "versions, wider instances, idle plugs, plugs with imports that clash with or supersede a socket import)")
    cov["samples"] = samples
