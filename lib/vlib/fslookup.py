"""C18: file-system dependency lookup (spec/FsLookup.tla), both builds of the `wat` feature."""
import gzip
import os
import subprocess

from .common import ENV, HARNESS, ToolError, build_harness, hbin, pipe_gz_to, tlc_cached
from .graph import tlc_json


def artefacts(tier):
    return tlc_cached("fslookup", "FsLookup", "FsLookup.cfg", workers=4, timeout=900, keep=("REPLAY", "MULTI"))


def build_nowat():
    r = subprocess.run(["cargo", "build", "--release", "--offline", "-p", "wac-verif-fsnowat"], cwd=HARNESS, env=ENV,
                       stdout=subprocess.PIPE, stderr=subprocess.STDOUT)
    if r.returncode != 0:
        raise ToolError("fsnowat build failed:\n" + r.stdout.decode(errors="replace")[-3000:])


def run_property(prop, tier, report):
    path, stats = artefacts(tier)
    build_harness()
    build_nowat()
    total = multi = 0
    for exe, name in ((hbin("fsprobe"), "wat-on"), (hbin("wac-verif-fsnowat"), "wat-off")):
        findings, summary = pipe_gz_to([exe], [path])
        report.add_findings(findings, f"fsprobe-{name}")
        total += summary["rows"]
        multi = summary.get("multi_key_requests", 0)
    # (single-key rows are split between the two builds, multi-key requests run in both)
    if total - multi != stats["lines"]:
        raise ToolError(f"fs probes consumed {total} of {stats['lines']} rows")
    samples = []
    with gzip.open(path, "rt") as gz:
        for i, line in enumerate(gz):
            if i in (300, 900, 1500) and line.startswith('<<"REPLAY"'):
                samples.append(tlc_json(line))
            elif i == 5 and line.startswith('<<"MULTI"'):
                samples.append(tlc_json(line, "MULTI"))
    cov = report.coverage
    cov["states"] = stats["distinct"]
    cov["transitions"] = max(stats["generated"], 1)
    cov["traces_validated_against_impl"] = total
    cov["exhaustive"] = True
    cov["rule"] = ("the whole decision table: 2 name shapes x 4 version shapes x dir/wat/decoy present or absent x "
                   "`.wasm` absent/binary/holding text x override none/file/file holding text/dangling x both "
                   "unknown-package modes x both builds of the wat feature = 3072 rows, plus 136 requests of two or three keys of which at least one is missing (both modes, both builds): "
                   "every key is looked up on its own, a missing one is skipped or fails the request; a WIT directory with a "
                   "vendored deps/ folder must yield its own package; "
                   "rows; each is materialised as a temporary directory tree and resolved by the real resolver of the "
                   "matching build; outcome class and returned bytes are compared")
    cov["samples"] = samples
