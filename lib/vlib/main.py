"""Entry point of bin/check."""
import argparse
import json
import os
import sys
import traceback

from . import common
from .common import Report, ToolError, log

# property -> (level, runner module name)
LEVELS = {
    "C06": "model_checking",
    "C01": "model_checking",
    "C02": "model_checking",
    "C03": "model_checking",
    "C15": "model_checking",
    "C10": "model_checking",
    "C16": "model_checking",
    "C20": "model_checking",
    "C12": "model_checking",
    "C13": "model_checking",
    "C14": "fault_enumeration",
    "C17": "model_checking",
    "C18": "model_checking",
    "C19": "model_checking",
    "C07": "model_checking",
    "C09": "model_checking",
    "C04": "model_checking",
    "C11": "model_checking",
    "C05": "model_checking",
    "C08": "model_checking",
}

# property -> vlib module with run_property(prop, tier, report)
RUNNERS = {
    "C15": "names",
    "C10": "plug",
    "C16": "det",
    "C20": "registry",
    "C12": "front",
    "C13": "front",
    "C17": "front",
    "C14": "front",
    "C18": "fslookup",
    "C19": "cli",
    "C07": "types",
    "C09": "agg",
    "C04": "wac",
    "C11": "targets",
    "C05": "decl",
    "C08": "decl",
}


def run(prop, tier, replay_path=None):
    if prop in ("C06", "C01", "C02", "C03"):
        from . import graph
        report = Report(prop, tier, LEVELS[prop])
        graph.run_property(prop, tier, report)
        return report.finish()
    if prop in RUNNERS:
        import importlib
        mod = importlib.import_module("." + RUNNERS[prop], __package__)
        report = Report(prop, tier, LEVELS[prop])
        mod.run_property(prop, tier, report)
        return report.finish()
    raise ToolError(f"no check registered for {prop}")


def main(argv):
    ap = argparse.ArgumentParser()
    ap.add_argument("prop")
    ap.add_argument("--tier", default=os.environ.get("VERIF_TIER", "quick"), choices=["quick", "thorough"])
    ap.add_argument("--replay")
    a = ap.parse_args(argv)
    try:
        if a.prop == "setup":
            from . import setup
            return setup.run()
        if a.prop == "selftest":
            from . import selftest
            return selftest.run(["--mutants"] if a.replay == "mutants" else [])
        if a.replay:
            # a replay file is self-contained (input, expectation, observation); the checks are
            # deterministic for a seed, so re-running the property reproduces the violation in it
            with open(a.replay) as f:
                log("[replay] " + f.read()[:4000])
        return run(a.prop, a.tier, a.replay)
    except ToolError as e:
        log(f"TOOL ERROR: {e}")
        return 2
    except Exception:
        traceback.print_exc()
        return 2
