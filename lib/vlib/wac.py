"""C04: WAC documents compose what the language reference says (spec/Wac.tla, MC_Wac.tla)."""
import gzip
import json
import os
import subprocess
import sys

from .common import ENV, HARNESS, ROOT, SPEC, ToolError, build_harness, ensure_libs, hbin, sh, tlc_cached

MODELS = {"quick": ("d4", "Wac_d4.cfg"), "thorough": ("d5", "Wac_d5.cfg")}


def ensure_pool():
    ensure_libs()
    src = [os.path.join(ROOT, "lib", "universe_wac.py"), os.path.join(ROOT, "lib", "universe.py")]
    outs = [os.path.join(SPEC, "Lib_wacpool.tla"), os.path.join(HARNESS, "data", "wacpool.json")]
    if not all(os.path.exists(o) for o in outs) or min(os.path.getmtime(o) for o in outs) < max(os.path.getmtime(s) for s in src):
        sh([sys.executable, src[0]])


def artefacts(tier):
    ensure_pool()
    name, cfg = MODELS[tier]
    return tlc_cached(f"wac-{name}", "MC_Wac", cfg, workers=12, timeout=7200, keep=("REPLAY",))


def run_property(prop, tier, report):
    path, stats = artefacts(tier)
    build_harness()
    p = subprocess.Popen([hbin("wacreplay"), "--data", os.path.join(HARNESS, "data")], stdin=subprocess.PIPE,
                         stdout=subprocess.PIPE, stderr=subprocess.PIPE, env=ENV)
    import threading
    out, err = [], []
    t1 = threading.Thread(target=lambda: out.append(p.stdout.read()))
    t2 = threading.Thread(target=lambda: err.append(p.stderr.read()))
    t1.start()
    t2.start()
    with gzip.open(path, "rb") as gz:
        while True:
            chunk = gz.read(1 << 20)
            if not chunk:
                break
            p.stdin.write(chunk)
    p.stdin.close()
    t1.join()
    t2.join()
    if p.wait() != 0:
        raise ToolError("wacreplay failed: " + err[0].decode(errors="replace")[-2000:])
    findings, summary = [], None
    for line in out[0].decode().splitlines():
        v = json.loads(line)
        if v.get("summary"):
            summary = v
        else:
            findings.append(v)
    if summary is None or summary["programs"] == 0:
        raise ToolError("wacreplay replayed nothing")
    report.add_findings(findings, "wacreplay")
    cov = report.coverage
    cov["states"] = stats["distinct"]
    cov["transitions"] = max(stats["generated"], 1)
    cov["traces_validated_against_impl"] = summary["programs"]
    cov["programs"] = summary["programs"]
    cov["programs_resolved"] = summary["ok_programs"]
    cov["programs_rejected"] = summary["rejected"]
    cov["encodings_decoded"] = summary["encodings_decoded"]
    cov["exhaustive"] = True
    with open(os.path.join(HARNESS, "data", "wacpool.json")) as f:
        pool = json.load(f)
    cov["pool_statements"] = len(pool["statements"])
    cov["rule"] = (f"every sequence of up to {4 if tier == 'quick' else 5} statements of the {len(pool['statements'])}-statement pool "
                   "(imports by inline type / package path with and without `as`; lets with new, access, named access; the four "
                   "argument forms incl. nested new; exports with inference, rename and spread; single-fault variants) that the "
                   "reference evaluator accepts statement by statement, plus each first ill-formed extension: the evaluator of "
                   "Wac.tla maps the program to a state of the graph contract or to the set of diagnostics of its faults; the "
                   "real front end must resolve exactly the well-formed ones, reject the others with one of those diagnostics, "
                   "and encode to a component whose instantiations, arguments, imports, exports and name section are those of "
                   "EncodeOf of that state (both define_components settings)")
    cov["samples"] = [{"prog": [10, 11, 12], "text": [pool["statements"][i - 1] for i in (10, 11, 12)]}]
    report.assumptions.append("type statements (interfaces, worlds, value types) are C05's subject and not in the pool; "
                              "diagnostics are compared by Error variant, not by message or span")
