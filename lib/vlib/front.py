"""Front end (C12, C13, C14, C17): grammar machine of spec/Grammar*.tla as generator and recogniser."""
import glob
import gzip
import json
import os
import random
import subprocess
import sys

from .common import (ENV, HARNESS, OUT, REPO, ROOT, SPEC, ToolError, build_harness, hbin, log, seed, sh,
                     tlc_cached)
from .graph import tlc_json

CLASSES = {
    "C12": {"parse_accept", "parse_reject", "span_parse", "print_tokens", "codepoint", "tree"},
    "C13": {"print_tokens", "reparse", "idempotent"},
    "C14": {"panic", "span", "span_parse", "render", "crash", "timeout"},
    "C17": {"refs"},
}


def ensure_grammar():
    src = os.path.join(ROOT, "lib", "grammar.py")
    outs = [os.path.join(SPEC, "Lib_grammar.tla"), os.path.join(HARNESS, "data", "grammar.json")]
    if not all(os.path.exists(o) for o in outs) or min(os.path.getmtime(o) for o in outs) < os.path.getmtime(src):
        sh([sys.executable, src])
    with open(outs[1]) as f:
        return json.load(f)


def sentences(tier):
    """TLC as generator: exhaustive short sentences + random long ones"""
    ensure_grammar()
    ex, exs = tlc_cached("grammar-ex", "GrammarGen", "GrammarGen_ex.cfg", workers=8, timeout=1800, keep=("SENT",))
    n = 400 if tier == "quick" else 6000
    sim, sims = tlc_cached(f"grammar-sim-{tier}-{seed()}", "GrammarGen", "GrammarGen_sim.cfg", workers=1, timeout=1800,
                           simulate=f"num={n}", tlc_seed=seed(), keep=("SENT",), extra_args=["-depth", "900"])
    return (ex, exs), (sim, sims)


class Sentence:
    """a bracketed token stream -> units (package references glued), text, token lexemes, references"""

    def __init__(self, out, g, origin):
        self.origin = origin
        pools, trivia = g["pools"], g["trivia"]
        self.units = []      # [kinds, lexeme, trivia string]
        self.refs = []       # (where, name, version)
        self.own = None
        stack = []
        cur = None           # open glued unit
        for k, v, x, t in out:
            if k == "<":
                stack.append(v)
                if v in ("package-name", "package-path"):
                    cur = {"kinds": [], "lex": "", "tr": " ", "where": list(stack)}
            elif k == ">":
                top = stack.pop()
                if top in ("package-name", "package-path") and cur is not None:
                    self.units.append([cur["kinds"], cur["lex"], cur["tr"]])
                    self._ref(top, cur)
                    cur = None
            else:
                lex = pools[v][x - 1] if v in pools else v
                if cur is not None:
                    cur["kinds"].append(v)
                    cur["lex"] += lex
                    cur["tr"] = trivia[t - 1]
                    if v in ("PKGNAME", "PKGPATH"):
                        cur["name"] = lex
                    if v == "VERSION":
                        cur["ver"] = lex
                else:
                    self.units.append([[v], lex, trivia[t - 1]])
        self.kinds = [k for u in self.units for k in u[0]]
        self.toks = [u[1] for u in self.units]
        # the leaves the tree must contain, in source order: identifiers, strings, package names/paths
        self.leaves = []
        for kinds, lex, _ in self.units:
            if kinds == ["ID"]:
                self.leaves.append({"k": "id", "lex": lex})
            elif kinds == ["STRING"]:
                self.leaves.append({"k": "string", "lex": lex})
            elif kinds[0] in ("PKGNAME", "PKGPATH"):
                path, _, ver = lex.partition("@")
                name, _, segs = path.partition("/")
                self.leaves.append({"k": "package", "lex": lex, "name": name, "segments": segs or None,
                                    "version": ver or None})
        self.text = "".join(u[1] + u[2] for u in self.units)

    def _ref(self, top, cur):
        name = cur.get("name", "")
        ver = cur.get("ver")
        where = cur["where"]
        if top == "package-name" and "package-decl" in where and "new-expr" not in where:
            self.own = name
            return
        if top == "package-path":
            name = name.split("/")[0]
        self.refs.append(("new" if top == "package-name" else "path", name, ver))

    def doc(self, i):
        refs = sorted({(n, v) for (_, n, v) in self.refs if n != self.own}, key=lambda x: (x[0], x[1] or ""))
        return {"id": i, "text": self.text, "expect": "accept", "toks": self.toks, "origin": self.origin,
                "leaves": self.leaves,
                "refs": [[n, v] for n, v in refs], "own": self.own, "kf": shape_flags(self.kinds),
                "self_new": any(w == "new" and n == self.own for (w, n, _) in self.refs)}


TYPE_STARTS = {"u8", "s8", "u16", "s16", "u32", "s32", "u64", "s64", "f32", "f64", "char", "bool", "string", "tuple",
               "list", "option", "result", "borrow"}


def shape_flags(kinds):
    """names of the specific shapes listed in /verif/known_findings.json that occur in a token-kind sequence
    (the matcher of a known finding is no wider than the production / mutation shape that exhibits it)"""
    flags = set()
    for i, k in enumerate(kinds):
        nxt = kinds[i + 1] if i + 1 < len(kinds) else None
        nxt2 = kinds[i + 2] if i + 2 < len(kinds) else None
        if k == "->" and nxt == "(":
            flags.add("named-result-list")            # results ::= '(' named-type ... ')'
        if k == "borrow" and nxt == "<" and nxt2 in TYPE_STARTS:
            flags.add("borrow-of-non-identifier")     # borrow ::= 'borrow' '<' type '>' with a non-id type
        if k == "..." and nxt == ",":
            flags.add("fill-not-last")                # `...` followed by a further argument
        if k == "..." and nxt == "...":
            flags.add("fill-not-last")
        if k == "->" and nxt in (";", ")", ",", "}", None):
            flags.add("arrow-without-result")         # func(...) -> with nothing after it
        if k == "{" and nxt == "}" and i >= 1 and kinds[i - 1] == ".":
            flags.add("empty-use-list")               # use x.{}
        if k == "with" and nxt == "{" and nxt2 == "}":
            flags.add("empty-include-list")           # include w with {}
        if k == "result" and nxt == "<" and nxt2 == "_":
            j = i + 3
            if j < len(kinds) and kinds[j] == ">":
                flags.add("result-underscore-only")   # result<_>
            if j + 1 < len(kinds) and kinds[j] == "," and kinds[j + 1] == "_":
                flags.add("result-underscore-only")   # result<_, _>
        if k == "," and nxt == "_" and nxt2 == ">":
            flags.add("result-underscore-error")      # result<t, _>
    return sorted(flags)


SUBS = [[";"], [","], ["as"], ["ID"], ["{"], ["}"], [":"], ["..."], ["("], [")"], ["import"], ["="], ["_"]]


def mutants(s, g, rng, per):
    """token-level near misses of a sentence: delete / duplicate / substitute / swap one unit"""
    pools = g["pools"]
    out = []
    n = len(s.units)
    for _ in range(per):
        i = rng.randrange(n)
        op = rng.choice(["del", "dup", "sub", "swap"])
        units = [list(u) for u in s.units]
        if op == "del":
            units.pop(i)
        elif op == "dup":
            units.insert(i, list(units[i]))
        elif op == "swap":
            if i + 1 >= n:
                continue
            units[i], units[i + 1] = units[i + 1], units[i]
        else:
            k = rng.choice(SUBS)
            if k == units[i][0]:
                continue
            units[i] = [k, pools[k[0]][0] if k[0] in pools else k[0], " "]
        kinds = [k for u in units for k in u[0]]
        if not kinds:
            continue
        text = " ".join(u[1] for u in units)
        out.append({"kinds": kinds, "text": text, "origin": f"{s.origin} {op}@{i}"})
    # directed near misses: bodies that the grammar requires to be non-empty are emptied, a result
    # type is dropped after `->`, an underscore is put where a type is required
    def flat(units, origin):
        kinds = [k for u in units for k in u[0]]
        out.append({"kinds": kinds, "text": " ".join(u[1] for u in units), "origin": f"{s.origin} {origin}"})
    ks = [u[0][0] if len(u[0]) == 1 else "" for u in s.units]
    for i, k in enumerate(ks):
        opener = {"{": "}", "<": ">"}.get(k)
        if opener and i >= 1:
            head = ks[i - 2] if ks[i - 1] == "ID" and i >= 2 else ks[i - 1]
            if head in ("record", "variant", "enum", "flags", "tuple", "with", ".") :
                depth, j = 0, i
                while j < n:
                    if ks[j] == k:
                        depth += 1
                    elif ks[j] == opener:
                        depth -= 1
                        if depth == 0:
                            break
                    j += 1
                if j < n and j > i + 1:
                    flat([list(u) for u in s.units[: i + 1] + s.units[j:]], f"empty-{head}-body@{i}")
        if k == "->" and i + 1 < n and (ks[i + 1] in TYPE_STARTS or ks[i + 1] == "ID") and ks[i + 1] not in ("tuple", "list", "option", "result", "borrow"):
            flat([list(u) for u in s.units[: i + 1] + s.units[i + 2:]], f"drop-result@{i}")
        if k == "result" and i + 3 < n and ks[i + 1] == "<" and ks[i + 3] == ">":
            units = [list(u) for u in s.units]
            units[i + 2] = [["_"], "_", " "]
            flat(units, f"underscore-result@{i}")
        if k == "result" and i + 5 < n and ks[i + 1] == "<" and ks[i + 3] == "," and ks[i + 5] == ">":
            units = [list(u) for u in s.units]
            units[i + 4] = [["_"], "_", " "]
            flat(units, f"underscore-error@{i}")
        # every separator of the sentence dropped once and doubled once (the recogniser decides
        # which of these are still sentences: an optional trailing comma, for instance)
        if k in (";", ","):
            flat([list(u) for u in s.units[:i] + s.units[i + 1:]], f"drop-{'semicolon' if k == ';' else 'comma'}@{i}")
            flat([list(u) for u in s.units[: i + 1] + s.units[i:]], f"double-{'semicolon' if k == ';' else 'comma'}@{i}")
        # a comma before every closer (trailing commas are optional in some lists and forbidden elsewhere)
        if k in ("}", ">", ")") and i >= 1 and ks[i - 1] not in (",", "{", "<", "("):
            flat([list(u) for u in s.units[:i]] + [[[","], ",", " "]] + [list(u) for u in s.units[i:]], f"trailing-comma@{i}")
    return out


BAD_CODEPOINTS = ["‮", "⁧", "\u0007", "ŉ", "឴", "\u009f", "\u000c"]


def codepoint_docs(s, rng):
    """the same sentence with one forbidden code point placed in trivia, a comment, a string or an identifier"""
    out = []
    c = rng.choice(BAD_CODEPOINTS)
    i = rng.randrange(len(s.units))
    where = rng.choice(["trivia", "line-comment", "block-comment", "string", "identifier"])
    units = [list(u) for u in s.units]
    if where == "trivia":
        units[i][2] = " " + c + " "
    elif where == "line-comment":
        units[i][2] = " // x" + c + "y\n"
    elif where == "block-comment":
        units[i][2] = " /* x" + c + "y */ "
    elif where == "string":
        js = [j for j, u in enumerate(units) if u[0] == ["STRING"]]
        if not js:
            return out
        j = rng.choice(js)
        units[j][1] = units[j][1][:-1] + c + '"'
    else:
        js = [j for j, u in enumerate(units) if u[0] == ["ID"]]
        if not js:
            return out
        j = rng.choice(js)
        units[j][1] = units[j][1] + c
    out.append({"text": "".join(u[1] + u[2] for u in units), "expect": "reject",
                "origin": f"{s.origin} codepoint U+{ord(c):04X} in {where}", "key": "codepoint", "cp": c})
    return out


def recognise(name, docs):
    """TLC as recogniser: which token-kind sequences are sentences of the grammar"""
    ddir = os.path.join(OUT, "front")
    os.makedirs(ddir, exist_ok=True)
    path = os.path.join(ddir, f"{name}.ndjson")
    with open(path, "w") as f:
        for d in docs:
            f.write(json.dumps({"toks": d["kinds"]}) + "\n")
    outp, stats = tlc_cached(f"grammar-rec-{name}", "GrammarRec", "GrammarRec.cfg", workers=8, timeout=3600,
                             keep=("ACCEPT",), extra_env={"DOCS_FILE": path}, extra_files=[path])
    acc = set()
    with gzip.open(outp, "rt") as gz:
        for line in gz:
            acc.add(int(line.split(",")[1].strip().rstrip(">").strip()))
    return acc, stats


def repo_wac_files():
    files = sorted(glob.glob(os.path.join(REPO, "crates", "wac-parser", "tests", "**", "*.wac"), recursive=True)
                   + glob.glob(os.path.join(REPO, "examples", "**", "*.wac"), recursive=True)
                   + glob.glob(os.path.join(REPO, "crates", "wac-graph", "tests", "**", "*.wac"), recursive=True))
    return files


LEXICAL = [
    ("package a:b; type t-1 = u8;", "reject"), ("package a:b; type %t-1a = u8;", "reject"),
    ("package a:b; record r { x-2: u8 }", "reject"), ("package a:b-1;", "reject"), ("package a:b; import i: c:d/e-4f;", "reject"),
    ("package a:b; type t1-a2b3 = u8;", "accept"),
    ("package a:b; export i... as k;", "reject"), ("package a:b; export i ... as \"k\";", "reject"),
    ("package a:b; export i...;", "accept"), ("package a:b; export i as k;", "accept"),
    ("package a:b; /* /*/ */ type t = u8;", "reject"), ("package a:b; /* /* */ */ type t = u8;", "accept"),
    ("package a:b;\n/* /*/ */ type t = u8; // */\ntype u = u8;\n", "accept"),
]


def build_docs(tier):
    g = ensure_grammar()
    (ex, exs), (sim, sims) = sentences(tier)
    rng = random.Random(seed())
    sents = []
    for path, origin in ((ex, "exhaustive"), (sim, "simulated")):
        with gzip.open(path, "rt") as gz:
            for i, line in enumerate(gz):
                sents.append(Sentence(tlc_json(line, "SENT")["out"], g, f"{origin}#{i}"))
    # distinct by text
    seen, uniq = set(), []
    for s in sents:
        if s.text not in seen and s.units:
            seen.add(s.text)
            uniq.append(s)
    sents = uniq
    docs = [s.doc(i) for i, s in enumerate(sents)]
    muts = []
    per = 8 if tier == "quick" else 25
    for s in sents:
        muts += mutants(s, g, rng, per)
    # de-duplicate mutants by kind sequence
    seen, umuts = set(), []
    for m in muts:
        k = tuple(m["kinds"])
        if k not in seen:
            seen.add(k)
            umuts.append(m)
    # the originals go through the recogniser too (a sample): they must be accepted
    sample = [{"kinds": s.kinds} for s in sents[:: max(1, len(sents) // 150)]]
    acc, rstats = recognise(f"{tier}-{seed()}", umuts + sample)
    n_m = len(umuts)
    for j in range(len(sample)):
        if (n_m + j + 1) not in acc:
            raise ToolError(f"the recogniser rejects a generated sentence: {sample[j]['kinds']}")
    base = len(docs)
    in_lang = 0
    for j, m in enumerate(umuts):
        ok = (j + 1) in acc
        in_lang += ok
        docs.append({"id": base + j, "text": m["text"], "expect": "accept" if ok else "reject", "origin": m["origin"],
                     "key": "mutant", "kf": shape_flags(m["kinds"])})
    cp = []
    for s in sents[:: 2 if tier == "quick" else 1]:
        cp += codepoint_docs(s, rng)
    for j, d in enumerate(cp):
        d["id"] = len(docs)
        docs.append(d)
    # lexical shapes the token-level machine cannot produce (verdicts read off the lexical grammar of LANGUAGE.md:
    # every word of an id starts with a letter; `...` and `as` are alternatives; block comments nest)
    for text, expect in LEXICAL:
        docs.append({"id": len(docs), "text": text, "expect": expect, "origin": "lexical shape", "key": "lexical", "kf": []})
    stats = {"sentences": len(sents), "exhaustive_sentences": exs["lines"], "simulated_sentences": sims["lines"],
             "mutants": n_m, "mutants_still_in_language": in_lang, "codepoint_docs": len(cp),
             "generator_states": exs["distinct"], "generator_transitions": exs["generated"],
             "recogniser_states": rstats["distinct"], "recogniser_transitions": rstats["generated"]}
    return docs, stats, sents


def run_parsecheck(docs):
    build_harness()
    ddir = os.path.join(OUT, "front")
    os.makedirs(ddir, exist_ok=True)
    path = os.path.join(ddir, f"docs-{os.getpid()}.ndjson")
    with open(path, "w") as f:
        for d in docs:
            f.write(json.dumps(d) + "\n")
    with open(path, "rb") as f:
        r = subprocess.run([hbin("parsecheck")], stdin=f, stdout=subprocess.PIPE, stderr=subprocess.PIPE, env=ENV)
    if r.returncode != 0:
        raise ToolError(f"parsecheck failed rc={r.returncode}: {r.stderr.decode(errors='replace')[-2000:]}")
    findings, summary = [], None
    for line in r.stdout.decode().splitlines():
        v = json.loads(line)
        if v.get("summary"):
            summary = v
        else:
            findings.append(v)
    return findings, summary


def classify(f):
    """finer classes for attribution"""
    f = dict(f)
    if f["class"] == "span" and f.get("what", "").startswith("diagnostic"):
        f["class"] = "span_parse"
    if f.get("key") == "codepoint" and f["class"] == "parse_accept":
        f["class"] = "codepoint"
    return f


PUMPS = {
    # every recursive production of the grammar, repeated n times (LANGUAGE.md: nested-expr, new inside
    # named arguments, the type constructors, nested block comments) plus two long-but-flat shapes
    "nested-expr": lambda n: "package a:b;\nlet x = " + "(" * n + "a" + ")" * n + ";\n",
    "nested-new": lambda n: "package a:b;\nlet x = " + "new c:d { a: " * n + "b" + " }" * n + ";\n",
    "list-type": lambda n: "package a:b;\ntype t = " + "list<" * n + "u8" + ">" * n + ";\n",
    "option-type": lambda n: "package a:b;\ntype t = " + "option<" * n + "u8" + ">" * n + ";\n",
    "tuple-type": lambda n: "package a:b;\ntype t = " + "tuple<" * n + "u8" + ">" * n + ";\n",
    "result-type": lambda n: "package a:b;\ntype t = " + "result<" * n + "u8" + ">" * n + ";\n",
    "block-comment": lambda n: "package a:b;\n" + "/*" * n + " x " + "*/" * n + "\n",
    "postfix-chain": lambda n: "package a:b;\nlet x = a" + ".b" * n + ";\n",
    "statements": lambda n: "package a:b;\n" + "import a: func();\n" * n,
}


def supervised(doc, timeout=900):
    # (the longest pump takes ~30 s on a loaded machine and is linear in its size: a timeout of this
    # length only fires for a genuine hang, never because the machine is busy)
    """one document in its own worker process: a crash (signal) or a hang is an outcome, not a tool error"""
    build_harness()
    try:
        r = subprocess.run([hbin("parsecheck")], input=(json.dumps(doc) + "\n").encode(), stdout=subprocess.PIPE,
                           stderr=subprocess.PIPE, env=ENV, timeout=timeout)
    except subprocess.TimeoutExpired:
        return [{"class": "timeout", "what": f"no result within {timeout}s", "origin": doc["origin"], "key": doc.get("key")}]
    if r.returncode != 0:
        sig = -r.returncode if r.returncode < 0 else r.returncode
        return [{"class": "crash", "what": f"the worker process died (exit status {r.returncode}): "
                 + r.stderr.decode(errors="replace")[-200:].strip(), "origin": doc["origin"], "key": doc.get("key"),
                 "signal": sig}]
    out = []
    for line in r.stdout.decode().splitlines():
        v = json.loads(line)
        if not v.get("summary"):
            out.append(v)
    return out


def directed_c14_docs(sents, tier):
    """inputs aimed at the places where offsets are computed: degenerate texts, ends of input after a
    multi-byte character, non-ASCII string literals, and declarations that clash inside one scope"""
    docs = []

    def add(text, origin, resolve=False):
        docs.append({"text": text, "expect": "any", "origin": origin, "resolve": resolve, "key": "directed", "kf": []})

    for t in ["", " ", "\n", "﻿", "//", "// é", "/*", "/* é", "/* é */", '"', '"é', "package", "package a:b",
              "package a:b;", "package a:b; // é", "package a:b;\né", "é", "€", "\U0001F600", "package a:b targets",
              "package a:b;\nlet x = \"é", "package a:b;\nexport x as \"é\";", "package a:b;\nexport x as \"€\U0001F600\""]:
        add(t, f"degenerate {t!r}", resolve=True)
    # a byte order mark in front of a document that fails later: offsets count from the start of what was passed in
    for t in ["package test:comp; // é\n$", "package test:comp@1.m.0;", "package test:comp;\nlet x = undefined-name;",
              "package test:comp;\nlet x ="]:
        add("﻿" + t, f"byte order mark + {t!r}", resolve=True)
    # a world item path that names an inline interface of another world of the document (an instance, not an interface)
    add("package test:comp;\nworld w { export x: interface { f: func(); }; }\nworld v { import test:comp/w/x; }\n",
        "world item path to an inline interface", resolve=True)
    add("package test:comp;\nworld w { import x: interface { f: func(); }; }\nworld v { export test:comp/w/x; }\n",
        "world item path to an inline interface (export)", resolve=True)
    step = 40 if tier == "quick" else 8
    for s in sents[::step]:
        acc = ""
        for u in s.units:
            # the text ends exactly with a token (nothing after it, no newline): the end-of-input diagnostic
            # is computed while that token is still the lexer's current one
            add(acc + u[1], f"{s.origin} cut right after the token ending at byte {len(acc) + len(u[1])}")
            acc += u[1] + u[2]
            for tail in (" // é", " /* € */", " é", "\"é"):
                add(acc + tail, f"{s.origin} cut after {len(acc)} bytes + {tail!r}")
        # string literals with characters of 2, 3 and 4 bytes
        units = [list(u) for u in s.units]
        js = [j for j, u in enumerate(units) if u[0] == ["STRING"]]
        for j in js[:2]:
            for content in ("é", "a€b", "\U0001F600x"):
                units2 = [list(u) for u in units]
                units2[j][1] = '"' + content + '"'
                add("".join(u[1] + u[2] for u in units2), f"{s.origin} string literal {content!r}", resolve=True)
    # two declarations of one name in one scope, every pair of declaration forms
    idecl = {"func": "f: func();", "alias": "type f = u32;", "record": "record f { a: u32 }", "variant": "variant f { a }",
             "enum": "enum f { a }", "flags": "flags f { a }", "resource": "resource f;", "use": "use other.{f};"}
    for k1, d1 in idecl.items():
        for k2, d2 in idecl.items():
            add(f"package a:b;\ninterface other {{ type f = u32; }}\ninterface i {{\n  {d1}\n  {d2}\n}}\n", f"interface scope: {k1} then {k2}", resolve=True)
    wdecl = {"import-func": "import f: func();", "export-func": "export f: func();", "import-iface": "import f: interface { };",
             "export-iface": "export f: interface { };", "use": "use other.{f};", "alias": "type f = u32;", "record": "record f { a: u32 }",
             "resource": "resource f;", "import-path": "import other;", "include": "include w0;"}
    for k1, d1 in wdecl.items():
        for k2, d2 in wdecl.items():
            add(f"package a:b;\ninterface other {{ type f = u32; }}\nworld w0 {{ import f: func(); }}\nworld w {{\n  {d1}\n  {d2}\n}}\n",
                f"world scope: {k1} then {k2}", resolve=True)
    tdecl = {"alias": "type f = u32;", "record": "record f { a: u32 }", "interface": "interface f { }", "world": "world f { }",
             "import": "import f: func();", "let": "let f = f;", "export": "export f as \"f\";"}
    for k1, d1 in tdecl.items():
        for k2, d2 in tdecl.items():
            add(f"package a:b;\n{d1}\n{d2}\n", f"root scope: {k1} then {k2}", resolve=True)
    return docs


def run_c14(tier, report):
    """fault enumeration: token/code-point mutants (no panic, spans inside the source), pump points in
    supervised workers, and the package fault space of every shipped fixture"""
    docs, stats, sents = build_docs(tier)
    for d in docs:
        d["resolve"] = d.get("expect") == "accept" and d.get("key") is None and d["id"] % 4 == 0
    # the same mutants behind a first line of multi-byte characters: byte offsets and character
    # indices differ from there on
    for d in list(docs):
        if d.get("key") in ("mutant", "codepoint") and d["id"] % 2 == 0:
            docs.append(dict(d, id=len(docs), text="// é€\U0001F600\n" + d["text"], origin=d["origin"] + " after a multi-byte comment line"))
    directed = directed_c14_docs(sents, tier)
    for d in directed:
        d["id"] = len(docs)
        docs.append(d)
    stats["directed_docs"] = len(directed)
    for p in repo_wac_files():
        with open(p) as fh:
            docs.append({"id": len(docs), "text": fh.read(), "expect": "any", "origin": os.path.relpath(p, REPO), "resolve": True})
    # truncations of shipped files at every 7th byte
    for p in repo_wac_files()[:: 3 if tier == "quick" else 1]:
        with open(p, "rb") as fh:
            raw = fh.read()
        for cut in range(1, len(raw), 7 if tier == "quick" else 2):
            docs.append({"id": len(docs), "text": raw[:cut].decode("utf-8", errors="ignore"), "expect": "any",
                         "origin": f"{os.path.relpath(p, REPO)} truncated at {cut}"})
    findings, summary = run_parsecheck(docs)
    report.add_findings([f for f in map(classify, findings) if f["class"] in CLASSES["C14"]], "front-parsecheck")
    # pump points
    depths = [100, 1000, 10000] if tier == "quick" else [100, 1000, 10000, 100000]
    pumped = 0
    pump_out = {}
    for name, build in PUMPS.items():
        for n in depths:
            doc = {"id": 0, "text": build(n), "expect": "any", "origin": f"pump {name} x{n}", "key": f"pump:{name}",
                   "resolve": True, "kf": [f"pump:{name}"]}
            fs = supervised(doc)
            pumped += 1
            pump_out[f"{name} x{n}"] = sorted({f["class"] for f in fs}) or ["ok"]
            report.add_findings([dict(classify(f), kf=[f"pump:{name}"]) for f in fs
                                 if classify(f)["class"] in CLASSES["C14"]], "front-pump")
    # package fault space over the shipped fixtures
    fixtures = sorted(glob.glob(os.path.join(REPO, "crates", "wac-parser", "tests", "resolution", "*.wac"))
                      + glob.glob(os.path.join(REPO, "crates", "wac-parser", "tests", "encoding", "*.wac"))
                      + glob.glob(os.path.join(REPO, "crates", "wac-parser", "tests", "resolution", "fail", "*.wac"))
                      + glob.glob(os.path.join(REPO, "crates", "wac-parser", "tests", "encoding", "fail", "*.wac")))
    r = subprocess.run([hbin("faultcheck")], input=("\n".join(fixtures) + "\n").encode(), stdout=subprocess.PIPE,
                       stderr=subprocess.PIPE, env=ENV, timeout=1800)
    fsum = None
    if r.returncode != 0:
        last = [l for l in r.stderr.decode(errors="replace").splitlines() if l.startswith("FIXTURE")][-1:]
        report.add_findings([{"class": "crash", "what": f"faultcheck died (exit status {r.returncode}) while processing {last}",
                              "origin": str(last)}], "front-faultcheck")
    else:
        for line in r.stdout.decode().splitlines():
            v = json.loads(line)
            if v.get("summary"):
                fsum = v
            else:
                report.add_findings([v], "front-faultcheck")
    # the program space of the WAC evaluator (spec/Wac.tla) resolved and encoded against real packages,
    # among them one whose import names have the url / locked-dep forms: no panic anywhere
    from . import wac as wacmod
    from .common import HARNESS, pipe_gz_to
    wpath, _ = wacmod.artefacts("quick")
    f2, s2 = pipe_gz_to([hbin("wacreplay"), "--data", os.path.join(HARNESS, "data")], [wpath], timeout=7200)
    report.add_findings([dict(f, kf=[]) for f in f2 if f["class"] == "panic"], "wacreplay-panics")
    cov = report.coverage
    cov["programs_resolved_against_packages"] = s2["programs"]
    cov["evaluations"] = summary["docs"] + pumped + (fsum or {}).get("cases", 0)
    cov["distinct_nontrivial"] = stats["mutants"] + stats["codepoint_docs"] + pumped + (fsum or {}).get("cases", 0)
    cov["documents"] = dict(stats, parsed=summary["docs"], accepted=summary["accepted"], rejected=summary["rejected"])
    cov["pump_outcomes"] = pump_out
    cov["package_fault_cases"] = fsum
    cov["rule"] = ("fault space enumerated from the specifications: (a) single-unit deletions/duplications/substitutions/"
                   "swaps and directed emptied-body near misses of grammar-generated documents, code-point faults by class "
                   "and position, byte truncations of the shipped .wac files; (b) every recursive production pumped "
                   "10^2..10^4(5) times, each in its own worker process; (c) for every shipped fixture and each of its "
                   "packages: Missing / Empty / CoreModule / Garbage / SwapLayer and per top-level section Truncate(start|"
                   "mid|end), FlipByte(header|body).  distinct_nontrivial counts mutants, code-point documents, pump "
                   "documents and package fault cases (distinct by construction)")
    cov["samples"] = [{"pump": "nested-expr x100", "text": PUMPS["nested-expr"](100)[:80] + "..."},
                      {"package_fault": "Truncate(section 1, mid) of foo:bar in crates/wac-parser/tests/encoding/instantiation.wac"}]
    report.assumptions.append("unstructured random bytes / arbitrary Unicode are not generated: only the enumerated fault space")


def discovery_docs():
    """C17: one package reference in every syntactic position that can hold one, under every shape of
    name (plain, versioned, a name that has the document's own package name as a prefix, the own
    namespace), plus pairs of references to one package that differ in version only"""
    paths = {"ref:pkg/item": ("ref:pkg", None), "ref:pkg/item@1.2.3": ("ref:pkg", "1.2.3"),
             "test:comp-types/item": ("test:comp-types", None), "test:other/item@0.1.0": ("test:other", "0.1.0")}
    names = {"ref:pkg": ("ref:pkg", None), "ref:pkg@1.2.3": ("ref:pkg", "1.2.3"), "test:comp-types": ("test:comp-types", None),
             "test:composition@0.2.0": ("test:composition", "0.2.0")}
    head = "package test:comp;\n"
    path_positions = {
        "targets": "package test:comp targets {P};\n",
        "import by path": head + "import a: {P};\n",
        "use in an interface": head + "interface i {{ use {P} . {{ t }}; }}\n",
        "use in a world": head + "world w {{ use {P} . {{ t }}; }}\n",
        "use in an inline interface of an import statement": head + "import a: interface {{ use {P} . {{ t }}; }};\n",
        "use in an inline interface of a world import": head + "world w {{ import a: interface {{ use {P} . {{ t }}; }}; }}\n",
        "use in an inline interface of a world export": head + "world w {{ export a: interface {{ use {P} . {{ t }}; f: func(); }}; }}\n",
        "world import by path": head + "world w {{ import {P}; }}\n",
        "world export by path": head + "world w {{ export {P}; }}\n",
        "include": head + "world w {{ include {P}; }}\n",
        "use after another use": head + "interface i {{ use first:one/x . {{ s }}; use {P} . {{ t }}; }}\n",
    }
    name_positions = {
        "new": head + "let x = new {N} {{}};\n",
        "new in a named argument": head + "let x = new a:first {{ a: new {N} {{}} }};\n",
        "new in the third named argument": head + "let x = new a:first {{ a: b, \"c\": d, e: new {N} {{ ... }} }};\n",
        "new in parentheses followed by an access": head + "let x = (new {N} {{}}).y;\n",
        "new inside an access chain inside an argument": head + "let x = new a:first {{ a: (new {N} {{ ... }}).b[\"c\"], ... }};\n",
        "new two levels deep": head + "let x = new a:first {{ a: new b:second {{ b: new {N} {{}} }} }};\n",
        "exported new with spread": head + "export new {N} {{ ... }}...;\n",
        "exported new with access and rename": head + "export new {N} {{}}.f as \"g\";\n",
    }
    extra = {"use after another use": [["first:one", None]], "new in a named argument": [["a:first", None]],
             "new in the third named argument": [["a:first", None]], "new inside an access chain inside an argument": [["a:first", None]],
             "new two levels deep": [["a:first", None], ["b:second", None]]}
    docs = []
    for pos, tmpl in path_positions.items():
        for text, (n, v) in paths.items():
            docs.append({"text": tmpl.format(P=text), "refs": [[n, v]] + extra.get(pos, []), "origin": f"discovery: {pos}: {text}"})
    for pos, tmpl in name_positions.items():
        for text, (n, v) in names.items():
            docs.append({"text": tmpl.format(N=text), "refs": [[n, v]] + extra.get(pos, []), "origin": f"discovery: {pos}: {text}"})
    # references to one package that differ in version only, back to back and separated
    pairs = [("ref:pkg/x@1.0.0", "ref:pkg/y@2.0.0"), ("ref:pkg/x", "ref:pkg/y@2.0.0"), ("ref:pkg/x@1.0.0", "ref:pkg/x@1.0.1")]
    for a, b in pairs:
        ra = ["ref:pkg", a.split("@")[1] if "@" in a else None]
        rb = ["ref:pkg", b.split("@")[1] if "@" in b else None]
        docs.append({"text": head + f"import a: {a};\nimport b: {b};\n", "refs": [ra, rb], "origin": f"discovery: two versions back to back: {a} {b}"})
        docs.append({"text": head + f"interface i {{ use {a} . {{ s }}; use {b} . {{ t }}; }}\n", "refs": [ra, rb], "origin": f"discovery: two versions in one interface: {a} {b}"})
        docs.append({"text": head + f"import a: {a};\nimport o: other:pkg/z;\nimport b: {b};\n", "refs": [ra, ["other:pkg", None], rb],
                     "origin": f"discovery: two versions separated: {a} {b}"})
    docs.append({"text": head + "let a = new ref:pkg@1.0.0 {};\nlet b = new ref:pkg@2.0.0 {};\nlet c = new ref:pkg {};\n",
                 "refs": [["ref:pkg", "1.0.0"], ["ref:pkg", "2.0.0"], ["ref:pkg", None]], "origin": "discovery: three versions of one instantiated package"})
    for d in docs:
        d.update({"expect": "any", "key": "discovery", "own": "test:comp", "self_new": False, "kf": []})
    return docs


def run_property(prop, tier, report):
    if prop == "C14":
        return run_c14(tier, report)
    docs, stats, sents = build_docs(tier)
    if prop == "C17":
        for d in discovery_docs():
            d["id"] = len(docs)
            docs.append(d)
    # the repository's own documents: accepted ones must round-trip, none may crash
    import re
    for p in repo_wac_files():
        with open(p) as fh:
            text = fh.read()
        # rough token kinds, only to name the known-finding shapes a shipped file contains
        bare = re.sub(r"//[^\n]*", " ", re.sub(r"/\*.*?\*/", " ", text, flags=re.S))
        rough = re.findall(r'\.\.\.|->|[{}()<>,;:.=\[\]_]|"[^"]*"|[%A-Za-z][A-Za-z0-9:/%@+-]*', bare)
        rough = [t if not (t[0].isalpha() or t[0] == "%") or t in TYPE_STARTS or t in ("with", "result", "borrow") else "ID"
                 for t in rough]
        docs.append({"id": len(docs), "text": text, "expect": "any", "origin": os.path.relpath(p, REPO),
                     "kf": shape_flags(rough)})
    findings, summary = run_parsecheck(docs)
    if summary["docs"] != len(docs):
        raise ToolError(f"parsecheck consumed {summary['docs']} of {len(docs)} documents")
    mine = [f for f in map(classify, findings) if f["class"] in CLASSES[prop]]
    report.add_findings(mine, "front-parsecheck")
    cov = report.coverage
    cov["states"] = stats["generator_states"] + stats["recogniser_states"]
    cov["transitions"] = stats["generator_transitions"] + stats["recogniser_transitions"]
    cov["traces_validated_against_impl"] = summary["docs"]
    cov["documents"] = dict(stats, repo_files=len(repo_wac_files()), **{k: summary[k] for k in ("accepted", "rejected", "printed", "discovered")})
    cov["rule"] = ("sentences are derivations of the grammar machine (all sentences of at most 9 tokens, plus random "
                   "derivations of up to 60 tokens with random lexemes and layout); near misses are single-unit "
                   "deletions, duplications, substitutions and swaps, classified by the same machine run as a "
                   "recogniser; forbidden code points are placed in trivia, comments, strings and identifiers")
    cov["samples"] = [{"text": s.text[:300], "origin": s.origin} for s in sents[5:400:150]] + \
                     [{"mutant": d["text"][:200], "expect": d["expect"], "origin": d["origin"]} for d in docs if d.get("key") == "mutant"][3:5]
    if prop == "C17":
        # discovery is sufficient for resolution: every program of the WAC evaluator's state space
        # (spec/Wac.tla) resolves the same with only the discovered packages as with all of them
        from . import wac as wacmod
        from .common import HARNESS, hbin, pipe_gz_to
        # (the program space of the quick models in both tiers: the thorough one has several million programs
        # and a single-threaded double resolution of each does not finish within the tier's time)
        path, wstats = wacmod.artefacts("quick")
        f2, s2 = pipe_gz_to([hbin("wacreplay"), "--data", os.path.join(HARNESS, "data"), "--prop", "C17"], [path], timeout=7200)
        report.add_findings(f2, "wacreplay-discovery")
        cov["resolution_equivalence_checks"] = s2["discovery_checks"]
        cov["resolution_equivalence_programs"] = s2["programs"]
        cov["rule"] += ("; every program of spec/Wac.tla's state space (with and without a `targets` clause) is resolved "
                        "once with all packages and once with only the packages wac_resolver::packages() reports: same outcome")
