"""Graph family engines (C06, C01, C02, C03): REPLAY transition cover and trace validation."""
import gzip
import json
import os
import subprocess

from .common import (HARNESS, OUT, ROOT, SPEC, ToolError, build_harness, ensure_libs, hbin, log, seed,
                     tlc_cached)

CLASSES = {
    "C06": {"result", "state", "invariant", "query", "panic", "digest", "ret", "trace", "listing"},
    "C01": {"encode_class", "encode_invalid", "encode_panic"},
    "C02": {"wiring"},
    "C03": {"interface", "listing"},
}

MODELS = {
    # (library, tier) -> cfg
    ("core", "quick"): "MC_Graph_core_q.cfg",
    ("core", "thorough"): "MC_Graph_core_t.cfg",
    ("ver", "quick"): "MC_Graph_ver_q.cfg",
    ("ver", "thorough"): "MC_Graph_ver_t.cfg",
    ("shape", "quick"): "MC_Graph_shape_q.cfg",
    ("shape", "thorough"): "MC_Graph_shape_t.cfg",
    ("dup", "quick"): "MC_Graph_dup_q.cfg",
    ("dup", "thorough"): "MC_Graph_dup_t.cfg",
    ("ver2", "quick"): "MC_Graph_ver2_q.cfg",
    ("ver2", "thorough"): "MC_Graph_ver2_t.cfg",
    ("extern", "quick"): "MC_Graph_extern_q.cfg",
    ("extern", "thorough"): "MC_Graph_extern_t.cfg",
    ("scoped", "quick"): "MC_Graph_scoped_q.cfg",
    ("scoped", "thorough"): "MC_Graph_scoped_t.cfg",
}


def replay(lib, tier, max_findings=300):
    """TLC (cached) -> REPLAY lines -> real CompositionGraph.  Returns (findings, summary, tlc stats)."""
    ensure_libs()
    cfg = MODELS[(lib, tier)]
    if not os.path.exists(os.path.join(SPEC, cfg)):
        raise ToolError(f"missing cfg {cfg}")
    outp, stats = tlc_cached(f"graph-{lib}-{tier}", "MC_Graph", cfg, workers=12,
                             timeout=3600 if tier == "thorough" else 900)
    if lib == "extern":
        # the code as found before 6a2e54e / 6159071 / 2764e40: TLC must refute the refinement
        for n in ("found1", "found2"):
            tlc_cached(f"graph-extern-{n}", "MC_Graph", f"MC_Graph_extern_{n}.cfg", workers=4, timeout=900,
                       keep=("NOTHING",), expect_violation="RefinesAbs")
    build_harness()
    cmd = [hbin("replay"), "graph", "--lib", lib, "--data", os.path.join(HARNESS, "data"),
           "--max-findings", str(max_findings), "--threads", "14"]
    with gzip.open(outp, "rb") as gz:
        p = subprocess.Popen(cmd, stdin=subprocess.PIPE, stdout=subprocess.PIPE, stderr=subprocess.PIPE)
        import threading
        out_chunks = []
        err_chunks = []
        t1 = threading.Thread(target=lambda: out_chunks.append(p.stdout.read()))
        t2 = threading.Thread(target=lambda: err_chunks.append(p.stderr.read()))
        t1.start(); t2.start()
        try:
            while True:
                chunk = gz.read(1 << 20)
                if not chunk:
                    break
                p.stdin.write(chunk)
            p.stdin.close()
        except BrokenPipeError:
            pass
        t1.join(); t2.join()
        rc = p.wait()
    if rc != 0:
        raise ToolError(f"replay failed rc={rc}: {err_chunks[0].decode(errors='replace')[-2000:]}")
    findings, summary = [], None
    for line in out_chunks[0].decode().splitlines():
        if not line.strip():
            continue
        r = json.loads(line)
        if r.get("summary"):
            summary = r
        else:
            findings.append(r)
    if summary is None:
        raise ToolError("replay produced no summary")
    if summary["lines"] != stats["lines"] or summary["lines"] == 0:
        raise ToolError(f"replay consumed {summary['lines']} of {stats['lines']} REPLAY lines")
    stats = dict(stats, path=outp)
    return findings, summary, stats


def tlc_json(line, tag="REPLAY"):
    """JSON text of a TLC PrintT(<<tag, json>>) line"""
    body = line.rstrip("\n")[len(f'<<"{tag}", "'):-len('">>')]
    return json.loads(body.replace('\\"', '"').replace("\\\\", "\\"))


def sample_lines(path, want=(40, 5000, 30000)):
    """a few REPLAY lines written out for the evidence file: history + the operations tried there"""
    out = []
    with gzip.open(path, "rt") as gz:
        for i, line in enumerate(gz):
            if i in want:
                v = tlc_json(line)
                out.append({
                    "history": v["hist"],
                    "accepted_ops_tried": [c["o"] for c in v["ok"]][:6],
                    "rejected_ops_tried": [[g["a"], g["ops"][:3]] for g in v["err"]][:4],
                    "encode_allowed": v["state"]["encode"],
                })
            if i > max(want):
                break
    return out


def tlc_validate_trace(trace_path, module, cfg, timeout=1200):
    """TLC as trace validator.  Returns (accepted, rejected_at_event_index_or_None, event, states)."""
    env = dict(os.environ)
    env["TRACE_FILE"] = trace_path
    env["JAVA_TOOL_OPTIONS"] = "-Xss1g -Dtlc2.tool.queue.IStateQueue=StateDeque"
    meta = os.path.join(OUT, "tlc_trace_meta_%d" % os.getpid())
    cmd = ["timeout", str(timeout), "tlc", "-workers", "1", "-metadir", meta, "-cleanup", "-noGenerateSpecTE",
           "-config", cfg, module + ".tla"]
    r = subprocess.run(cmd, cwd=SPEC, env=env, stdout=subprocess.PIPE, stderr=subprocess.STDOUT)
    import shutil
    shutil.rmtree(meta, ignore_errors=True)
    text = r.stdout.decode(errors="replace")
    import re
    m = re.search(r"(\d+) states generated, (\d+) distinct states found", text)
    states = int(m.group(2)) if m else 0
    rej = re.search(r'<<"TRACE-REJECTED", (\d+), "(.*)">>', text)
    if rej:
        ev = rej.group(2).replace('\\"', '"').replace("\\\\", "\\")
        return False, int(rej.group(1)), ev, states
    if "Model checking completed. No error has been found." in text and r.returncode == 0:
        return True, None, None, states
    if "Invariant" in text and "is violated" in text:
        return False, -1, text[-1500:], states
    raise ToolError("trace validation did not complete:\n" + text[-2500:])


def traces(lib, tier):
    """random driver -> ndjson events -> TLC (TraceGraph) checks they are a behaviour of GraphAbs"""
    ensure_libs()
    build_harness()
    runs, length, max_nodes = (60, 100, 8) if tier == "quick" else (800, 250, 12)
    tdir = os.path.join(OUT, "traces")
    os.makedirs(tdir, exist_ok=True)
    path = os.path.join(tdir, f"graph-{lib}-{tier}-{seed()}.ndjson")
    r = subprocess.run([hbin("drive"), "graph-random", "--lib", lib, "--data", os.path.join(HARNESS, "data"),
                        "--seed", str(seed()), "--runs", str(runs), "--len", str(length),
                        "--max-nodes", str(max_nodes), "--out", path],
                       stdout=subprocess.PIPE, stderr=subprocess.PIPE)
    if r.returncode != 0:
        raise ToolError("driver failed: " + r.stderr.decode(errors="replace")[-2000:])
    findings, summary = [], None
    for line in r.stdout.decode().splitlines():
        v = json.loads(line)
        if v.get("summary"):
            summary = v
        else:
            findings.append(v)
    validated_events = 0
    rejected = 0
    cur = path
    for attempt in range(6):
        ok, at, ev, states = tlc_validate_trace(cur, "TraceGraph", f"TraceGraph_{lib}.cfg")
        if ok:
            validated_events += states - 1
            break
        rejected += 1
        with open(cur) as f:
            lines = f.readlines()
        # the run that contains the rejected event, for the replay file
        start = max(i for i in range(0, min(at, len(lines))) if '"a":"reset"' in lines[i]) if at > 0 else 0
        findings.append({"class": "trace", "what": f"event {at} is not a step of the contract: {ev}",
                         "hist": [json.loads(l).get("o") for l in lines[start + 1:at]][-40:],
                         "op": json.loads(lines[at - 1]).get("o") if 0 < at <= len(lines) else None,
                         "trace_file": path, "event_index": at})
        # drop that run and validate the rest
        end = next((i for i in range(at, len(lines)) if '"a":"reset"' in lines[i]), len(lines))
        validated_events += start
        rest = lines[:start] + lines[end:]
        cur = path + f".rest{attempt}"
        with open(cur, "w") as f:
            f.writelines(rest)
        if not rest:
            break
    summary = dict(summary or {}, validated_events=validated_events, rejected_runs=rejected, trace_file=path)
    return findings, summary


def run_property(prop, tier, report):
    # core: every operation kind over a small library; ver: versioned interface names (semver
    # tracks, shared implicit imports, explicit imports on a track) with the packages pre-registered
    # shape: encode-relevant shapes (import-less package, repeated instantiation, type items,
    # anonymous compound tuple element), creation operations only
    # dup: versions of one package, exports of one instance sharing a function type, a compound result type
    # extern: extern names that differ in case only, locator names, a name bound to a kind of item
    # scoped: a function over a type exported next to it, aliased out of its instance / imported on its own
    libs = ["core", "ver", "shape", "dup", "ver2", "extern", "scoped"]
    total_states = total_trans = 0
    summaries = {}
    samples = []
    for lib in libs:
        findings, summary, stats = replay(lib, tier)
        mine = [f for f in findings if f["class"] in CLASSES[prop]]
        # a panic while encoding is reported by the encode check as class encode_class
        report.add_findings(mine, f"graph-replay-{lib}")
        total_states += stats["distinct"]
        total_trans += stats["generated"]
        summaries[lib] = {k: summary[k] for k in ("lines", "ops", "encodes", "decoded", "findings")}
        summaries[lib]["tlc_wall_s_when_generated"] = stats["wall_s"]
        summaries[lib]["findings_per_class"] = summary.get("per_class", {})
        samples += sample_lines(stats["path"])
    tsum = {}
    if prop in ("C06", "C01"):
        # implementation -> specification: long random histories over more nodes than TLC explores
        for lib in libs[:3]:
            tf, ts = traces(lib, tier)
            report.add_findings([f for f in tf if f["class"] in CLASSES[prop]], f"graph-trace-{lib}")
            tsum[lib] = ts
    cov = report.coverage
    if prop == "C01":
        # rich types: every component of the declaration / type universes (all value-type constructors,
        # resources, used types, core module and component imports) registered and instantiated must
        # encode to a valid component under the four option combinations
        from . import decl
        cf, cs = decl.c01_findings(tier)
        report.add_findings(cf, "declcheck-encode")
        cov["components_instantiated_and_encoded"] = cs["components"]
    if prop == "C03":
        # ... and, nothing being wired, it imports exactly what the component imports (same types,
        # resources by identity) and exports nothing
        from . import decl
        cf, cs = decl.c01_findings(tier, "c03_")
        report.add_findings([dict(f, **{"class": "interface"}) for f in cf], "declcheck-interface")
        cov["components_whose_imports_were_compared"] = cs["components"]
    cov["random_traces"] = tsum
    cov["samples"] = samples
    cov["states"] = total_states
    cov["transitions"] = total_trans
    cov["traces_validated_against_impl"] = sum(s["lines"] for s in summaries.values())
    cov["replay"] = summaries
    cov["exhaustive"] = True
    cov["rule"] = ("every distinct state of the bounded GraphImpl model (TLC, VIEW hides the history) is reached "
                   "in the real CompositionGraph by a shortest history; every candidate operation with live "
                   "identifiers is executed there once (accepted ones on a clone, with successor digest, "
                   "returned id, invariant hook and queries compared; rejected ones must return an allowed "
                   "error and leave the graph unchanged); the state is encoded under the four option "
                   "combinations, validated independently and decoded")
    return summaries
