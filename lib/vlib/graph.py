"""Graph family engines (C06, C01, C02, C03): REPLAY transition cover and trace validation."""
import gzip
import json
import os
import subprocess

from .common import (HARNESS, OUT, ROOT, SPEC, ToolError, build_harness, ensure_libs, hbin, log, seed,
                     tlc_cached)

CLASSES = {
    "C06": {"result", "state", "invariant", "query", "panic", "digest", "ret", "trace"},
    "C01": {"encode_class", "encode_invalid", "encode_panic"},
    "C02": {"wiring"},
    "C03": {"interface"},
}

MODELS = {
    # (library, tier) -> cfg
    ("core", "quick"): "MC_Graph_core_q.cfg",
    ("core", "thorough"): "MC_Graph_core_t.cfg",
    ("ver", "quick"): "MC_Graph_ver_q.cfg",
    ("ver", "thorough"): "MC_Graph_ver_t.cfg",
}


def replay(lib, tier, max_findings=300):
    """TLC (cached) -> REPLAY lines -> real CompositionGraph.  Returns (findings, summary, tlc stats)."""
    ensure_libs()
    cfg = MODELS[(lib, tier)]
    if not os.path.exists(os.path.join(SPEC, cfg)):
        raise ToolError(f"missing cfg {cfg}")
    outp, stats = tlc_cached(f"graph-{lib}-{tier}", "MC_Graph", cfg, workers=12,
                             timeout=3600 if tier == "thorough" else 900)
    build_harness()
    cmd = [hbin("replay"), "graph", "--lib", lib, "--data", os.path.join(HARNESS, "data"),
           "--max-findings", str(max_findings), "--threads", "14"]
    with gzip.open(outp, "rb") as gz:
        p = subprocess.Popen(cmd, stdin=subprocess.PIPE, stdout=subprocess.PIPE, stderr=subprocess.PIPE)
        import threading
        out_chunks = []
        err_chunks = []
        t1 = threading.Thread(target=lambda: out_chunks.append(p.stdout.read()))
        t2 = threading.Thread(target=lambda: err_chunks.append(p.stderr.read()))
        t1.start(); t2.start()
        try:
            while True:
                chunk = gz.read(1 << 20)
                if not chunk:
                    break
                p.stdin.write(chunk)
            p.stdin.close()
        except BrokenPipeError:
            pass
        t1.join(); t2.join()
        rc = p.wait()
    if rc != 0:
        raise ToolError(f"replay failed rc={rc}: {err_chunks[0].decode(errors='replace')[-2000:]}")
    findings, summary = [], None
    for line in out_chunks[0].decode().splitlines():
        if not line.strip():
            continue
        r = json.loads(line)
        if r.get("summary"):
            summary = r
        else:
            findings.append(r)
    if summary is None:
        raise ToolError("replay produced no summary")
    if summary["lines"] != stats["lines"] or summary["lines"] == 0:
        raise ToolError(f"replay consumed {summary['lines']} of {stats['lines']} REPLAY lines")
    stats = dict(stats, path=outp)
    return findings, summary, stats


def tlc_json(line, tag="REPLAY"):
    """JSON text of a TLC PrintT(<<tag, json>>) line"""
    body = line.rstrip("\n")[len(f'<<"{tag}", "'):-len('">>')]
    return json.loads(body.replace('\\"', '"').replace("\\\\", "\\"))


def sample_lines(path, want=(40, 5000, 30000)):
    """a few REPLAY lines written out for the evidence file: history + the operations tried there"""
    out = []
    with gzip.open(path, "rt") as gz:
        for i, line in enumerate(gz):
            if i in want:
                v = tlc_json(line)
                out.append({
                    "history": v["hist"],
                    "accepted_ops_tried": [c["o"] for c in v["ok"]][:6],
                    "rejected_ops_tried": [[g["a"], g["ops"][:3]] for g in v["err"]][:4],
                    "encode_allowed": v["state"]["encode"],
                })
            if i > max(want):
                break
    return out


def run_property(prop, tier, report):
    # core: every operation kind over a small library; ver: versioned interface names (semver
    # tracks, shared implicit imports, explicit imports on a track) with the packages pre-registered
    libs = ["core", "ver"]
    total_states = total_trans = 0
    summaries = {}
    samples = []
    for lib in libs:
        findings, summary, stats = replay(lib, tier)
        mine = [f for f in findings if f["class"] in CLASSES[prop]]
        # a panic while encoding is reported by the encode check as class encode_class
        report.add_findings(mine, f"graph-replay-{lib}")
        total_states += stats["distinct"]
        total_trans += stats["generated"]
        summaries[lib] = {k: summary[k] for k in ("lines", "ops", "encodes", "decoded", "findings")}
        summaries[lib]["tlc_wall_s_when_generated"] = stats["wall_s"]
        summaries[lib]["findings_per_class"] = summary.get("per_class", {})
        samples += sample_lines(stats["path"])
    cov = report.coverage
    cov["samples"] = samples
    cov["states"] = total_states
    cov["transitions"] = total_trans
    cov["traces_validated_against_impl"] = sum(s["lines"] for s in summaries.values())
    cov["replay"] = summaries
    cov["exhaustive"] = True
    cov["rule"] = ("every distinct state of the bounded GraphImpl model (TLC, VIEW hides the history) is reached "
                   "in the real CompositionGraph by a shortest history; every candidate operation with live "
                   "identifiers is executed there once (accepted ones on a clone, with successor digest, "
                   "returned id, invariant hook and queries compared; rejected ones must return an allowed "
                   "error and leave the graph unchanged); the state is encoded under the four option "
                   "combinations, validated independently and decoded")
    return summaries
