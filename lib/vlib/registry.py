"""C20: registry resolution (spec/Registry.tla + in-process Warg server)."""
import gzip
import json
import os
import subprocess

from .common import (ENV, HARNESS, OUT, ToolError, log, tlc_cached)
from .graph import tlc_json


def artefacts(tier):
    cfg = "Registry_q.cfg" if tier == "quick" else "Registry_t.cfg"
    return tlc_cached(f"registry-{tier}", "MC_Registry", cfg, workers=8, timeout=1800)


def build():
    r = subprocess.run(["cargo", "build", "--release", "--offline", "-p", "wac-verif-registry"], cwd=HARNESS, env=ENV,
                       stdout=subprocess.PIPE, stderr=subprocess.STDOUT)
    if r.returncode != 0:
        raise ToolError("registry harness build failed:\n" + r.stdout.decode(errors="replace")[-4000:])


def run_property(prop, tier, report):
    path, stats = artefacts(tier)
    build()
    quick = tier == "quick"
    # quick: every request of up to 2 keys and every 4th larger one; thorough: all
    sel = os.path.join(OUT, f"registry-{tier}.txt")
    n_sel = 0
    samples = []
    with gzip.open(path, "rt") as gz, open(sel, "w") as out:
        for i, line in enumerate(gz):
            v = tlc_json(line)
            if quick and len(v["req"]) > 2 and i % 4 != 0:
                continue
            if quick is False and len(v["req"]) > 3 and i % 3 != 0:
                continue
            out.write(line)
            n_sel += 1
            if n_sel in (3, 40, 200):
                samples.append(v)
        # requests of five and six keys (quick: every 8th), and the requests that mention the pre-release
        big, bstats = tlc_cached("registry-big", "MC_Registry", "Registry_big.cfg", workers=4, timeout=900)
        pre, pstats = tlc_cached("registry-pre", "MC_Registry", "Registry_pre.cfg", workers=4, timeout=900)
        n_big = n_pre = 0
        with gzip.open(big, "rt") as gz:
            for i, line in enumerate(gz):
                if quick and i % 8 != 0:
                    continue
                out.write(line)
                n_big += 1
        with gzip.open(pre, "rt") as gz:
            for line in gz:
                v = tlc_json(line)
                if any(k[1] == 4 for k in v["req"]):
                    out.write(line)
                    n_pre += 1
                    if n_pre == 5:
                        samples.append(v)
        n_sel += n_big + n_pre
        stats = dict(stats, distinct=stats["distinct"] + bstats["distinct"] + pstats["distinct"],
                     generated=stats["generated"] + bstats["generated"] + pstats["generated"],
                     lines=stats["lines"] + bstats["lines"] + pstats["lines"])
    with open(sel, "rb") as f:
        r = subprocess.run([os.path.join(HARNESS, "target", "release", "wac-verif-registry"),
                            "--workers", "1,4" if quick else "1,2,4"],
                           stdin=f, stdout=subprocess.PIPE, stderr=subprocess.PIPE, env=ENV)
    if r.returncode != 0:
        raise ToolError("registry replay failed: " + r.stderr.decode(errors="replace")[-2500:])
    findings, summary = [], None
    for line in r.stdout.decode().splitlines():
        v = json.loads(line)
        if v.get("summary"):
            summary = v
        else:
            findings.append(v)
    if not summary or summary["lines"] != n_sel:
        raise ToolError(f"registry replay consumed {summary and summary['lines']} of {n_sel} requests")
    report.add_findings(findings, "registry-replay")
    cov = report.coverage
    cov["states"] = stats["distinct"]
    cov["transitions"] = stats["generated"]
    cov["traces_validated_against_impl"] = summary["calls"]
    cov["requests_enumerated_by_tlc"] = stats["lines"]
    cov["requests_replayed"] = n_sel
    cov["resolve_calls"] = summary["calls"]
    cov["distinct_completion_orders_observed"] = summary["distinct_completion_orders"]
    cov["completion_orders_observed"] = summary["completion_orders"]
    cov["rule"] = ("TLC explores every request of 1..N distinct keys (N=3 quick, 4 thorough) over the registry {a: 1,2; b: 1; "
                   "c missing; version 3 missing} with every completion order of the download tasks and checks the result "
                   "against the contract; Registry_big.cfg adds every order of the five keys that have a meaning, alone "
                   "and followed by a key of the missing package (five and six keys: more than any cap on concurrent "
                   f"downloads; {n_big} replayed), Registry_pre.cfg a registry with a pre-release of a between its two "
                   f"releases ({n_pre} requests mentioning it replayed); the requests are replayed through the real RegistryPackageResolver against an "
                   "in-process Warg server (contents of 64 B / 30 kB / 600 kB, fresh client cache per call) on runtimes "
                   "with 1, (2,) 4 workers; hook H4 records the completion orders that actually happened")
    cov["samples"] = samples
    report.assumptions.append("local in-process Warg server only; no network faults")
