"""C15: semver-compatible name matching (NameMapSpec.tla, TraceNames.tla)."""
import gzip
import json
import os
import subprocess

from .common import (HARNESS, OUT, ROOT, SPEC, ToolError, apalache_cached, build_harness, hbin, log, pipe_gz_to, seed,
                     sh, tlc_cached, tlc_validate_trace)
import sys


INDUCTIVE = [
    ("Init => IndInv", ["--cinit=ConstInit", "--init=Init", "--inv=IndInv", "--length=0"]),
    ("IndInv /\\ Next => IndInv'", ["--cinit=ConstInit", "--init=IndInit", "--inv=IndInv", "--length=1"]),
    ("IndInv => LookupCorrect", ["--cinit=ConstInit", "--init=IndInit", "--inv=LookupCorrect", "--length=0"]),
    ("IndInv => NoForeignEntry", ["--cinit=ConstInit", "--init=IndInit", "--inv=NoForeignEntry", "--length=0"]),
]


def ensure_names():
    src = os.path.join(ROOT, "lib", "universe_names.py")
    outs = [os.path.join(SPEC, "Lib_names.tla"), os.path.join(HARNESS, "data", "names.json")]
    if not all(os.path.exists(o) for o in outs) or min(os.path.getmtime(o) for o in outs) < os.path.getmtime(src):
        sh([sys.executable, src])


def artefacts(tier):
    ensure_names()
    cfg = "NameMap_q.cfg" if tier == "quick" else "NameMap_t.cfg"
    m, ms = tlc_cached(f"names-map-{tier}", "NameMapSpec", cfg, workers=8, timeout=1800, keep=("REPLAY", "PAIRS"))
    p, ps = tlc_cached("names-pairs", "NamePairs", "NamePairs.cfg", workers=4, timeout=1800, keep=("PAIRS",))
    return (m, ms), (p, ps)


def run_property(prop, tier, report):
    (m, ms), (p, ps) = artefacts(tier)
    build_harness()
    findings, summary = pipe_gz_to([hbin("replay"), "names", "--data", os.path.join(HARNESS, "data")], [m, p])
    if summary["lines"] != ms["lines"] + ps["lines"]:
        raise ToolError(f"names replay consumed {summary['lines']} of {ms['lines'] + ps['lines']} lines")
    report.add_findings(findings, "names-replay")
    # random names beyond the exhaustive universes, validated by TLC against the contract
    n = 2000 if tier == "quick" else 30000
    tdir = os.path.join(OUT, "traces")
    os.makedirs(tdir, exist_ok=True)
    path = os.path.join(tdir, f"names-{tier}-{seed()}.ndjson")
    r = subprocess.run([hbin("drive"), "names-random", "--seed", str(seed()), "--events", str(n), "--out", path],
                       stdout=subprocess.PIPE, stderr=subprocess.PIPE)
    if r.returncode != 0:
        raise ToolError("names driver failed: " + r.stderr.decode(errors="replace")[-2000:])
    validated = 0
    cur = path
    rejected = 0
    for attempt in range(8):
        ok, at, ev, states = tlc_validate_trace(cur, "TraceNames", "TraceNames.cfg")
        if ok:
            validated += states - 1
            break
        rejected += 1
        report.add_findings([{"class": "names", "what": f"recorded verdict contradicts the contract: {ev}",
                              "trace_file": path, "event": json.loads(ev) if ev and ev.startswith("{") else ev}],
                            "names-trace")
        with open(cur) as f:
            lines = f.readlines()
        validated += max(0, at - 1)
        rest = lines[at:]
        cur = path + f".rest{attempt}"
        with open(cur, "w") as f:
            f.writelines(rest)
        if not rest:
            break
    with gzip.open(m, "rt") as gz:
        sample = [next(gz).strip()[:400] for _ in range(3)][-1]
    with open(path) as f:
        ev_samples = [json.loads(next(f)) for _ in range(2)]
    cov = report.coverage
    cov["states"] = ms["distinct"] + ps["distinct"]
    cov["transitions"] = ms["generated"] + ps["generated"]
    cov["traces_validated_against_impl"] = summary["lines"] + validated
    cov["exhaustive"] = True
    cov["map_states_replayed"] = ms["lines"] - (ms["lines"] - ms["distinct"])
    cov["lookups_compared"] = summary["gets"]
    cov["pairs_compared"] = summary["pairs"]
    cov["random_events_validated"] = validated
    cov["random_events_rejected"] = rejected
    cov["rule"] = ("NameMap: every insertion sequence (each insert with and without shadowing) up to the bound over the "
                   "14-name reduced universe is replayed into the real NameMap and every name of the universe is "
                   "looked up; relation: all ordered pairs of the 530-name universe of the property; plus random "
                   "names (large numbers, long bases, pre-release/build spellings) validated by TLC")
    cov["samples"] = [{"replay_line": sample}, {"random_events": ev_samples}]
    # unbounded: NameMapSpec refines NameMapInd (TLC), whose invariant is inductive (Apalache)
    ref, rs = tlc_cached("names-refine", "MC_NameMapRef", "NameMapRef_q.cfg", workers=4, timeout=1800, keep=("NOTHING",))
    cov["refinement_states"] = rs["distinct"]
    ind = apalache_cached("names-inductive", "NameMapInd", INDUCTIVE, only_if_cached=(tier == "quick"))
    cov["inductive_invariant"] = (
        {"tool": "apalache", "obligations": ind["obligations"], "seconds": ind["seconds"],
         "meaning": "for every universe of 6 names over 3 tracks with any track/rank assignment: Init => IndInv, IndInv /\\ Next => IndInv', "
                    "IndInv => LookupCorrect /\\ NoForeignEntry -- insertion sequences of any length; NameMapSpec refines NameMapInd (TLC)"}
        if ind else "not run in this tier (thorough discharges it; the result is cached by the content of NameMapInd.tla)")
