"""C19: the `wac` command line (spec/Cli.tla) against the hooked binary built from /repo."""
import gzip
import os
import subprocess
import time

from .common import ENV, HARNESS, REPO, ToolError, build_harness, ensure_libs, hbin, log, pipe_gz_to, tlc_cached
from .graph import tlc_json

WACBIN_DIR = os.path.join(HARNESS, "target", "wacbin")


def artefacts(tier):
    return tlc_cached("cli", "Cli", "Cli.cfg", workers=4, timeout=900)


def build_wac():
    """the wac binary from /repo's working tree with the hooks compiled in (dev profile: fastest rebuild)"""
    env = dict(ENV)
    env["CARGO_TARGET_DIR"] = WACBIN_DIR
    env["RUSTFLAGS"] = "--cfg wac_verif"
    t = time.time()
    r = subprocess.run(["cargo", "build", "--offline", "--bin", "wac"], cwd=REPO, env=env,
                       stdout=subprocess.PIPE, stderr=subprocess.STDOUT)
    if r.returncode != 0:
        raise ToolError("wac binary build failed:\n" + r.stdout.decode(errors="replace")[-3000:])
    log(f"[build] wac binary built in {time.time() - t:.1f}s")
    return os.path.join(WACBIN_DIR, "debug", "wac")


def run_property(prop, tier, report):
    ensure_libs()
    path, stats = artefacts(tier)
    build_harness()
    wac = build_wac()
    every = 3 if tier == "quick" else 1
    findings, summary = pipe_gz_to([hbin("clicheck"), "--wac", wac, "--data", os.path.join(HARNESS, "data"),
                                    "--every", str(every)], [path])
    report.add_findings(findings, "clicheck")
    if summary["rows"] == 0:
        raise ToolError("clicheck consumed no rows")
    samples = []
    with gzip.open(path, "rt") as gz:
        for i, line in enumerate(gz):
            if i in (3, 150, 300, 340):
                samples.append(tlc_json(line))
    cov = report.coverage
    cov["states"] = stats["distinct"]
    cov["transitions"] = max(stats["generated"], 1)
    cov["traces_validated_against_impl"] = summary["runs"]
    cov["rows_in_table"] = stats["lines"]
    cov["rows_run"] = summary["rows"]
    cov["process_runs"] = summary["runs"]
    cov["exhaustive"] = tier != "quick"
    cov["rule"] = ("every combination of the documented flags of compose (-t, -o, --import-dependencies, --no-validate, "
                   "deps via default dir / --deps-dir / --dep) x scenarios failing at parse, discovery, resolution, encoding "
                   "or with a missing input; plug with 1..3 plugs x -t x -o x scenarios; parse; targets (--wit and the "
                   "positional form of README.md).  Each row is run in a scratch directory with the hooked binary; exit "
                   "status, stdout, stderr, -o file and the EncodeOptions seen by the encoder are compared with the table, "
                   "the bytes with the in-process library pipeline (quick: every 3rd row)")
    cov["samples"] = samples
    report.assumptions.append("terminal-dependent behaviour (is_terminal) and colour are not exercised; no registry access")
