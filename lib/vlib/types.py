"""C07: subtype checking (spec/Types.tla, spec/SubRel.tla) -- three-way with wasmparser."""
import gzip
import json
import os
import subprocess
import sys

from .common import ENV, HARNESS, ROOT, SPEC, ToolError, build_harness, hbin, seed, sh, tlc_cached
from .graph import tlc_json


def ensure_types():
    src = os.path.join(ROOT, "lib", "universe_types.py")
    outs = [os.path.join(SPEC, "Lib_types.tla"), os.path.join(HARNESS, "data", "types.json")]
    if not all(os.path.exists(o) for o in outs) or min(os.path.getmtime(o) for o in outs) < os.path.getmtime(src):
        sh([sys.executable, src])
    src = os.path.join(ROOT, "lib", "universe_res.py")
    outs = [os.path.join(SPEC, "Lib_res.tla"), os.path.join(HARNESS, "data", "res.json")]
    if not all(os.path.exists(o) for o in outs) or min(os.path.getmtime(o) for o in outs) < os.path.getmtime(src):
        sh([sys.executable, src])


def res_artefacts():
    """the resource clause (ResSub.tla): replay lines for the checker as it is; TLC refutes the clause for the
    checker as it is (KF25, KF26) and proves the checker's part of it for the ideal (identities compared)"""
    ensure_types()
    pairs = tlc_cached("ressub-pairs", "MC_ResSub", "ResSub.cfg", workers=4, timeout=900, keep=("REPLAY",))
    tlc_cached("ressub-found", "MC_ResSub", "ResSub_found.cfg", workers=1, timeout=900, keep=("NOTHING",), expect_violation="ClauseArgsInv")
    tlc_cached("ressub-found2", "MC_ResSub", "ResSub_found2.cfg", workers=1, timeout=900, keep=("NOTHING",), expect_violation="ClauseInv")
    tlc_cached("ressub-ideal", "MC_ResSub", "ResSub_ideal.cfg", workers=4, timeout=900, keep=("NOTHING",))
    return pairs


def run_resources(report):
    path, stats = res_artefacts()
    with gzip.open(path, "rb") as gz:
        r = subprocess.run([hbin("rescheck"), "--data", os.path.join(HARNESS, "data")], input=gz.read(),
                           stdout=subprocess.PIPE, stderr=subprocess.PIPE, env=ENV)
    if r.returncode != 0:
        raise ToolError("rescheck failed: " + r.stderr.decode(errors="replace")[-2000:])
    findings, summary = [], None
    for line in r.stdout.decode().splitlines():
        v = json.loads(line)
        if v.get("summary"):
            summary = v
        else:
            findings.append(v)
    ref = [f for f in findings if f["class"] == "res_ref"]
    if ref:
        raise ToolError("ResSub.tla's reference layer disagrees with the validator (a defect of the specification): "
                        + json.dumps(ref[0]))
    if summary is None or summary["pairs"] == 0 or summary["validated"] == 0:
        raise ToolError("rescheck replayed nothing")
    report.add_findings(findings, "rescheck")
    cov = report.coverage
    cov["resource_pairs"] = summary["pairs"]
    cov["resource_arguments_checked"] = summary["args"]
    cov["resource_pairs_all_accepted_and_validated"] = summary["validated"]
    cov["resource_model_states"] = stats["distinct"]
    return summary, stats


def artefacts(tier):
    ensure_types()
    pairs = tlc_cached("subrel-pairs", "SubRel", "SubRel_pairs.cfg", workers=4, timeout=1800, keep=("SUBS",))
    memo = tlc_cached(f"subrel-memo-{tier}", "SubRel", "SubRel_memo.cfg" if tier == "quick" else "SubRel_memo_t.cfg",
                      workers=8, timeout=3600, keep=("NOTHING",))
    return pairs, memo


def run_property(prop, tier, report):
    (pairs, ps), (memo, ms) = artefacts(tier)
    build_harness()
    with gzip.open(pairs, "rb") as gz:
        r = subprocess.run([hbin("typecheck"), "--data", os.path.join(HARNESS, "data"), "--seed", str(seed()),
                            "--orders", "3" if tier == "quick" else "12", "--wire-every", "7" if tier == "quick" else "1"],
                           input=gz.read(), stdout=subprocess.PIPE, stderr=subprocess.PIPE, env=ENV)
    if r.returncode == 3:
        raise ToolError("the TLA+ relation disagrees with the reference validator (a defect of the specification):\n"
                        + r.stderr.decode(errors="replace")[-2000:])
    if r.returncode != 0:
        raise ToolError("typecheck failed: " + r.stderr.decode(errors="replace")[-2000:])
    findings, summary = [], None
    for line in r.stdout.decode().splitlines():
        v = json.loads(line)
        if v.get("summary"):
            summary = v
        else:
            findings.append(v)
    report.add_findings(findings, "typecheck")
    cov = report.coverage
    rsum, rstats = run_resources(report)
    cov["states"] = ps["distinct"] + ms["distinct"] + rstats["distinct"]
    cov["transitions"] = max(ps["generated"] + ms["generated"] + rstats["generated"], 1)
    cov["traces_validated_against_impl"] = summary["pairs"] + rsum["pairs"]
    cov["kinds"] = summary["kinds"]
    cov["ordered_pairs_three_way"] = summary["pairs"]
    cov["checks_through_a_shared_memo"] = summary["memo_checks"]
    cov["pairs_wired_and_encoded"] = summary["wired"]
    cov["memo_model_states"] = ms["distinct"]
    cov["exhaustive"] = True
    cov["resource_rule"] = ("ResSub.tla: every (provider, consumer) pair of the 41-side resource universe (interfaces `types`, "
                            "`other`, `api`, `api2`; a user's resource defined by itself or used from `types.res`, `types.res2` "
                            "(renamed) or `other.res`; own/borrow handles): the provider defines the resources and exports the "
                            "instances, every import of the consumer the provider has an export for is supplied with it; the "
                            "per-argument verdict of set_instantiation_argument must equal the Impl layer (resources compared by "
                            "the name of the resolved resource) and, when all were accepted, wasmparser's verdict on the encoded "
                            "composition must equal the reference layer (resource identity through the binding of the supplied "
                            "arguments).  TLC refutes the clause for the checker as it is (KF25: equal names, different "
                            "resources; KF26: an import left over that uses a resource of a supplied import) and proves the "
                            "checker's part for identities compared (ResSub_ideal.cfg)")
    cov["rule"] = ("every ordered pair of the 143-kind universe (value types of depth <= 2 over all constructors with "
                   "renames/arity/arm variations wrapped as function parameters, function types incl. async, instances "
                   "and components with width/depth variations): Types.tla's Sub, wasmparser's is_subtype_of on the two "
                   "types inside one validated component and wac's SubtypeChecker (one shared and two separate Types) "
                   "must agree; all pairs are re-checked through one shared memo in several random orders; accepted "
                   "pairs are wired with set_instantiation_argument and the encoding validated; the memo machine of "
                   "SubRel.tla is model checked for all orders of up to 2 (3) checks")
    cov["samples"] = [{"pair": [3, 5]}, {"note": "kind i is harness/data/types.json[i-1]"}]
    report.assumptions.append("value-kinded items are not in the universe; resources: interfaces of one or two resources with "
                              "one handle-taking function each, one provider per consumer (the clause speaks of one provider)")
