"""C07: subtype checking (spec/Types.tla, spec/SubRel.tla) -- three-way with wasmparser."""
import gzip
import json
import os
import subprocess
import sys

from .common import ENV, HARNESS, ROOT, SPEC, ToolError, build_harness, hbin, seed, sh, tlc_cached
from .graph import tlc_json


def ensure_types():
    src = os.path.join(ROOT, "lib", "universe_types.py")
    outs = [os.path.join(SPEC, "Lib_types.tla"), os.path.join(HARNESS, "data", "types.json")]
    if not all(os.path.exists(o) for o in outs) or min(os.path.getmtime(o) for o in outs) < os.path.getmtime(src):
        sh([sys.executable, src])


def artefacts(tier):
    ensure_types()
    pairs = tlc_cached("subrel-pairs", "SubRel", "SubRel_pairs.cfg", workers=4, timeout=1800, keep=("SUBS",))
    memo = tlc_cached(f"subrel-memo-{tier}", "SubRel", "SubRel_memo.cfg" if tier == "quick" else "SubRel_memo_t.cfg",
                      workers=8, timeout=3600, keep=("NOTHING",))
    return pairs, memo


def run_property(prop, tier, report):
    (pairs, ps), (memo, ms) = artefacts(tier)
    build_harness()
    with gzip.open(pairs, "rb") as gz:
        r = subprocess.run([hbin("typecheck"), "--data", os.path.join(HARNESS, "data"), "--seed", str(seed()),
                            "--orders", "3" if tier == "quick" else "12", "--wire-every", "7" if tier == "quick" else "1"],
                           input=gz.read(), stdout=subprocess.PIPE, stderr=subprocess.PIPE, env=ENV)
    if r.returncode == 3:
        raise ToolError("the TLA+ relation disagrees with the reference validator (a defect of the specification):\n"
                        + r.stderr.decode(errors="replace")[-2000:])
    if r.returncode != 0:
        raise ToolError("typecheck failed: " + r.stderr.decode(errors="replace")[-2000:])
    findings, summary = [], None
    for line in r.stdout.decode().splitlines():
        v = json.loads(line)
        if v.get("summary"):
            summary = v
        else:
            findings.append(v)
    report.add_findings(findings, "typecheck")
    cov = report.coverage
    cov["states"] = ps["distinct"] + ms["distinct"]
    cov["transitions"] = max(ps["generated"] + ms["generated"], 1)
    cov["traces_validated_against_impl"] = summary["pairs"]
    cov["kinds"] = summary["kinds"]
    cov["ordered_pairs_three_way"] = summary["pairs"]
    cov["checks_through_a_shared_memo"] = summary["memo_checks"]
    cov["pairs_wired_and_encoded"] = summary["wired"]
    cov["memo_model_states"] = ms["distinct"]
    cov["exhaustive"] = True
    cov["rule"] = ("every ordered pair of the 143-kind universe (value types of depth <= 2 over all constructors with "
                   "renames/arity/arm variations wrapped as function parameters, function types incl. async, instances "
                   "and components with width/depth variations): Types.tla's Sub, wasmparser's is_subtype_of on the two "
                   "types inside one validated component and wac's SubtypeChecker (one shared and two separate Types) "
                   "must agree; all pairs are re-checked through one shared memo in several random orders; accepted "
                   "pairs are wired with set_instantiation_argument and the encoding validated; the memo machine of "
                   "SubRel.tla is model checked for all orders of up to 2 (3) checks")
    cov["samples"] = [{"pair": [3, 5]}, {"note": "kind i is harness/data/types.json[i-1]"}]
    report.assumptions.append("core module types and value-kinded items are not in the universe; resources only through the graph libraries")
