"""C09: aggregation of import requirements (spec/Agg.tla, MC_Agg.tla) -- replay into TypeAggregator."""
import gzip
import json
import os
import subprocess
import sys

from .common import ENV, HARNESS, ROOT, SPEC, ToolError, build_harness, hbin, sh, tlc_cached

MODELS = {
    "quick": [("all3", "Agg_all3.cfg"), ("core4", "Agg_core4.cfg"), ("uses4", "Agg_uses4.cfg"), ("build4", "Agg_build4.cfg"), ("shape4", "Agg_shape4.cfg"), ("world3", "Agg_world3.cfg"), ("more3", "Agg_more3.cfg"), ("shared3", "Agg_shared3.cfg")],
    "thorough": [("all3", "Agg_all3.cfg"), ("core4", "Agg_core4.cfg"), ("uses4", "Agg_uses4.cfg"), ("build4", "Agg_build4.cfg"), ("shape4", "Agg_shape4.cfg"), ("world3", "Agg_world3.cfg"), ("more3", "Agg_more4.cfg"), ("shared3", "Agg_shared3.cfg"), ("core5", "Agg_core5.cfg")],
}


def ensure_universe():
    src = os.path.join(ROOT, "lib", "universe_agg.py")
    outs = [os.path.join(SPEC, "Lib_agg.tla"), os.path.join(HARNESS, "data", "agg.json")]
    if not all(os.path.exists(o) for o in outs) or min(os.path.getmtime(o) for o in outs) < os.path.getmtime(src):
        sh([sys.executable, src])


def artefacts(tier):
    ensure_universe()
    out = []
    for name, cfg in MODELS[tier]:
        out.append((name,) + tlc_cached(f"agg-{name}", "MC_Agg", cfg, workers=8, timeout=3600, keep=("REPLAY",)))
    # the code as found before the repair: TLC must report the violation (the model can tell the difference)
    found = tlc_cached("agg-found", "MC_Agg", "Agg_found.cfg", workers=4, timeout=900, keep=("NOTHING",), expect_violation="Satisfies")
    tlc_cached("agg-found2", "MC_Agg", "Agg_found2.cfg", workers=4, timeout=900, keep=("NOTHING",), expect_violation="OneImportPerKey")
    # the ideal (owner imports aggregated like requirements, KF24 repaired) meets the contract with nothing excused
    tlc_cached("agg-ideal", "MC_Agg", "Agg_ideal.cfg", workers=4, timeout=900, keep=("NOTHING",))
    # merge_world / merge_module_type as they are: "the merged type satisfies every contributor" is refuted (KF28);
    # the greatest common subtype (CMerge) meets every invariant with nothing excused
    tlc_cached("agg-found3", "MC_Agg", "Agg_found3.cfg", workers=4, timeout=900, keep=("NOTHING",), expect_violation="SatisfiesAll")
    tlc_cached("agg-world-ideal", "MC_Agg", "Agg_world_ideal.cfg", workers=4, timeout=900, keep=("NOTHING",))
    # the remap table as it is: a merge into one name of a shared instance type definition reaches the other (KF29)
    tlc_cached("agg-found4", "MC_Agg", "Agg_found4.cfg", workers=4, timeout=900, keep=("NOTHING",), expect_violation="MatchesByKeyAll")
    tlc_cached("agg-shared-ideal", "MC_Agg", "Agg_shared_ideal.cfg", workers=4, timeout=900, keep=("NOTHING",))
    return out, found


def run_property(prop, tier, report):
    models, _ = artefacts(tier)
    build_harness()
    cov = report.coverage
    tot = {"histories": 0, "steps": 0, "ok_histories": 0, "sub_checks": 0, "composed": 0}
    states = transitions = 0
    for name, path, stats in models:
        with gzip.open(path, "rb") as gz:
            r = subprocess.run([hbin("aggcheck"), "--data", os.path.join(HARNESS, "data")], input=gz.read(),
                               stdout=subprocess.PIPE, stderr=subprocess.PIPE, env=ENV)
        if r.returncode != 0:
            raise ToolError(f"aggcheck failed on {name}: " + r.stderr.decode(errors="replace")[-2000:])
        findings, summary = [], None
        for line in r.stdout.decode().splitlines():
            v = json.loads(line)
            if v.get("summary"):
                summary = v
            else:
                v["model"] = name
                findings.append(v)
        if summary is None or summary["histories"] == 0:
            raise ToolError(f"aggcheck replayed nothing for {name}")
        report.add_findings(findings, "aggcheck")
        for k in tot:
            tot[k] += summary[k]
        states += stats["distinct"]
        transitions += stats["generated"]
    cov["states"] = states
    cov["transitions"] = max(transitions, 1)
    cov["traces_validated_against_impl"] = tot["histories"]
    cov["aggregate_calls"] = tot["steps"]
    cov["histories_expected_ok"] = tot["ok_histories"]
    cov["merged_subtype_checks"] = tot["sub_checks"]
    cov["histories_composed_and_decoded"] = tot["composed"]
    cov["models"] = [m[0] for m in models]
    cov["exhaustive"] = True
    cov["rule"] = ("every sequence (= every multiset in every order) of up to 3 of the 44 contributors, up to 4 (thorough 5) of "
                   "the 12-contributor version/conflict core, up to 4 of the used-type contributors and up to 4 of the 13 "
                   "shape contributors (shared function type definitions, a resource required directly / through a user / "
                   "through a user only): TLC checks that the "
                   "code-shaped aggregator of Agg.tla meets the declarative contract (fails exactly on incompatible pairs, one "
                   "import per compatibility key under the highest version, unions, redirects, merged <: contributor, "
                   "idempotence); each history is replayed into TypeAggregator with every contributor decoded into its own "
                   "Types: outcome, imported names, merged kinds incl. used types, canonical names, SubtypeChecker merged <: "
                   "requirement, use-transparency (a used type is the type its source interface exports: same resource "
                   "after resolving aliases; handles name that resource); whole-component histories are also composed with "
                   "CompositionGraph::encode and the imports of the validated output read back by the independent decoder "
                   "(names, kinds, number of distinct resources).  Agg_found.cfg / Agg_found2.cfg: TLC refutes Satisfies / "
                   "OneImportPerKey for the code as found before 18a947f / 921573d; Agg_ideal.cfg: the design with KF24 "
                   "repaired meets every invariant with nothing excused")
    cov["samples"] = [{"h": [25, 26], "meaning": "nested instance {n:{x}} then {n:{x,y}} on one track"},
                      {"h": [32, 30], "meaning": "types@0.2.0 + user, then types@0.2.1 with one more export"}]
    report.assumptions.append("component- and module-kinded requirements are aggregated at API level only (KF18: such imports "
                              "cannot be encoded) and, where two differ, checked against contract-or-Impl-layer (KF28); value-kinded "
                              "requirements are not in the universe; resources appear as exports of interfaces only; "
                              "import order is not compared (the property excludes it); in histories of shape "
                              "`owner-import-name` (KF24) the name of the owner's import is excused, its key and kind are not")
