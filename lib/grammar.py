#!/usr/bin/env python3
"""The WAC grammar of LANGUAGE.md, production by production, as data.

Emits spec/Lib_grammar.tla (plain BNF tables for the pushdown machine of spec/Grammar.tla) and
harness/data/grammar.json (lexeme and trivia tables used to render token sequences to text).

Notation of a right-hand side (a string):  terminals are quoted ('import', '{'), everything else
is a nonterminal;  X*  X?  and parenthesised groups are desugared into auxiliary nonterminals.

Amendments to the literal EBNF are allowed only where LANGUAGE.md's own prose/examples or the
WIT grammar it extends contradict it; each is marked AMENDMENT with its citation.
"""
import json
import os
import re
import sys

ROOT = os.path.dirname(os.path.dirname(os.path.abspath(__file__)))

# ------------------------------------------------------------------ lexeme pools (terminal classes)
IDS = ["a", "foo-bar", "x1", "%use", "b2-c"]          # %use: an escaped keyword
STRINGS = ['"s"', '"a:b/c"', '"x-y"']
VERSIONS = ["1.0.0", "0.2.1-rc.1", "1.2.3+b.7"]
# package names / paths are single lexical tokens (as in WIT: no interior whitespace)
PKGNAMES = ["foo:bar", "a:b:c", "foo:bar-ext"]          # the last one has the first as a string prefix
PKGPATHS = ["foo:bar/baz", "a:b/c/d", "foo:bar-ext/baz", "foo:barx/q"]

GRAMMAR = r"""
document  ::= package-decl statement*
statement ::= import-statement | type-statement | let-statement | export-statement

package-decl ::= 'package' package-name ( 'targets' package-path )? ';'
package-name ::= PKGNAME ( '@' VERSION )?

import-statement ::= 'import' id ( 'as' ( id | STRING ) )? ':' import-type ';'
import-type      ::= package-path | func-type | inline-interface | id
package-path     ::= PKGPATH ( '@' VERSION )?

type-statement      ::= interface-decl | world-decl | type-decl
interface-decl      ::= 'interface' id '{' interface-item* '}'
interface-item      ::= use-type | item-type-decl | interface-export
use-type            ::= 'use' use-path '.' '{' use-items '}' ';'
use-path            ::= package-path | id
use-items           ::= use-item ( ',' use-item )* ','?
use-item            ::= id ( 'as' id )?
interface-export    ::= id ':' func-type-ref ';'
world-decl          ::= 'world' id '{' world-item* '}'
world-item          ::= use-type | item-type-decl | world-import | world-export | world-include
world-import        ::= 'import' world-item-path ';'
world-export        ::= 'export' world-item-path ';'
world-item-path     ::= named-world-item | package-path | id
named-world-item    ::= id ':' extern-type
extern-type         ::= func-type | inline-interface | id
inline-interface    ::= 'interface' '{' interface-item* '}'
world-include       ::= 'include' world-ref ( 'with' '{' world-include-items '}' )? ';'
world-include-items ::= world-include-item ( ',' world-include-item )* ','?
world-include-item  ::= id 'as' id
world-ref           ::= package-path | id
type-decl           ::= variant-decl | record-decl | flags-decl | enum-decl | type-alias
item-type-decl      ::= resource-decl | type-decl
resource-decl       ::= 'resource' id ( ';' | '{' resource-item* '}' )
resource-item       ::= constructor-decl | method
constructor-decl    ::= 'constructor' param-list ';'
param-list          ::= '(' params? ')'
method              ::= id ':' 'static'? func-type ';'
variant-decl        ::= 'variant' id '{' variant-cases '}'
variant-cases       ::= variant-case ( ',' variant-case )* ','?
variant-case        ::= id ( '(' ty ')' )?
record-decl         ::= 'record' id '{' fields '}'
fields              ::= named-type ( ',' named-type )* ','?
flags-decl          ::= 'flags' id '{' ids '}'
ids                 ::= id ( ',' id )* ','?
enum-decl           ::= 'enum' id '{' ids '}'
type-alias          ::= 'type' id '=' ( func-type | ty ) ';'
func-type-ref       ::= func-type | id
func-type           ::= 'func' '(' params? ')' ( '->' results )?
params              ::= named-type ( ',' named-type )* ','?
results             ::= ty | '(' named-type ( ',' named-type )* ','? ')'
named-type          ::= id ':' ty
ty                ::= 'u8' | 's8' | 'u16' | 's16' | 'u32' | 's32' | 'u64' | 's64' | 'f32' | 'f64'
                      | 'char' | 'bool' | 'string' | tuple-type | list-type | option-type | result-type | borrow-type | id
tuple-type          ::= 'tuple' '<' ty ( ',' ty )* ','? '>'
list-type           ::= 'list' '<' ty '>'
option-type         ::= 'option' '<' ty '>'
result-type         ::= 'result' | 'result' '<' ty '>' | 'result' '<' '_' ',' ty '>' | 'result' '<' ty ',' ty '>'
borrow-type         ::= 'borrow' '<' ty '>'

let-statement           ::= 'let' id '=' expr ';'
expr                    ::= primary-expr postfix-expr*
primary-expr            ::= new-expr | nested-expr | id
new-expr                ::= 'new' package-name '{' instantiation-args '}'
instantiation-args      ::= instantiation-arg ( ',' instantiation-arg )* ( ',' '...'? )? | EMPTY-ARGS | '...'
instantiation-arg       ::= id | '...' id | named-instantiation-arg
named-instantiation-arg ::= ( id | STRING ) ':' expr
nested-expr             ::= '(' expr ')'
postfix-expr            ::= access-expr | named-access-expr
access-expr             ::= '.' id
named-access-expr       ::= '[' STRING ']'

export-statement        ::= 'export' expr export-options? ';'
export-options          ::= '...' | 'as' ( id | STRING )

id ::= ID
EMPTY-ARGS ::=
"""
# AMENDMENT (instantiation-args): `new a:b {}` and `new a:b { ... }` are used throughout the prose of
# LANGUAGE.md ("new a:b { ... }" in the sections on implicit imports and spreading) although the EBNF
# requires an argument before `...`; hence the two extra alternatives EMPTY-ARGS and '...'.
# AMENDMENT (param-list): `constructor` refers to param-list, which the EBNF never defines; it is the
# parenthesised parameter list of func-type.
# (the nonterminals tuple/list/option/result/borrow/constructor/type of the EBNF are spelled x-type / x-decl / ty here
# because their names coincide with keywords)
# AMENDMENT (package-name / package-path): lexical tokens (no interior trivia), as in WIT.

# nonterminals whose extent is bracketed in the generated token stream (a parse tree for the harness)
MARKED = ["import-statement", "type-statement", "let-statement", "export-statement", "package-decl",
          "package-name", "package-path", "new-expr", "interface-decl", "world-decl", "use-type",
          "world-include", "world-import", "world-export", "resource-decl", "named-instantiation-arg",
          "nested-expr", "inline-interface", "variant-decl", "record-decl", "flags-decl", "enum-decl",
          "type-alias", "func-type", "method", "constructor-decl"]

# where a package reference occurs (C17): the marked bracket and whether it is the document's own package
REF_BRACKETS = {"package-name": "new", "package-path": "path"}

TRIVIA = [" ", "\n", "  \t", " // line comment\n", " /* block */ ", "\r\n", " /* a /* nested */ b */ ", "\n\n  ",
          # doc comments are comments lexically; in front of a statement or item they are kept in the tree
          "\n/// a doc line\n", "\n/** a block doc\n  * with a second line\n    and an indented third\n */\n",
          # a blank line inside a block doc comment, an empty doc line, an empty block doc
          "\n/** before a blank line\n\n    after it */\n", "\n///\n/// after an empty doc line\n", "\n/** */\n"]

KEYWORDS = ["import", "as", "interface", "use", "world", "export", "include", "with", "resource", "constructor",
            "static", "variant", "record", "flags", "enum", "type", "func", "tuple", "list", "option", "result",
            "borrow", "let", "new", "package", "targets", "u8", "s8", "u16", "s16", "u32", "s32", "u64", "s64",
            "f32", "f64", "char", "bool", "string"]


# ------------------------------------------------------------------ EBNF -> BNF
class Desugar:
    def __init__(self):
        self.prods = {}     # nt -> list of alternatives (list of symbols)
        self.n = 0
        self.terminals = set()

    def fresh(self, base):
        self.n += 1
        return f"{base}#{self.n}"

    def tokenize(self, rhs):
        return re.findall(r"'[^']*'|[A-Za-z][A-Za-z0-9_-]*|[()|*?]", rhs)

    def parse_alts(self, toks, i, owner):
        """returns (list of alternatives, next index)"""
        alts, cur = [], []
        while i < len(toks):
            t = toks[i]
            if t == "|":
                alts.append(cur)
                cur = []
                i += 1
            elif t == ")":
                break
            elif t == "(":
                inner, i = self.parse_alts(toks, i + 1, owner)
                assert toks[i] == ")"
                i += 1
                g = self.fresh(owner)
                self.prods[g] = inner
                cur.append(g)
            elif t in ("*", "?"):
                x = cur.pop()
                g = self.fresh(owner)
                if t == "*":
                    self.prods[g] = [[], [x, g]]
                else:
                    self.prods[g] = [[], [x]]
                cur.append(g)
                i += 1
            else:
                if t.startswith("'"):
                    sym = t[1:-1]
                    self.terminals.add(sym)
                    cur.append(sym)
                else:
                    cur.append(t)
                i += 1
        alts.append(cur)
        return alts, i

    def load(self, text):
        text = re.sub(r"\n\s+\|", " |", text)
        for line in text.strip().splitlines():
            line = line.strip()
            if not line:
                continue
            lhs, rhs = line.split("::=", 1)
            lhs = lhs.strip()
            alts, i = self.parse_alts(self.tokenize(rhs), 0, lhs)
            self.prods[lhs] = alts
        # the lexical classes ID STRING VERSION PKGNAME PKGPATH are terminals; the generator picks a
        # lexeme of the class's pool when it emits one
        for alts in list(self.prods.values()):
            for a in alts:
                for s in a:
                    if s not in self.prods and not s.endswith("#"):
                        self.terminals.add(s)
        self.terminals = {t for t in self.terminals if t not in self.prods}
        return self


def min_lengths(prods, terminals):
    INF = 10 ** 6
    m = {t: 1 for t in terminals}
    m.update({n: INF for n in prods})
    changed = True
    while changed:
        changed = False
        for n, alts in prods.items():
            best = min((sum(m[s] for s in a) for a in alts), default=INF)
            if best < m[n]:
                m[n] = best
                changed = True
    return m


def tla_str(s):
    return '"' + s.replace("\\", "\\\\").replace('"', '\\"') + '"'


def emit():
    d = Desugar().load(GRAMMAR)
    m = min_lengths(d.prods, d.terminals)
    assert all(v < 10 ** 6 for v in m.values()), [k for k, v in m.items() if v >= 10 ** 6]
    t = ["---- MODULE Lib_grammar ----", "\\* GENERATED by lib/grammar.py from the EBNF of LANGUAGE.md -- do not edit",
         "EXTENDS TLC"]
    rows = []
    for n, alts in d.prods.items():
        alt_s = ", ".join("<<" + ", ".join(tla_str(s) for s in a) + ">>" for a in alts)
        rows.append(f"{tla_str(n)} :> {{{alt_s}}}")
    t.append("G_Prods == (" + "\n  @@ ".join(rows) + ")")
    t.append("G_Min == (" + " @@ ".join(f"{tla_str(k)} :> {v}" for k, v in m.items()) + ")")
    t.append("G_Marked == {" + ", ".join(tla_str(x) for x in MARKED) + "}")
    t.append("G_Terminals == {" + ", ".join(tla_str(x) for x in sorted(d.terminals)) + "}")
    t.append(f"G_TriviaCount == {len(TRIVIA)}")
    pools = {"ID": IDS, "STRING": STRINGS, "VERSION": VERSIONS, "PKGNAME": PKGNAMES, "PKGPATH": PKGPATHS}
    t.append("G_Pool == (" + " @@ ".join(f"{tla_str(k)} :> {len(v)}" for k, v in pools.items()) + ")")
    t.append("====")
    with open(os.path.join(ROOT, "spec", "Lib_grammar.tla"), "w") as f:
        f.write("\n".join(t) + "\n")
    data = {"trivia": TRIVIA, "keywords": KEYWORDS, "terminals": sorted(d.terminals), "marked": MARKED,
            "pools": pools}
    with open(os.path.join(ROOT, "harness", "data", "grammar.json"), "w") as f:
        json.dump(data, f, indent=1)
        f.write("\n")
    return d, m


if __name__ == "__main__":
    d, m = emit()
    print(len(d.prods), "nonterminals,", len(d.terminals), "terminals; min document length", m["document"])
