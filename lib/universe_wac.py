#!/usr/bin/env python3
"""Statement pool for C04 (spec/Wac.tla): every statement is an abstract syntax term, rendered
(a) as a TLA+ record for spec/Lib_wacpool.tla and (b) as WAC text for harness/data/wacpool.json,
so the evaluator of the specification and the real front end read the same programs.

  stmt  ("import", id, as|None, ty)        ty: ("func", sig) | ("iface", kind) | ("path", path, kind)
        ("let", id, expr)
        ("export", expr, opt)              opt: None | ("as", name) | "spread"
  expr  ("id", x) | ("new", pkg, [arg]) | ("acc", expr, id) | ("nacc", expr, name)
  arg   ("inf", id) | ("named", name, is_string, expr) | ("spread", id) | ("fill",)
"""
import json
import os
import sys

sys.path.insert(0, os.path.dirname(os.path.abspath(__file__)))
from universe import lib_wac, tla_kind, tla_str  # noqa: E402

ROOT = os.path.dirname(os.path.dirname(os.path.abspath(__file__)))

FUNC_TEXT = {"fA": "func(a: u32) -> u32", "fB": "func(b: u32, c: u32)"}
IFACE_TEXT = {"Ii": "interface { x: func(a: u32) -> u32; }", "Ik": "interface { y: func(b: u32, c: u32); }"}
PKG_NAME = {"wp": "test:prov", "wc": "test:cons", "wa": "test:amb", "wm": "test:mid", "wt": "test:tgt", "wv": "test:vcons", "wo": "test:odd",
            "nope": "test:nope", "self": "test:comp"}


def ident(x):
    return ("id", x)


def new(pkg, *args):
    return ("new", pkg, list(args))


def acc(e, i):
    return ("acc", e, i)


def nacc(e, n):
    return ("nacc", e, n)


def inf(i):
    return ("inf", i)


def named(n, e, string=False):
    return ("named", n, string, e)


def spread(i):
    return ("spread", i)


FILL = ("fill",)


def pool():
    P, C = "wp", "wc"
    p, c, i, k, f = ident("p"), ident("c"), ident("i"), ident("k"), ident("f")
    s = [
        # ---- imports
        ("import", "f", None, ("func", "fA")),
        ("import", "g", "f", ("func", "fA")),                       # local g, import name f
        ("import", "i", None, ("iface", "Ii")),                     # import name i, no interface id
        ("import", "i", "ns:p/i", ("iface", "Ii")),                 # import name ns:p/i, no interface id
        ("import", "i", None, ("path", "ns:p/i", "Ii")),            # by path: name and id ns:p/i
        ("import", "w", "my-i", ("path", "ns:p/i", "Ii")),          # by path with `as`: name my-i, id ns:p/i
        ("import", "k", None, ("iface", "Ik")),                     # import name k
        ("import", "f", None, ("func", "fB")),                      # wrong type for argument f
        ("import", "h", "bad name", ("func", "fA")),                # invalid import name
        # ---- lets: instances, accesses
        ("let", "p", new(P)),
        ("let", "i", acc(p, "i")),                                  # unique last segment: ns:p/i
        ("let", "k", acc(p, "k")),                                  # version stripped: ns:p/k@1.0.0
        ("let", "f", acc(p, "f")),
        ("let", "j", acc(p, "j")),                                  # ambiguous last segment: no export `j`
        ("let", "j", nacc(p, "ns:q/j")),
        ("let", "i", nacc(p, "ns:q/j")),                            # local i bound to an instance with id ns:q/j
        ("let", "x", acc(f, "nope")),                               # access on a function
        ("let", "x", nacc(p, "nope")),                              # missing export
        ("let", "y", ident("p")),                                   # let only names
        # ---- new: the four argument forms
        ("let", "c", new(C, inf("f"), inf("i"), inf("k"))),
        ("let", "c", new(C, named("f", f), named("ns:p/i", i, True), named("k", k))),
        ("let", "c", new(C, spread("p"))),
        ("let", "c", new(C, inf("f"), spread("p"))),
        ("let", "c", new(C, FILL)),
        ("let", "c", new(C, inf("i"), FILL)),
        ("let", "c", new(C, FILL, inf("i"))),                       # fill not last
        ("let", "c", new(C, inf("f"), named("f", f), FILL)),        # duplicate argument
        ("let", "c", new(C, inf("f"), inf("i"))),                   # missing argument
        ("let", "c", new(C, inf("f"), inf("i"), inf("k"), named("x", f))),   # no such import
        ("let", "c", new(C, named("f", k), FILL)),                  # mismatched type
        ("let", "a", new("wa", inf("i"), FILL)),                    # ambiguous last segment in the component
        ("let", "c", new(C, spread("f"), FILL)),                    # spread of a non-instance
        ("let", "c", new(C, spread("k"), FILL)),                    # spread with no matching export
        ("let", "c", new(C, inf("f"), inf("i"), named("k", acc(new("wm", inf("i")), "k")))),   # nested new
        ("let", "m", new("wm", spread("p"))),
        ("let", "c", new(C, spread("m"), spread("p"))),             # spreads apply in order
        ("let", "c", new(C, FILL, spread("p"))),                    # fill followed only by a spread: still not last
        ("let", "i", acc(p, "f")),                                  # local i bound to the access of export `f`
        ("let", "i", acc(p, "h")),                                  # ... of the plain instance export `h`
        ("let", "t", new("wt", inf("i"), FILL)),                    # accessed export name before last-segment match
        ("let", "t", new("wt", named("i", i), FILL)),               # named: identifier `i` means ns:p/i
        ("let", "q", new("nope")),                                  # unknown package
        ("let", "q", new("self")),                                  # the composition's own package
        # ---- exports
        ("export", acc(c, "run"), None),
        ("export", acc(c, "run"), ("as", "r2")),
        ("export", p, "spread"),
        ("export", c, "spread"),
        ("export", p, None),                                        # no name can be inferred
        ("export", i, None),
        ("export", f, None),
        ("export", k, ("as", "bad name")),
        ("export", nacc(c, "ns:p/out"), None),
        ("export", f, "spread"),                                    # spread of a non-instance
        ("export", acc(new(P), "f"), None),
        # ---- added for C11 (appended: earlier indices are quoted in seeds and evidence)
        ("let", "c", new(C, named("ns:p/k@1.0.0", acc(p, "k"), True), FILL)),   # leaves f and ns:p/i implicit
        ("let", "v", new("wv", FILL)),
        ("export", acc(ident("v"), "run"), None),
        ("import", "z", None, ("func", "fA")),
        ("export", acc(p, "f"), None),
        ("export", acc(p, "g"), None),
        # several named arguments, a later one instantiating another package (discovery must look at all of them)
        ("let", "c", new(C, named("f", f), named("ns:p/i", i, True), named("k", acc(new("wm", inf("i")), "k")))),
        ("let", "c", new(C, named("k", acc(new("wm", named("i", acc(new(P), "i"))), "k")), named("f", acc(new(P), "f")), FILL)),
        # a package whose import names carry `@` and `/` in unusual places; `dep` matches none of them
        ("let", "o", new("wo", named("dep", f), FILL)),
        ("let", "dep", acc(p, "f")),
        ("let", "o", new("wo", inf("dep"), FILL)),
        ("let", "o", new("wo", FILL)),
        # a function *type* declared (and thereby exported) under the name of a function export (C11 only)
        ("type", "run", "tfun", "type run = func(a: u32) -> u32;"),
        # a string name is exact: `"i"` / `"k"` are not imports of the package although one path ends in them
        ("let", "c", new(C, named("i", i, True), FILL)),
        ("let", "c", new(C, named("k", k, True), FILL)),
        # a spread that only matches arguments which are already given has no effect
        ("let", "c", new(C, inf("f"), inf("i"), inf("k"), spread("p"))),
        ("let", "c", new(C, inf("f"), spread("p"), spread("p"))),
    ]
    return s


def c04_focus(stmts):
    """type statements belong to C05; their exports are not comparable by the wiring decoder"""
    return [i + 1 for i, s in enumerate(stmts) if s[0] != "type"]


def targets_focus(stmts):
    """the statements C11 composes from: imports (right, wrong type, outside the world), instantiations
    leaving different implicit imports, exports by access / rename / spread"""
    P, C = "wp", "wc"
    p, c = ident("p"), ident("c")
    want = [
        ("import", "f", None, ("func", "fA")),
        ("import", "f", None, ("func", "fB")),
        ("import", "i", None, ("path", "ns:p/i", "Ii")),
        ("import", "z", None, ("func", "fA")),
        ("let", "p", new(P)),
        ("let", "c", new(C, FILL)),
        ("let", "c", new(C, inf("i"), FILL)),
        ("let", "c", new(C, spread("p"))),
        ("let", "c", new(C, named("ns:p/k@1.0.0", acc(p, "k"), True), FILL)),
        ("let", "v", new("wv", FILL)),
        ("export", acc(c, "run"), None),
        ("export", acc(c, "run"), ("as", "r2")),
        ("export", p, "spread"),
        ("export", c, "spread"),
        ("export", acc(ident("v"), "run"), None),
        ("export", acc(p, "f"), None),
        ("export", acc(p, "g"), None),
        ("type", "run", "tfun", "type run = func(a: u32) -> u32;"),
    ]
    return [stmts.index(w) + 1 for w in want]


# ------------------------------------------------------------------ target worlds (C11)
WIT_ITEM = {"fA": "func(a: u32) -> u32", "fB": "func(b: u32, c: u32)"}
# world: package, version, imports / exports as (name in the world's component type, kind, WIT item text)
WORLDS = {
    "w1": ("ns:p", None, [("ns:p/i", "Ii", "import i;")], [("run", "fA", "export run: func(a: u32) -> u32;")]),
    "w2": ("ns:p", None, [("ns:p/i", "Ii", "import i;"), ("f", "fA", "import f: func(a: u32) -> u32;")],
           [("run", "fA", "export run: func(a: u32) -> u32;"), ("ns:p/out", "Ii", "export out;")]),
    "w3": ("ns:p", None, [], [("f", "fA", "export f: func(a: u32) -> u32;"), ("g", "fB", "export g: func(b: u32, c: u32);")]),
    "w3b": ("ns:p", None, [], [("f", "fB", "export f: func(b: u32, c: u32);")]),
    "w4": ("ns:p", None, [("f", "fB", "import f: func(b: u32, c: u32);")], [("run", "fA", "export run: func(a: u32) -> u32;")]),
    "wv": ("ns:v", (1, 2, 0), [("ns:v/i@1.2.0", "Ii", "import i;")], [("run", "fA", "export run: func(a: u32) -> u32;")]),
    # an exported instance wider / narrower than what the provider's `h` ({x}) offers
    "w5": ("ns:p", None, [], [("h", "Ixz", "export h: interface { x: func(a: u32) -> u32; z: func(a: u32) -> u32; }")]),
    "w6": ("ns:p", None, [], [("h", "I0", "export h: interface { }")]),
}


def wit_packages():
    out = {}
    for pkg, ver in sorted({(w[0], w[1]) for w in WORLDS.values()}, key=str):
        head = f"package {pkg}" + ("@%d.%d.%d" % ver if ver else "") + ";\n\n"
        body = "interface i {\n  x: func(a: u32) -> u32;\n}\n\ninterface out {\n  x: func(a: u32) -> u32;\n}\n"
        for wid, w in WORLDS.items():
            if (w[0], w[1]) == (pkg, ver):
                body += f"\nworld {wid} {{\n" + "".join(f"  {it[2]}\n" for it in w[2] + w[3]) + "}\n"
        out[pkg] = {"version": "%d.%d.%d" % ver if ver else None, "text": head + body}
    return out


# ------------------------------------------------------------------ text
def q(s):
    return '"' + s + '"'


def extern_name(n):
    """an `as` / named-argument name: identifiers as such, anything else as a string"""
    ok = n and all(ch.islower() or ch.isdigit() or ch == "-" for ch in n) and n[0].isalpha()
    return n if ok else q(n)


def expr_text(e):
    if e[0] == "id":
        return e[1]
    if e[0] == "new":
        return f"new {PKG_NAME[e[1]]} {{ " + ", ".join(arg_text(a) for a in e[2]) + " }" if e[2] else f"new {PKG_NAME[e[1]]} {{}}"
    if e[0] == "acc":
        return f"{expr_text(e[1])}.{e[2]}"
    if e[0] == "nacc":
        return f"{expr_text(e[1])}[{q(e[2])}]"
    raise ValueError(e)


def arg_text(a):
    if a[0] == "inf":
        return a[1]
    if a[0] == "named":
        return (q(a[1]) if a[2] else a[1]) + ": " + expr_text(a[3])
    if a[0] == "spread":
        return "..." + a[1]
    return "..."


def stmt_text(s):
    if s[0] == "type":
        return s[3]
    if s[0] == "import":
        ty = s[3]
        t = FUNC_TEXT[ty[1]] if ty[0] == "func" else IFACE_TEXT[ty[1]] if ty[0] == "iface" else ty[1]
        return f"import {s[1]}" + (f" as {extern_name(s[2])}" if s[2] else "") + f": {t};"
    if s[0] == "let":
        return f"let {s[1]} = {expr_text(s[2])};"
    if s[0] == "export":
        e = expr_text(s[1])
        if s[2] is None:
            return f"export {e};"
        if s[2] == "spread":
            return f"export {e}...;"
        return f"export {e} as {q(s[2][1])};"
    raise ValueError(s)


# ------------------------------------------------------------------ TLA+
def expr_tla(e):
    if e[0] == "id":
        return f'[e |-> "id", id |-> {tla_str(e[1])}]'
    if e[0] == "new":
        return f'[e |-> "new", pkg |-> {tla_str(e[1])}, args |-> <<' + ", ".join(arg_tla(a) for a in e[2]) + ">>]"
    if e[0] == "acc":
        return f'[e |-> "acc", of |-> {expr_tla(e[1])}, id |-> {tla_str(e[2])}]'
    return f'[e |-> "nacc", of |-> {expr_tla(e[1])}, name |-> {tla_str(e[2])}]'


def arg_tla(a):
    if a[0] == "inf":
        return f'[a |-> "inf", id |-> {tla_str(a[1])}]'
    if a[0] == "named":
        return f'[a |-> "named", name |-> {tla_str(a[1])}, str |-> {"TRUE" if a[2] else "FALSE"}, e |-> {expr_tla(a[3])}]'
    if a[0] == "spread":
        return f'[a |-> "spread", id |-> {tla_str(a[1])}]'
    return '[a |-> "fill"]'


def stmt_tla(s):
    if s[0] == "type":
        return f'[s |-> "type", id |-> {tla_str(s[1])}, def |-> {tla_str(s[2])}]'
    if s[0] == "import":
        ty = s[3]
        # the import name: the `as` name, else the path for imports by path, else the local name
        name = s[2] if s[2] else (ty[1] if ty[0] == "path" else s[1])
        kind = ty[2] if ty[0] == "path" else ty[1]
        iid = ty[1] if ty[0] == "path" else "-"
        return (f'[s |-> "import", id |-> {tla_str(s[1])}, name |-> {tla_str(name)}, kind |-> {tla_str(kind)}, '
                f'iid |-> {tla_str(iid)}]')
    if s[0] == "let":
        return f'[s |-> "let", id |-> {tla_str(s[1])}, e |-> {expr_tla(s[2])}]'
    opt = "none" if s[2] is None else "spread" if s[2] == "spread" else "as"
    name = s[2][1] if opt == "as" else "-"
    return f'[s |-> "export", e |-> {expr_tla(s[1])}, opt |-> {tla_str(opt)}, name |-> {tla_str(name)}]'


def seg(n):
    """last path segment without the version ("" when the name is not a path)"""
    if "/" not in n:
        return ""
    s = n.rsplit("/", 1)[1]
    return s.split("@", 1)[0]


def emit():
    lib = lib_wac()
    stmts = pool()
    names = set(lib["import_names"]) | set(lib["export_names"])
    for v in lib["pkgs"].values():
        for n, k in v["imports"] + v["exports"]:
            names.add(n)
            if k[0] == "inst":
                names |= set(k[1].keys())
    # identifiers used for access / inference are looked up as names too
    names |= {"i", "k", "j", "f", "x", "nope", "p", "c", "m", "a", "g", "w", "h", "q", "y", "run", "t", "v", "z", "o", "dep"}
    for w in WORLDS.values():
        names |= {n for n, _, _ in w[2] + w[3]}
    t = ["---- MODULE Lib_wacpool ----", "\\* GENERATED by lib/universe_wac.py -- do not edit", "EXTENDS TLC", ""]
    t.append("W_Pool == <<\n  " + ",\n  ".join(stmt_tla(s) for s in stmts) + ">>")
    t.append("W_Seg == (" + " @@ ".join(f"{tla_str(n)} :> {tla_str(seg(n))}" for n in sorted(names)) + ")")
    t.append("W_Colon == (" + " @@ ".join(f"{tla_str(n)} :> {'TRUE' if ':' in n else 'FALSE'}" for n in sorted(names)) + ")")
    t.append("W_Packages == {" + ", ".join(tla_str(k) for k in lib["pkgs"]) + "}")
    t.append("W_TargetsFocus == {" + ", ".join(str(i) for i in targets_focus(stmts)) + "}")
    t.append("W_C04Focus == {" + ", ".join(str(i) for i in c04_focus(stmts)) + "}")

    def items(xs):
        return "(" + " @@ ".join(f"{tla_str(n)} :> {tla_kind(lib['kinds'][k])}" for n, k, _ in xs) + ")" if xs else "<<>>"
    t.append("W_Worlds == (" + " @@ ".join(
        f"{tla_str(wid)} :> [imports |-> {items(w[2])}, exports |-> {items(w[3])}]" for wid, w in WORLDS.items()) + ")")
    t.append("====")
    with open(os.path.join(ROOT, "spec", "Lib_wacpool.tla"), "w") as f:
        f.write("\n".join(t) + "\n")
    worlds = {wid: {"path": f"{w[0]}/{wid}" + ("@%d.%d.%d" % w[1] if w[1] else ""), "package": w[0], "world": wid}
              for wid, w in WORLDS.items()}
    data = {"package": "test:comp", "statements": [stmt_text(s) for s in stmts], "wit_packages": wit_packages(), "worlds": worlds}
    with open(os.path.join(ROOT, "harness", "data", "wacpool.json"), "w") as f:
        json.dump(data, f, indent=1)
        f.write("\n")
    # C16: documents in which several items are wrong in the same way -- which one the diagnostic names
    # must not depend on the iteration order of a hash map
    det_docs = [
        "package test:comp;\nworld w1 {}\nworld w2 { include w1 with { a as b, c as d, e as f, g as h }; }\n",
        "package test:comp;\nworld w1 { import a: func(); }\nworld w2 { include w1 with { x as y, a as b, z as q }; }\n",
        "package test:comp;\ninterface i { use nope.{a, b, c}; }\n",
        "package test:comp;\nlet a = new test:prov {};\nlet c = new test:cons { zz: a.f, yy: a.f, xx: a.f };\n",
        "package test:comp;\nlet c = new test:cons {};\n",
        "package test:comp;\nimport f: func();\nexport f as \"a\";\nexport f as \"b\";\nexport f as \"a\";\n",
        # documents that resolve: an interface using types of several other interfaces (the order of the
        # dependency imports in the output), imported and as the type of a world item
        "package test:comp;\ninterface a { record ra { x: u32 } }\ninterface b { record rb { y: u32 } }\n"
        "interface d { record rd { z: u32 } }\ninterface e { record re { w: u32 } }\n"
        "interface c { use a.{ra}; use b.{rb}; use d.{rd}; use e.{re}; f: func(p: ra, q: rb, r: rd, s: re); }\n"
        "import x: c;\n",
        "package test:comp;\ninterface a { record ra { x: u32 } }\ninterface b { record rb { y: u32 } }\n"
        "interface d { record rd { z: u32 } }\ninterface e { record re { w: u32 } }\n"
        "interface c { use a.{ra}; use b.{rb}; use d.{rd}; use e.{re}; f: func(p: ra, q: rb, r: rd, s: re); }\n"
        "world w { import c; }\nimport x: w;\n",
    ]
    # implicit imports that cannot be merged, under the same name and under two semver-compatible names, with
    # two and three instantiations: which instantiation the diagnostic calls the previous one
    one = '(component (import "a:b/c@0.2.0" (instance (export "f" (func)))))'
    two = '(component (import "a:b/c@0.2.1" (instance (export "f" (func (param "x" u32))))))'
    three = '(component (import "a:b/c@0.2.2" (instance (export "f" (func (param "y" string))))))'
    same = '(component (import "a:b/c@0.2.0" (instance (export "f" (func (param "x" u32))))))'
    det_pkg_docs = [
        {"text": "package test:comp;\nlet x = new p:one { ... };\nlet y = new p:two { ... };\n",
         "packages": {"p:one": one, "p:two": two}},
        {"text": "package test:comp;\nlet x = new p:one { ... };\nlet y = new p:two { ... };\nlet z = new p:three { ... };\n",
         "packages": {"p:one": one, "p:two": two, "p:three": three}},
        {"text": "package test:comp;\nlet x = new p:one { ... };\nlet y = new p:same { ... };\n",
         "packages": {"p:one": one, "p:same": same}},
        # an explicit import that cannot be merged with the implicit imports of several instantiations that
        # use different, semver-compatible names of it
        {"text": "package test:comp;\nimport i as \"a:b/c@0.2.3\": interface { f: func(x: u32); };\n"
                 "let x = new p:one { ... };\nlet y = new p:more { ... };\nlet z = new p:most { ... };\n",
         "packages": {"p:one": one, "p:more": one.replace("0.2.0", "0.2.1"), "p:most": one.replace("0.2.0", "0.2.2")}},
    ]
    with open(os.path.join(ROOT, "harness", "data", "det_docs.json"), "w") as f:
        json.dump([{"text": t} for t in det_docs] + det_pkg_docs, f, indent=1)
        f.write("\n")
    return len(stmts)


if __name__ == "__main__":
    print(emit(), "statements")
