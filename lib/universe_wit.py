#!/usr/bin/env python3
"""Extra WIT worlds for C01 / C03 (harness/data/wit_extra.json).

The declaration universe (universe_decl.py) is what spec/Decl.tla elaborates; it has no world-level
types.  The worlds below are WIT text only: each is turned into a component by the reference toolchain
(wit-component over a dummy module), registered, instantiated with nothing wired and encoded under the
four option combinations.  The contract needs no elaboration: a graph that only instantiates a component
encodes (GraphAbs.EncodeOutcome = {"ok"}) to a valid component importing what the component imports.

`kf` names the shape of a known finding (computed here, by the generator, from the text's construction).
"""
import json
import os

ROOT = os.path.dirname(os.path.dirname(os.path.abspath(__file__)))

IFACES = """
interface types {
    resource r {
        constructor(x: u32);
        m: func() -> u32;
        s: static func(a: u32) -> r;
    }
    record rec { a: u32, b: string }
    variant v { x, y(rec), z(list<rec>) }
    make: func() -> r;
    take: func(h: r) -> rec;
    peek: func(h: borrow<r>) -> v;
}
interface user {
    use types.{r, rec, v};
    roundtrip: func(h: r, x: rec) -> tuple<r, v>;
    look: func(h: borrow<r>) -> option<rec>;
}
interface other {
    // types of its own under the names `user` takes from `types`
    record rec { z: u8 }
    enum v { p, q }
    f: func(x: rec) -> v;
}
"""


def worlds():
    w = []

    def add(name, body, kf=""):
        w.append({"id": len(w) + 1, "world": name, "kf": kf,
                  "wit": "package test:x;\n" + IFACES + f"\nworld {name} {{\n{body}\n}}\n"})

    # interfaces with resources, used across interfaces, in import and in export position
    add("imp-both", "    import types;\n    import user;")
    add("exp-both", "    export types;\n    export user;", "export-uses-export")
    add("imp-types-exp-user", "    import types;\n    export user;")
    add("only-user", "    import user;")
    add("exp-only-user", "    export user;")
    # world-level functions over types of an imported interface
    add("world-fn-own", "    use types.{r, rec};\n    import f: func(h: r) -> rec;\n    export g: func(x: rec) -> r;")
    add("world-fn-record", "    use types.{rec};\n    import f: func(x: rec) -> list<rec>;\n    export g: func(x: list<rec>);")
    # a handle borrowed at the top level of a world
    add("world-fn-borrow", "    use types.{r};\n    import f: func(h: borrow<r>);", "world-level-borrow")
    add("world-fn-borrow-exp", "    use types.{r};\n    export g: func(h: borrow<r>) -> u32;", "world-level-borrow")
    # world-level resources (the methods take `self: borrow<r>` at the top level)
    add("world-res-plain", "    resource q;\n    import f: func(h: q);\n    export g: func() -> q;")
    add("world-res-method", "    resource q {\n        m: func();\n    }", "world-level-borrow")
    add("world-res-ctor", "    resource q {\n        constructor();\n        s: static func() -> q;\n    }")
    # world-level value types
    add("world-types", "    record pt { x: u32, y: u32 }\n    enum col { red, green }\n    import f: func(p: pt) -> col;\n    export g: func(c: col) -> pt;")
    # inline interfaces using types of a named interface
    add("inline-use", "    import inl: interface {\n        use types.{rec, r};\n        f: func(x: rec) -> r;\n    }\n    export out: interface {\n        use types.{v};\n        g: func() -> v;\n    }")
    # an interface that `use`s types next to one that defines types of the same names
    add("user-then-other", "    import user;\n    import other;")
    add("other-then-user", "    import other;\n    import user;")
    add("exp-user-other", "    import types;\n    export user;\n    export other;")
    return w


def emit():
    ws = worlds()
    with open(os.path.join(ROOT, "harness", "data", "wit_extra.json"), "w") as f:
        json.dump({"worlds": ws}, f, indent=1)
        f.write("\n")
    return len(ws)


if __name__ == "__main__":
    print(emit(), "worlds")
