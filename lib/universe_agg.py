#!/usr/bin/env python3
"""Requirement universe for C09 (TypeAggregator): contributors and the import requirements they carry.

Emits spec/Lib_agg.tla (AG_Contribs) and harness/data/agg.json (one WAT component per contributor,
the signature table), from the same terms.

  name         (base, ver|None)            "ns:p/i", (0, 2, 1)
  kind         ("func", sig) | ("rtype", R) | ("inst", {export: kind}, {local: use})
  use          (interface name, exported name, kind of the used interface)
  contributor  imports: [(name, kind)] in component order; agg: the positions handed to aggregate(), in order
"""
import json
import os
import sys

sys.path.insert(0, os.path.dirname(os.path.abspath(__file__)))
from universe import RTYPES, SIGS, tla_str  # noqa: E402
from universe_types import xtla, xwat  # noqa: E402

ROOT = os.path.dirname(os.path.dirname(os.path.abspath(__file__)))

AGG_SIGS = {
    "A": SIGS["A"], "B": SIGS["B"],
    "G": {"wat": None, "desc": "(x:record{f:u32})->_"},     # takes the used record type; rendered in place
    "H": {"wat": None, "desc": "(x:own<res>)->_"},          # takes a handle of the used resource; rendered in place
}

fA, fB = ("func", "A"), ("func", "B")


def inst(ex, us=None):
    return ("inst", dict(ex), dict(us or {}))


def comp(im, ex):
    return ("comp", dict(im), dict(ex))


def mod(im, ex):
    return ("mod", dict(im), dict(ex))


def is_pre(n):
    """a third element starting with `-` is a pre-release tag, any other one is build metadata"""
    return len(n) > 2 and n[2].startswith("-")


def name_str(n):
    base, ver = n[0], n[1]
    return base + ("@%d.%d.%d" % ver if ver else "") + ((n[2] if is_pre(n) else "+" + n[2]) if len(n) > 2 else "")


I, T, Q = "ns:p/i", "ns:p/types", "ns:q/j"
I0, I1, I5, I30, IU = (I, (0, 2, 0)), (I, (0, 2, 1)), (I, (0, 2, 5)), (I, (0, 3, 0)), (I, None)
T0, T1, T30 = (T, (0, 2, 0)), (T, (0, 2, 1)), (T, (0, 3, 0))
Q10, Q12, Q20 = (Q, (1, 0, 0)), (Q, (1, 2, 0)), (Q, (2, 0, 0))
LOG, PLAIN_F, PLAIN_N = ("ns:p/log", None), ("f", None), ("inst", None)
Z1, Z2 = ("ns:p/z", (0, 0, 1)), ("ns:p/z", (0, 0, 2))      # 0.0.x: no compatibility track

types_r = inst({"r": ("rtype", "R")})
types_rs = inst({"r": ("rtype", "R"), "s": fA})
types_r2 = inst({"r": ("rtype", "R2")})


def using(tname, tkind, extra=None):
    ex = {"r": ("rtype", "R"), "g": ("func", "G")}
    ex.update(extra or {})
    return inst(ex, {"r": (tname, "r", tkind)})


def contributors():
    c = []

    def one(name, kind):
        c.append({"imports": [(name, kind)], "agg": [0]})

    # one instance track, three versions, overlapping / disjoint / conflicting exports
    one(I0, inst({"a": fA}))                    # 1
    one(I0, inst({"b": fB}))                    # 2
    one(I0, inst({"c": fA}))                    # 3
    one(I1, inst({"b": fB}))                    # 4
    one(I1, inst({"a": fA, "b": fB}))           # 5
    one(I5, inst({"a": fA}))                    # 6
    one(I5, inst({"a": fB}))                    # 7   conflicts with a : A
    one(I0, inst({"a": fB}))                    # 8
    one(I0, inst({}))                           # 9
    # other tracks and untracked names
    one(I30, inst({"a": fA}))                   # 10
    one(I30, inst({"a": fB}))                   # 11
    one(IU, inst({"a": fA}))                    # 12
    one(IU, inst({"b": fB}))                    # 13
    one(LOG, inst({"a": fA}))                   # 14
    one(Z1, inst({"a": fA}))                    # 15
    one(Z2, inst({"a": fB}))                    # 16
    one(Q10, inst({"a": fA}))                   # 17
    one(Q12, inst({"b": fB}))                   # 18
    one(Q20, inst({"a": fB}))                   # 19
    # functions and kind mismatches under plain names
    one(PLAIN_F, fA)                            # 20
    one(PLAIN_F, fB)                            # 21
    one(PLAIN_F, inst({"a": fA}))               # 22
    one(PLAIN_N, inst({"a": fA}))               # 23
    one(PLAIN_N, inst({"b": fB}))               # 24
    # nested (unnamed) instances inside an interface
    one(I0, inst({"n": inst({"x": fA})}))                   # 25
    one(I1, inst({"n": inst({"x": fA, "y": fB})}))          # 26
    one(I0, inst({"n": inst({"y": fB})}))                   # 27
    one(I0, inst({"n": inst({"x": fB})}))                   # 28
    # type items and used types
    one(T0, types_r)                                         # 29
    one(T1, types_rs)                                        # 30
    one(T1, types_r2)                                        # 31  a different record under the same name
    c.append({"imports": [(T0, types_r), (I0, using(T0, types_r))], "agg": [0, 1]})          # 32
    c.append({"imports": [(T1, types_rs), (I1, using(T1, types_rs, {"a": fA}))], "agg": [0, 1]})   # 33
    c.append({"imports": [(T30, types_r), (I0, using(T30, types_r))], "agg": [0, 1]})        # 34 incompatible interface version
    c.append({"imports": [(T0, types_r), (I0, using(T0, types_r))], "agg": [1]})             # 35 only the user is aggregated
    c.append({"imports": [(T0, types_r), (I0, using(T0, types_r))], "agg": [1, 0]})          # 36 user first
    c.append({"imports": [(T1, types_rs), (I1, using(T1, types_rs, {"a": fA}))], "agg": [1]})      # 37
    # a version that differs from another one in build metadata only (appended: ids are quoted elsewhere)
    one((I, (0, 2, 1), "b2"), inst({"w": fA}))               # 38
    # two functions of one signature: through two type definitions / through one shared definition
    one(I0, inst({"a": fA, "e": fA}))                         # 39
    one(I0, inst({"a": fA, "e": fA}))                         # 40 (rendered with a shared function type)
    c[-1]["share"] = True
    # a resource required on its own and through an interface that uses it
    types_res = inst({"res": ("rtype", "RES")})
    one(T0, types_res)                                         # 41
    c.append({"imports": [(T0, types_res), (I0, inst({"res": ("rtype", "RES"), "take": ("func", "H")}, {"res": (T0, "res", types_res)}))],
              "agg": [0, 1]})                                  # 42
    c.append({"imports": list(c[-1]["imports"]), "agg": [1]})  # 43 only the user of the resource is aggregated
    types_res1 = inst({"res": ("rtype", "RES"), "s": fA})
    c.append({"imports": [(T1, types_res1), (I1, inst({"res": ("rtype", "RES"), "take": ("func", "H")}, {"res": (T1, "res", types_res1)}))],
              "agg": [1]})                                     # 44 the same through a higher version of the owner
    # component- and core-module-kinded requirements under plain names (API level only: such imports
    # cannot be encoded, KF18)
    C, M = ("c", None), ("m", None)
    y, yw = {"y": fA}, {"y": fA, "w": fB}
    one(C, comp({"x": fA}, y))                                 # 45
    one(C, comp({"z": fA}, y))                                 # 46 other imports
    one(C, comp({"x": fA}, yw))                                # 47 more exports
    one(C, comp({"x": fA}, {"n": inst(y)}))                    # 48 nested instance export ...
    one(C, comp({"x": fA}, {"n": inst(yw)}))                   # 49 ... with more exports
    one(C, comp({"x": fB}, y))                                 # 50 the import under another signature
    one(C, comp({"i": inst({"f": fA})}, y))                    # 51 an instance import ...
    one(C, comp({"i": inst({"f": fA, "g": fB})}, y))           # 52 ... of which more is expected
    one(C, comp({"x": fA}, {"y": fB}))                         # 53 conflicting export
    f0, mem1, mem2 = ("cfunc", [], []), ("mem", 1, -1, False, False), ("mem", 2, -1, False, False)
    one(M, mod({"a::f": f0}, {"mem": mem1}))                   # 54
    one(M, mod({"a::g": f0}, {"mem": mem1}))                   # 55 other imports
    one(M, mod({"a::f": f0}, {"mem": mem2}))                   # 56 a larger memory
    one(M, mod({"a::f": f0}, {"mem": mem1, "h": f0}))          # 57 more exports
    one(M, mod({"a::f": ("cfunc", ["i32"], [])}, {"mem": mem1}))   # 58 the import under another signature
    for x in c[44:]:
        x["api_only"] = True
    # versions whose numeric order is not their textual order
    one((I, (0, 2, 9)), inst({"a": fA}))                      # 59
    one((I, (0, 2, 10)), inst({"b": fB}))                     # 60
    # used types from interfaces without a compatibility track: 0.0.x and a pre-release
    TZ, TP = (T, (0, 0, 3)), (T, (0, 2, 0), "-rc.1")
    c.append({"imports": [(TZ, types_r), (I0, using(TZ, types_r))], "agg": [0, 1]})                 # 61
    c.append({"imports": [(TZ, types_r), (I1, using(TZ, types_r, {"a": fA}))], "agg": [0, 1]})      # 62
    c.append({"imports": [(TP, types_r), (Q10, using(TP, types_r))], "agg": [0, 1]})                # 63
    c.append({"imports": [(TP, types_rs), (Q12, using(TP, types_rs, {"a": fA}))], "agg": [0, 1]})   # 64
    # exports that follow a nested instance in export order
    one(I0, inst({"s": fA, "n": inst({"x": fA}), "f": fA}))                   # 65
    one(I0, inst({"s": fA, "n": inst({"x": fA, "y": fB}), "g": fB}))          # 66
    # one instance type definition imported under two plain names, and requirements that differ from it
    PA, PB = ("pa", None), ("pb", None)
    c.append({"imports": [(PA, inst({"f": fA})), (PB, inst({"f": fA}))], "agg": [0, 1], "same": {0: 1, 1: 1}})   # 67
    one(PA, inst({"f": fA, "g": fB}))                         # 68
    one(PB, inst({"f": fA, "w": fA}))                         # 69
    one(PA, inst({"g": fA}))                                  # 70 conflicts with 68 on pa only
    for i, x in enumerate(c):
        x["id"] = i + 1
        x["e2e"] = x["agg"] == list(range(len(x["imports"]))) and not x.get("api_only")
    return c


# ------------------------------------------------------------------ TLA+
def tla_name(n):
    base, ver = n[0], n[1]
    v = "<<%d, %d, %d>>" % ver if ver else "<<>>"
    build = "TRUE" if len(n) > 2 and not is_pre(n) else "FALSE"
    pre = "TRUE" if is_pre(n) else "FALSE"
    return f'[s |-> {tla_str(name_str(n))}, base |-> {tla_str(base)}, ver |-> {v}, pre |-> {pre}, build |-> {build}, iface |-> {"TRUE" if ":" in base else "FALSE"}]'


def tla_fun(d, render):
    if not d:
        return "<<>>"
    return "(" + " @@ ".join(f"{tla_str(k)} :> {render(v)}" for k, v in d.items()) + ")"


def tla_kind(k):
    if k[0] == "func":
        return f'[c |-> "func", sig |-> {tla_str(k[1])}]'
    if k[0] == "rtype":
        return f'[c |-> "rtype", desc |-> {tla_str(RT[k[1]]["desc"])}]'
    if k[0] == "inst":
        us = tla_fun(k[2], lambda u: f'[iface |-> {tla_name(u[0])}, name |-> {tla_str(u[1])}, kind |-> {tla_kind(u[2])}]')
        return f'[c |-> "inst", ex |-> {tla_fun(k[1], tla_kind)}, us |-> {us}]'
    if k[0] == "comp":
        return f'[c |-> "comp", im |-> {tla_fun(k[1], tla_kind)}, ex |-> {tla_fun(k[2], tla_kind)}]'
    if k[0] == "mod":
        return f'[c |-> "mod", im |-> {tla_fun(k[1], xtla)}, ex |-> {tla_fun(k[2], xtla)}]'
    raise ValueError(k)


RT = dict(RTYPES)
RT["R2"] = {"wat": '(record (field "f" u64))', "desc": "record{f:u64}"}
RT["RES"] = {"wat": None, "desc": "resource"}


# ------------------------------------------------------------------ WAT
class Comp:
    def __init__(self, share=False):
        self.lines = []
        self.n = 0
        self.share = share     # functions of one signature share a type definition
        self.handles = {}      # (interface name string, export) -> component-level type index name
        self.groups = {}       # group -> type index name of the shared instance type definition

    def fresh(self, p):
        self.n += 1
        return f"${p}{self.n}"

    def inst_type(self, k, depth):
        """declarations of an instance type body; depth = nesting below the component"""
        parts = []
        local = {}
        for n, v in k[1].items():
            if v[0] == "rtype":
                if n in k[2]:
                    src = self.handles[(name_str(k[2][n][0]), k[2][n][1])]
                    o, t = self.fresh("o"), self.fresh("u")
                    parts.append(f"(alias outer {depth} {src} (type {o}))")
                    parts.append(f'(export "{n}" (type {t} (eq {o})))')
                elif v[1] == "RES":
                    t = self.fresh("t")
                    parts.append(f'(export "{n}" (type {t} (sub resource)))')
                else:
                    raw, t = self.fresh("raw"), self.fresh("t")
                    parts.append(f"(type {raw} {RT[v[1]]['wat']})")
                    parts.append(f'(export "{n}" (type {t} (eq {raw})))')
                local[n] = t
            elif v[0] == "func":
                if v[1] == "G":
                    parts.append(f'(export "{n}" (func (param "x" {local["r"]})))')
                elif v[1] == "H":
                    # takes a handle of the (used) resource exported as `res`
                    o = self.fresh("own")
                    parts.append(f'(type {o} (own {local["res"]}))')
                    parts.append(f'(export "{n}" (func (param "x" {o})))')
                elif self.share:
                    # one type definition for all functions of one signature in this instance type
                    if v[1] not in local:
                        ft = self.fresh("ft")
                        parts.append(f'(type {ft} {AGG_SIGS[v[1]]["wat"]})')
                        local[v[1]] = ft
                    parts.append(f'(export "{n}" (func (type {local[v[1]]})))')
                else:
                    parts.append(f'(export "{n}" {AGG_SIGS[v[1]]["wat"]})')
            else:
                parts.append(f'(export "{n}" (instance {self.inst_type(v, depth + 1)}))')
        return " ".join(parts)

    def add_import(self, name, k, grp=0):
        s = name_str(name)
        if grp:
            # imports of one group are ascribed ONE instance type definition
            if grp not in self.groups:
                self.groups[grp] = self.fresh("g")
                self.lines.append(f"(type {self.groups[grp]} (instance {self.inst_type(k, 1)}))")
            self.lines.append(f'(import "{s}" (instance (type {self.groups[grp]})))')
            return
        if k[0] == "func":
            self.lines.append(f'(import "{s}" {AGG_SIGS[k[1]]["wat"]})')
            return
        if k[0] == "comp":
            def decls(d, word):
                return " ".join(f'({word} "{n}" ' + (AGG_SIGS[v[1]]["wat"] if v[0] == "func" else f"(instance {self.inst_type(v, 2)})") + ")"
                                for n, v in d.items())
            self.lines.append(f'(import "{s}" (component {decls(k[1], "import")} {decls(k[2], "export")}))')
            return
        if k[0] == "mod":
            ims = " ".join('(import "{}" "{}" {})'.format(*n.split("::"), xwat(v)) for n, v in k[1].items())
            exs = " ".join(f'(export "{n}" {xwat(v)})' for n, v in k[2].items())
            self.lines.append(f'(import "{s}" (core module {ims} {exs}))')
            return
        h = self.fresh("i")
        self.lines.append(f'(import "{s}" (instance {h} {self.inst_type(k, 1)}))')
        for n, v in k[1].items():
            if v[0] == "rtype":
                t = self.fresh("h")
                self.lines.append(f'(alias export {h} "{n}" (type {t}))')
                self.handles[(s, n)] = t

    def text(self):
        return "(component\n  " + "\n  ".join(self.lines) + "\n)"


def emit():
    cs = contributors()
    t = ["---- MODULE Lib_agg ----", "\\* GENERATED by lib/universe_agg.py -- do not edit", "EXTENDS TLC, Integers", ""]
    rows = []
    for c in cs:
        reqs = ", ".join(f"[name |-> {tla_name(c['imports'][i][0])}, kind |-> {tla_kind(c['imports'][i][1])}, "
                         f"grp |-> {c.get('same', {}).get(i, 0)}]" for i in c["agg"])
        rows.append(f"[id |-> {c['id']}, reqs |-> <<{reqs}>>]")
    t.append("AG_Contribs == <<\n  " + ",\n  ".join(rows) + ">>")
    t.append("====")
    with open(os.path.join(ROOT, "spec", "Lib_agg.tla"), "w") as f:
        f.write("\n".join(t) + "\n")
    data = {"sigs": {v["desc"]: k for k, v in AGG_SIGS.items()}, "contributors": []}
    for c in cs:
        w = Comp(share=c.get("share", False))
        for i, (n, k) in enumerate(c["imports"]):
            w.add_import(n, k, c.get("same", {}).get(i, 0))
        data["contributors"].append({"id": c["id"], "wat": w.text(), "imports": [name_str(n) for n, _ in c["imports"]],
                                     "agg": [name_str(c["imports"][i][0]) for i in c["agg"]], "e2e": c["e2e"]})
    with open(os.path.join(ROOT, "harness", "data", "agg.json"), "w") as f:
        json.dump(data, f, indent=1)
        f.write("\n")
    return len(cs)


if __name__ == "__main__":
    print(emit(), "contributors")
