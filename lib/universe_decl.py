#!/usr/bin/env python3
"""Declaration universe for C05 (WIT declarations in WAC) and C08 (decoding components).

Every package is a term; the same term is rendered (a) as WIT text, which is at the same time a WAC
document, and (b) as a TLA+ record for spec/Lib_decl.tla, whose elaborator (spec/Decl.tla) computes
the interface and world types the text denotes.

  package    {"name", "ver"|None, "ifaces": [iface], "worlds": [world]}
  iface      {"name", "items": [item]}
  item       ("type", name, ty) | ("res", name, [rfunc]) | ("func", name, [(p, ty)], ty|None)
             | ("use", from_iface, [(name, as|None)])
  rfunc      ("ctor", None, params, None) | ("method", name, params, result) | ("static", name, params, result)
  ty         ("prim", p) | ("ref", n) | ("borrow", n) | ("list", t) | ("option", t) | ("result", ok|None, err|None)
             | ("tuple", [t]) | ("record", [(f, t)]) | ("variant", [(c, t|None)]) | ("enum", [c]) | ("flags", [f])
  world      {"name", "items": [witem]}
  witem      ("import"|"export", "iface", iface_name) | ("import"|"export", "inline", name, [item])
             | ("import"|"export", "func", name, params, result) | ("include", world, [(from, to)])
"""
import json
import os

ROOT = os.path.dirname(os.path.dirname(os.path.abspath(__file__)))

U8, U32, STR, BOOL = ("prim", "u8"), ("prim", "u32"), ("prim", "string"), ("prim", "bool")


def ref(n):
    return ("ref", n)


def iface(name, *items):
    return {"name": name, "items": list(items)}


def world(name, *items):
    return {"name": name, "items": list(items)}


def pkg(ifaces, worlds=(), ver=None, name="ns:p"):
    return {"name": name, "ver": ver, "ifaces": list(ifaces), "worlds": list(worlds)}


def packages():
    out = []
    # ---- one value-type constructor per interface, used in parameter and result position
    defs = [
        ("record", [("a", U32), ("b", STR)]),
        ("record", [("a", ("list", U8)), ("b", ("option", STR)), ("c", ("tuple", [U8, STR]))]),
        ("variant", [("x", None), ("y", U8), ("z", STR)]),
        ("variant", [("only", ("list", U32))]),
        ("variant", [("p", U8), ("bare", None), ("q", STR), ("last", None)]),
        ("enum", ["a", "b", "c"]),
        ("flags", ["a", "b"]),
        U32,
        ("list", U8),
        ("option", STR),
        ("result", U32, STR),
        ("result", None, STR),
        ("result", U32, None),
        ("result", None, None),
        ("tuple", [U8, STR, BOOL]),
    ]
    for d in defs:
        out.append(pkg([iface("t", ("type", "d", d), ("func", "f", [("x", ref("d")), ("y", U32)], ref("d")), ("func", "g", [], None))]))
    # every constructor inside every position of every other constructor (depth 2), named and inline
    items, funcs = [], []
    for i, d in enumerate(defs):
        items.append(("type", f"d{i}", d))
    for i in range(len(defs)):
        r = ref(f"d{i}")
        outer = [("list", r), ("option", r), ("result", r, STR), ("result", U8, r), ("tuple", [U8, r]),
                 ("record", [("a", r), ("b", U32)]), ("variant", [("n", None), ("p", r)])]
        for j, o in enumerate(outer):
            items.append(("type", f"o{i}x{j}", o))
        funcs.append(("func", f"f{i}", [("x", ref(f"o{i}x0")), ("y", ref(f"o{i}x5"))], ref(f"o{i}x6")))
        # the same shapes written inline in a signature (anonymous compound types)
        inline = defs[i] if defs[i][0] in ("prim", "list", "option", "result", "tuple") else r
        funcs.append(("func", f"g{i}", [("x", ("list", inline)), ("y", ("option", ("tuple", [inline, U8])))], ("result", inline, ("list", STR))))
    out.append(pkg([iface("t", *(items + funcs))]))
    # aliases of aliases, named types inside compound types
    out.append(pkg([iface("t", ("type", "r", ("record", [("a", U32)])), ("type", "a1", ref("r")), ("type", "a2", ref("a1")),
                          ("type", "l", ("list", ref("a2"))), ("type", "v", ("variant", [("n", None), ("s", ref("r")), ("o", ("option", ref("l")))])),
                          ("func", "f", [("x", ref("a2")), ("y", ref("l"))], ref("v")))]))
    # ---- resources
    res_full = ("res", "thing", [("ctor", None, [("a", U32)], None), ("method", "get", [("x", STR)], U32),
                                 ("method", "nop", [], None), ("static", "make", [], ref("thing"))])
    out.append(pkg([iface("t", res_full, ("func", "take", [("x", ref("thing"))], None), ("func", "peek", [("x", ("borrow", "thing"))], U32),
                          ("func", "give", [], ("option", ref("thing"))))]))
    out.append(pkg([iface("t", ("res", "a", []), ("res", "b", [("method", "to-a", [], ref("a")), ("static", "of", [("x", ("borrow", "a"))], ref("b"))]),
                          ("type", "pair", ("record", [("x", ref("a")), ("y", ref("b"))])), ("func", "f", [("p", ref("pair"))], ("list", ref("a"))))]))
    # ---- use: chains, renames, diamonds, resources through use
    types_i = iface("types", ("type", "r", ("record", [("a", U32), ("b", ("list", STR))])), ("type", "e", ("enum", ["x", "y"])), res_full)
    out.append(pkg([types_i, iface("k", ("use", "types", [("r", None)]), ("func", "g", [("x", ref("r"))], ("option", ref("r"))))]))
    out.append(pkg([types_i, iface("k", ("use", "types", [("r", "rr"), ("e", None)]), ("func", "g", [("x", ref("rr")), ("y", ref("e"))], None))]))
    out.append(pkg([types_i, iface("k", ("use", "types", [("thing", "th")]), ("func", "g", [("x", ("borrow", "th"))], ref("th")))]))
    out.append(pkg([types_i, iface("b", ("use", "types", [("r", None)]), ("type", "rs", ("list", ref("r")))),
                    iface("c", ("use", "b", [("rs", "many"), ("r", None)]), ("func", "g", [("x", ref("many"))], ref("r")))]))
    out.append(pkg([types_i, iface("l", ("use", "types", [("r", None)]), ("type", "lt", ("option", ref("r")))),
                    iface("m", ("use", "types", [("r", "r2")]), ("type", "mt", ("list", ref("r2")))),
                    iface("d", ("use", "l", [("lt", None)]), ("use", "m", [("mt", None)]), ("use", "types", [("r", None)]),
                          ("func", "g", [("x", ref("lt")), ("y", ref("mt"))], ref("r")))]))
    # a chain of four interfaces handing a record and a resource on, unrenamed and renamed
    out.append(pkg([iface("a", ("type", "t", ("record", [("x", U32)])), ("res", "r", [("method", "m", [], U32)])),
                    iface("b", ("use", "a", [("t", None), ("r", None)])),
                    iface("c", ("use", "b", [("t", None), ("r", None)])),
                    iface("d", ("use", "c", [("t", None), ("r", None)]), ("func", "f", [("x", ref("t")), ("y", ("borrow", "r"))], ref("r")))]))
    out.append(pkg([iface("a", ("type", "t", ("variant", [("n", None), ("s", STR)])), ("res", "r", [])),
                    iface("b", ("use", "a", [("t", "t1"), ("r", "r1")]), ("func", "fb", [("x", ref("r1"))], None)),
                    iface("c", ("use", "b", [("t1", "t2"), ("r1", "r2")]), ("type", "l", ("list", ref("t2")))),
                    iface("d", ("use", "c", [("t2", None), ("r2", "r3"), ("l", None)]), ("func", "f", [("x", ref("l")), ("y", ("borrow", "r3"))], ("option", ref("r3"))))]))
    # ---- worlds
    fi = iface("i", ("func", "x", [("a", U32)], U32))
    fj = iface("j", ("type", "r", ("record", [("a", U32)])), ("func", "y", [("b", ref("r"))], None))
    kk = iface("k", ("use", "types", [("r", None), ("thing", None)]), ("func", "g", [("x", ref("r")), ("h", ("borrow", "thing"))], ("option", ref("r"))))
    out.append(pkg([fi, fj], [world("w", ("import", "iface", "i"), ("export", "iface", "j"),
                                    ("import", "func", "f", [("a", U32)], U32), ("export", "func", "run", [], None))]))
    out.append(pkg([fi], [world("w", ("import", "inline", "x", [("type", "e", ("enum", ["a", "b"])), ("func", "g", [("v", ref("e"))], None)]),
                                ("export", "inline", "y", [("func", "h", [], STR)]), ("export", "iface", "i"))]))
    out.append(pkg([types_i, kk], [world("w", ("import", "iface", "k"), ("export", "func", "run", [("a", U32)], U32), ("export", "iface", "types"))]))
    out.append(pkg([types_i, kk], [world("w", ("export", "iface", "k"))]))
    out.append(pkg([fi, fj], [world("base", ("import", "iface", "i"), ("import", "func", "f", [], None), ("export", "func", "run", [], None)),
                              world("w", ("include", "base", []), ("export", "iface", "j"))]))
    out.append(pkg([fi, fj], [world("base", ("import", "func", "f", [], None), ("import", "func", "g", [("a", U8)], None), ("export", "func", "run", [], None)),
                              world("w", ("include", "base", [("f", "f2"), ("run", "run2")]), ("import", "iface", "i"))]))
    out.append(pkg([fi, fj], [world("a", ("import", "func", "f", [], None)), world("b", ("include", "a", []), ("export", "iface", "i")),
                              world("w", ("include", "b", [("f", "ff")]), ("export", "iface", "j"))]))
    # ---- versions: the same shapes in a versioned package
    out.append(pkg([types_i, kk], [world("w", ("import", "iface", "k"), ("export", "iface", "types"))], ver="1.2.0"))
    out.append(pkg([fi, fj], [world("w", ("import", "iface", "i"), ("export", "iface", "j"))], ver="0.2.1"))
    # an alias of a borrowed handle used in parameter position (an alias of the resource itself is the resource,
    # which Decl.tla does not model: left out)
    out.append(pkg([iface("h", ("res", "thing", [("method", "get", [], U32)]),
                          ("type", "bh", ("borrow", "thing")),
                          ("func", "peek", [("x", ref("bh"))], U32), ("func", "take", [("x", ref("thing")), ("y", ref("bh"))], None))]))
    # every interface also as the import and as the export of a world, so that C08 gets a real component for it
    for p in out:
        if not p["worlds"]:
            names = [i["name"] for i in p["ifaces"]]
            p["worlds"] = [world("wim", *[("import", "iface", n) for n in names]),
                           world("wex", *[("export", "iface", n) for n in names]),
                           world("wboth", ("import", "iface", names[-1]), ("export", "iface", names[-1]))]
    for i, p in enumerate(out):
        p["id"] = i + 1
    return out


# ------------------------------------------------------------------ WIT / WAC text
def ty_text(t):
    c = t[0]
    if c == "prim":
        return t[1]
    if c == "ref":
        return t[1]
    if c == "borrow":
        return f"borrow<{t[1]}>"
    if c in ("list", "option"):
        return f"{c}<{ty_text(t[1])}>"
    if c == "result":
        if t[1] is None and t[2] is None:
            return "result"
        if t[2] is None:
            return f"result<{ty_text(t[1])}>"
        return f"result<{ty_text(t[1]) if t[1] else '_'}, {ty_text(t[2])}>"
    if c == "tuple":
        return "tuple<" + ", ".join(ty_text(x) for x in t[1]) + ">"
    raise ValueError(t)


def func_text(ps, r):
    return "func(" + ", ".join(f"{n}: {ty_text(t)}" for n, t in ps) + ")" + (f" -> {ty_text(r)}" if r else "")


def item_text(it, ind):
    k = it[0]
    if k == "type":
        name, d = it[1], it[2]
        if d[0] == "record":
            return f"{ind}record {name} {{ " + ", ".join(f"{f}: {ty_text(t)}" for f, t in d[1]) + " }"
        if d[0] == "variant":
            return f"{ind}variant {name} {{ " + ", ".join(c + (f"({ty_text(t)})" if t else "") for c, t in d[1]) + " }"
        if d[0] in ("enum", "flags"):
            return f"{ind}{d[0]} {name} {{ " + ", ".join(d[1]) + " }"
        return f"{ind}type {name} = {ty_text(d)};"
    if k == "res":
        if not it[2]:
            return f"{ind}resource {it[1]};"
        body = []
        for kind, n, ps, r in it[2]:
            if kind == "ctor":
                body.append(f"{ind}  constructor(" + ", ".join(f"{p}: {ty_text(t)}" for p, t in ps) + ");")
            elif kind == "method":
                body.append(f"{ind}  {n}: {func_text(ps, r)};")
            else:
                body.append(f"{ind}  {n}: static {func_text(ps, r)};")
        return f"{ind}resource {it[1]} {{\n" + "\n".join(body) + f"\n{ind}}}"
    if k == "func":
        return f"{ind}{it[1]}: {func_text(it[2], it[3])};"
    if k == "use":
        return f"{ind}use {it[1]}.{{" + ", ".join(n + (f" as {a}" if a else "") for n, a in it[2]) + "};"
    raise ValueError(it)


def witem_text(w):
    if w[0] == "include":
        return f"  include {w[1]}" + (" with { " + ", ".join(f"{a} as {b}" for a, b in w[2]) + " }" if w[2] else "") + ";"
    d, form = w[0], w[1]
    if form == "iface":
        return f"  {d} {w[2]};"
    if form == "inline":
        return f"  {d} {w[2]}: interface {{\n" + "\n".join(item_text(it, "    ") for it in w[3]) + "\n  }" + ";"
    return f"  {d} {w[2]}: {func_text(w[3], w[4])};"


def text(p, wac):
    s = f"package {p['name']}" + (f"@{p['ver']}" if p["ver"] else "") + ";\n"
    for i in p["ifaces"]:
        s += f"\ninterface {i['name']} {{\n" + "\n".join(item_text(it, "  ") for it in i["items"]) + "\n}\n"
    for w in p["worlds"]:
        lines = [witem_text(x) for x in w["items"]]
        if not wac:
            # WIT writes inline interfaces without the trailing semicolon
            lines = [l[:-1] if l.endswith("};") and (": interface {" in l or " with { " in l) else l for l in lines]
        s += f"\nworld {w['name']} {{\n" + "\n".join(lines) + "\n}\n"
    return s


# ------------------------------------------------------------------ TLA+
def q(s):
    return '"' + s + '"'


def ty_tla(t):
    if t is None:
        return '[c |-> "none"]'
    c = t[0]
    if c == "prim":
        return f'[c |-> "prim", p |-> {q(t[1])}]'
    if c in ("ref", "borrow"):
        return f'[c |-> {q(c)}, n |-> {q(t[1])}]'
    if c in ("list", "option"):
        return f'[c |-> {q(c)}, e |-> {ty_tla(t[1])}]'
    if c == "result":
        return f'[c |-> "result", ok |-> {ty_tla(t[1])}, err |-> {ty_tla(t[2])}]'
    if c == "tuple":
        return '[c |-> "tuple", es |-> <<' + ", ".join(ty_tla(x) for x in t[1]) + ">>]"
    if c == "record":
        return '[c |-> "record", fs |-> <<' + ", ".join(f"[n |-> {q(n)}, v |-> {ty_tla(v)}]" for n, v in t[1]) + ">>]"
    if c == "variant":
        return '[c |-> "variant", cs |-> <<' + ", ".join(f"[n |-> {q(n)}, v |-> {ty_tla(v)}]" for n, v in t[1]) + ">>]"
    if c in ("enum", "flags"):
        return f'[c |-> {q(c)}, ns |-> <<' + ", ".join(q(n) for n in t[1]) + ">>]"
    raise ValueError(t)


def params_tla(ps):
    return "<<" + ", ".join(f"[n |-> {q(n)}, v |-> {ty_tla(t)}]" for n, t in ps) + ">>"


def item_tla(it):
    k = it[0]
    if k == "type":
        return f'[k |-> "type", name |-> {q(it[1])}, def |-> {ty_tla(it[2])}]'
    if k == "res":
        fs = ", ".join(f'[kind |-> {q(kind)}, name |-> {q(n or "")}, ps |-> {params_tla(ps)}, r |-> {ty_tla(r)}]' for kind, n, ps, r in it[2])
        return f'[k |-> "res", name |-> {q(it[1])}, funcs |-> <<{fs}>>]'
    if k == "func":
        return f'[k |-> "func", name |-> {q(it[1])}, ps |-> {params_tla(it[2])}, r |-> {ty_tla(it[3])}]'
    if k == "use":
        return f'[k |-> "use", from |-> {q(it[1])}, names |-> <<' + ", ".join(f"[name |-> {q(n)}, as |-> {q(a or n)}]" for n, a in it[2]) + ">>]"
    raise ValueError(it)


def witem_tla(w):
    if w[0] == "include":
        return f'[k |-> "include", world |-> {q(w[1])}, with |-> <<' + ", ".join(f"[from |-> {q(a)}, to |-> {q(b)}]" for a, b in w[2]) + ">>]"
    d, form = w[0], w[1]
    if form == "iface":
        return f'[k |-> {q(d)}, form |-> "iface", iface |-> {q(w[2])}]'
    if form == "inline":
        return f'[k |-> {q(d)}, form |-> "inline", name |-> {q(w[2])}, items |-> <<' + ", ".join(item_tla(x) for x in w[3]) + ">>]"
    return f'[k |-> {q(d)}, form |-> "func", name |-> {q(w[2])}, ps |-> {params_tla(w[3])}, r |-> {ty_tla(w[4])}]'


def pkg_tla(p):
    ifs = ", ".join(f'[name |-> {q(i["name"])}, items |-> <<' + ", ".join(item_tla(x) for x in i["items"]) + ">>]" for i in p["ifaces"])
    ws = ", ".join(f'[name |-> {q(w["name"])}, items |-> <<' + ", ".join(witem_tla(x) for x in w["items"]) + ">>]" for w in p["worlds"])
    path = p["name"] + "/"
    suffix = f"@{p['ver']}" if p["ver"] else ""
    return f'[id |-> {p["id"]}, prefix |-> {q(path)}, suffix |-> {q(suffix)}, ifaces |-> <<{ifs}>>, worlds |-> <<{ws}>>]'


def emit():
    ps = packages()
    t = ["---- MODULE Lib_decl ----", "\\* GENERATED by lib/universe_decl.py -- do not edit", "EXTENDS TLC", ""]
    t.append("D_Packages == <<\n  " + ",\n  ".join(pkg_tla(p) for p in ps) + ">>")
    # interface paths are strings the specification cannot build: a table from (package id, interface) to the path
    rows = []
    for p in ps:
        for i in p["ifaces"]:
            rows.append(f'<<{p["id"]}, {q(i["name"])}>> :> {q(p["name"] + "/" + i["name"] + ("@" + p["ver"] if p["ver"] else ""))}')
    t.append("D_Path == (" + " @@ ".join(rows) + ")")
    # names of resource functions
    rows = set()
    for p in ps:
        items = [it for i in p["ifaces"] for it in i["items"]] + [it for w in p["worlds"] for x in w["items"] if x[0] != "include" and x[1] == "inline" for it in x[3]]
        for it in items:
            if it[0] == "res":
                for kind, n, _, _ in it[2]:
                    label = {"ctor": f"[constructor]{it[1]}", "method": f"[method]{it[1]}.{n}", "static": f"[static]{it[1]}.{n}"}[kind]
                    rows.add(f'<<{q(it[1])}, {q(kind)}, {q(n or "")}>> :> {q(label)}')
    t.append("D_ResFuncName == (" + " @@ ".join(sorted(rows)) + ")")
    t.append("====")
    with open(os.path.join(ROOT, "spec", "Lib_decl.tla"), "w") as f:
        f.write("\n".join(t) + "\n")
    data = [{"id": p["id"], "name": p["name"], "version": p["ver"], "wit": text(p, False), "wac": text(p, True),
             "interfaces": [i["name"] for i in p["ifaces"]], "worlds": [w["name"] for w in p["worlds"]]} for p in ps]
    with open(os.path.join(ROOT, "harness", "data", "decl.json"), "w") as f:
        json.dump(data, f, indent=1)
        f.write("\n")
    return len(ps)


if __name__ == "__main__":
    print(emit(), "packages")
