#!/usr/bin/env python3
"""group replay findings (stdin: result lines) by class and normalised message"""
import sys, json, re, collections
c = collections.Counter(); ex = {}
summary = None
for l in sys.stdin:
    r = json.loads(l)
    if r.get('summary'):
        summary = r; continue
    w = re.sub(r'0x[0-9a-f]+', 'OFF', r['what'])
    w = re.sub(r'[0-9]+', 'N', w)[:int(sys.argv[1]) if len(sys.argv) > 1 else 110]
    k = (r['class'], w, (r.get('op') or ['-'])[0])
    c[k] += 1
    ex.setdefault(k, r)
for k, n in c.most_common(int(sys.argv[2]) if len(sys.argv) > 2 else 8):
    print(n, k)
    print('    hist', json.dumps(ex[k].get('hist'))[:400], 'op', ex[k].get('op'))
print(summary)
