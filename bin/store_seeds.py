#!/usr/bin/env python3
"""bin/store_seeds.py <PROP> <confirm-log> '<json: {"1": [needs, detected_by], ...}>'
Copies confirmed seeded changes from /tmp/seeded_<PROP>/<i> to /verif/seeded/<PROP>-<i>/ with a meta.json.
(helper used while building; a seed is stored only if the confirmation log shows
 demo passes without the change, fails with it, and the existing suite passes with it)"""
import json
import os
import re
import shutil
import sys

prop, log, info = sys.argv[1], sys.argv[2], json.loads(sys.argv[3])
where = {"C12": "crates/wac-parser/tests", "C13": "crates/wac-parser/tests", "C17": "crates/wac-resolver/tests",
         "C18": "crates/wac-resolver/tests", "C19": "tests", "C14": "crates/wac-parser/tests",
         "C07": "crates/wac-types/tests", "C09": "crates/wac-types/tests", "C04": "crates/wac-parser/tests",
         "C11": "crates/wac-parser/tests", "C05": "crates/wac-parser/tests", "C08": "crates/wac-types/tests"}
ok = {}
for line in open(log):
    m = re.match(rf"{prop}/(\d+) demo_clean_rc=(\d+) demo_mutant_rc=(\d+) suite_rc=(\d+)", line)
    if m:
        ok[m.group(1)] = (m.group(2) == "0", m.group(3) != "0", m.group(4) == "0")
for i, (needs, detected) in info.items():
    if ok.get(i) != (True, True, True):
        print(f"{prop}-{i}: NOT confirmed ({ok.get(i)}), skipped")
        continue
    src, d = f"/tmp/seeded_{prop}/{i}", f"/verif/seeded/{prop}-{i}"
    os.makedirs(d, exist_ok=True)
    for fn in ("patch.diff", "demo.rs", "notes.md"):
        if os.path.exists(f"{src}/{fn}"):
            shutil.copy(f"{src}/{fn}", f"{d}/{fn}")
    meta = {"property": prop, "source": "independent sub-agent given only the property text and a scratch worktree",
            "needs_to_manifest": needs,
            "confirmed": {"how": f"scratch worktree /tmp/wt_{prop}: demo copied to {where.get(prop, 'tests')}/seeded_demo.rs, "
                                 "`cargo test --workspace --offline --test seeded_demo` with and without the patch; "
                                 "`cargo test --workspace --no-fail-fast --offline` with the patch (RUST_BACKTRACE=0)",
                          "demo_without_change": "pass (rc 0)", "demo_with_change": "fail (rc 101)",
                          "existing_suite_with_change": "pass (rc 0)"},
            "detected_by": detected, "applies_to": "/repo HEAD at the time of seeding or later (git -C /repo apply patch.diff)"}
    json.dump(meta, open(f"{d}/meta.json", "w"), indent=1)
    print(f"{prop}-{i}: stored")
