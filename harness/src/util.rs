//! Small helpers shared by the harness binaries.
use std::panic::{catch_unwind, AssertUnwindSafe};

/// Runs `f`, turning a panic into `Err(message)`: a panic in code under test is data.
pub fn guarded<T>(f: impl FnOnce() -> T) -> Result<T, String> {
    catch_unwind(AssertUnwindSafe(f)).map_err(|e| {
        if let Some(s) = e.downcast_ref::<&str>() {
            s.to_string()
        } else if let Some(s) = e.downcast_ref::<String>() {
            s.clone()
        } else {
            "panic".to_string()
        }
    })
}

/// Silences the default panic hook (panics are caught and reported as results).
pub fn quiet_panics() {
    if std::env::var_os("VERIF_LOUD").is_some() {
        return;
    }
    std::panic::set_hook(Box::new(|_| {}));
}

/// Decodes a line printed by TLC's `PrintT(<<"TAG", "json...">>)` into the JSON text.
pub fn tlc_line<'a>(line: &'a str, tag: &str) -> Option<String> {
    let prefix = format!("<<\"{tag}\", \"");
    let rest = line.strip_prefix(&prefix)?;
    let body = rest.strip_suffix("\">>")?;
    let mut out = String::with_capacity(body.len());
    let mut chars = body.chars();
    while let Some(c) = chars.next() {
        if c == '\\' {
            match chars.next() {
                Some('"') => out.push('"'),
                Some('\\') => out.push('\\'),
                Some('n') => out.push('\n'),
                Some('t') => out.push('\t'),
                Some(o) => {
                    out.push('\\');
                    out.push(o)
                }
                None => out.push('\\'),
            }
        } else {
            out.push(c);
        }
    }
    Some(out)
}

/// Validates bytes with the reference validator (all features).
pub fn validate(bytes: &[u8]) -> Result<(), String> {
    wasmparser::Validator::new_with_features(wasmparser::WasmFeatures::all())
        .validate_all(bytes)
        .map(|_| ())
        .map_err(|e| e.to_string())
}

pub fn sha256_hex(bytes: &[u8]) -> String {
    use sha2::{Digest, Sha256};
    let mut h = Sha256::new();
    h.update(bytes);
    h.finalize().iter().map(|b| format!("{b:02x}")).collect()
}
