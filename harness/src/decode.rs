//! Independent section-level reader for encoded compositions (C02, C03).
//!
//! Walks the output with `wasmparser::Parser`, rebuilds every top-level index space with a
//! provenance term per index, reads the `component-name` section and hashes nested component
//! bodies.  Shares no code with wac-graph's encoder.  Kinds of imports and exports are read off
//! the reference validator's type information.
use crate::describe::norm_kind;
use crate::glib::Lib;
use crate::graphreplay::{canon, Machine};
use crate::util::sha256_hex;
use serde_json::{json, Map, Value};
use std::collections::{BTreeMap, BTreeSet};
use wasmparser::{
    component_types::{ComponentDefinedType, ComponentEntityType, ComponentValType},
    types::TypesRef,
    ComponentAlias, ComponentExternalKind, ComponentInstance, ComponentTypeRef, Parser, Payload,
};

#[derive(Default, Debug)]
pub struct Decoded {
    /// (name, kind) of every non-component import, in order
    pub imports: Vec<(String, Value)>,
    /// names of imported components, in order
    pub comp_imports: Vec<String>,
    /// sha256 of every nested component, in order
    pub nested: Vec<String>,
    /// instantiation terms, in order
    pub insts: Vec<Value>,
    /// (name, sort, term, kind)
    pub exports: Vec<(String, String, Value, Value)>,
    /// (sort, name, term) from the component-name section
    pub names: Vec<(String, String, Value)>,
    /// order of definitions (section kinds) for emission-order checks
    pub order: Vec<String>,
}

fn sort_name(k: ComponentExternalKind) -> &'static str {
    match k {
        ComponentExternalKind::Module => "module",
        ComponentExternalKind::Func => "func",
        ComponentExternalKind::Value => "value",
        ComponentExternalKind::Type => "type",
        ComponentExternalKind::Instance => "instance",
        ComponentExternalKind::Component => "component",
    }
}

#[derive(Default)]
struct Spaces {
    s: BTreeMap<&'static str, Vec<Value>>,
}

impl Spaces {
    fn push(&mut self, sort: &'static str, term: Value) -> u32 {
        let v = self.s.entry(sort).or_default();
        v.push(term);
        (v.len() - 1) as u32
    }
    fn get(&self, sort: &'static str, i: u32) -> Result<Value, String> {
        self.s
            .get(sort)
            .and_then(|v| v.get(i as usize))
            .cloned()
            .ok_or_else(|| format!("dangling {sort} index {i}"))
    }
}

pub fn val_desc(types: &TypesRef, ty: &ComponentValType) -> String {
    match ty {
        ComponentValType::Primitive(p) => format!("{p}"),
        ComponentValType::Type(id) => match &types[*id] {
            ComponentDefinedType::Primitive(p) => format!("{p}"),
            ComponentDefinedType::Record(r) => format!(
                "record{{{}}}",
                r.fields
                    .iter()
                    .map(|(n, t)| format!("{n}:{}", val_desc(types, t)))
                    .collect::<Vec<_>>()
                    .join(",")
            ),
            ComponentDefinedType::Variant(v) => format!(
                "variant{{{}}}",
                v.cases
                    .iter()
                    .map(|(n, c)| match &c.ty {
                        Some(t) => format!("{n}({})", val_desc(types, t)),
                        None => n.to_string(),
                    })
                    .collect::<Vec<_>>()
                    .join(",")
            ),
            ComponentDefinedType::List(t) => format!("list<{}>", val_desc(types, t)),
            ComponentDefinedType::FixedLengthList(t, n) => format!("list<{},{n}>", val_desc(types, t)),
            ComponentDefinedType::Tuple(t) => format!(
                "tuple<{}>",
                t.types.iter().map(|t| val_desc(types, t)).collect::<Vec<_>>().join(",")
            ),
            ComponentDefinedType::Flags(f) => format!(
                "flags{{{}}}",
                f.iter().map(|s| s.to_string()).collect::<Vec<_>>().join(",")
            ),
            ComponentDefinedType::Enum(f) => format!(
                "enum{{{}}}",
                f.iter().map(|s| s.to_string()).collect::<Vec<_>>().join(",")
            ),
            ComponentDefinedType::Option(t) => format!("option<{}>", val_desc(types, t)),
            ComponentDefinedType::Result { ok, err } => format!(
                "result<{},{}>",
                ok.as_ref().map(|t| val_desc(types, t)).unwrap_or_else(|| "_".into()),
                err.as_ref().map(|t| val_desc(types, t)).unwrap_or_else(|| "_".into())
            ),
            ComponentDefinedType::Own(_) => "own<?>".into(),
            ComponentDefinedType::Borrow(_) => "borrow<?>".into(),
            ComponentDefinedType::Future(t) => format!(
                "future<{}>",
                t.as_ref().map(|t| val_desc(types, t)).unwrap_or_else(|| "_".into())
            ),
            ComponentDefinedType::Stream(t) => format!(
                "stream<{}>",
                t.as_ref().map(|t| val_desc(types, t)).unwrap_or_else(|| "_".into())
            ),
            other => format!("{other:?}"),
        },
    }
}

/// Abstract kind (same JSON shape as the spec's kinds) of a validator entity type.
pub fn entity_kind(types: &TypesRef, sigs: &BTreeMap<String, String>, ty: &ComponentEntityType) -> Value {
    match ty {
        ComponentEntityType::Func(id) => {
            let f = &types[*id];
            let d = format!(
                "{}({})->{}",
                if f.async_ { "async " } else { "" },
                f.params
                    .iter()
                    .map(|(n, t)| format!("{n}:{}", val_desc(types, t)))
                    .collect::<Vec<_>>()
                    .join(","),
                f.result
                    .as_ref()
                    .map(|t| val_desc(types, t))
                    .unwrap_or_else(|| "_".into())
            );
            let sig = sigs
                .iter()
                .find(|(_, v)| **v == d)
                .map(|(k, _)| k.clone())
                .unwrap_or_else(|| format!("?{d}"));
            json!({"c": "func", "sig": sig})
        }
        ComponentEntityType::Instance(id) => {
            let mut ex = Map::new();
            for (n, t) in &types[*id].exports {
                ex.insert(n.clone(), entity_kind(types, sigs, t));
            }
            json!({"c": "inst", "ex": Value::Object(ex)})
        }
        ComponentEntityType::Type { referenced, .. } => match referenced {
            wasmparser::component_types::ComponentAnyTypeId::Defined(id) => {
                json!({"c": "type", "desc": val_desc(types, &ComponentValType::Type(*id))})
            }
            other => json!({"c": "type", "desc": format!("{other:?}")}),
        },
        ComponentEntityType::Component(_) => json!({"c": "comp"}),
        ComponentEntityType::Module(_) => json!({"c": "module"}),
        ComponentEntityType::Value(v) => json!({"c": "value", "ty": val_desc(types, v)}),
    }
}

pub fn decode(bytes: &[u8], sigs: &BTreeMap<String, String>) -> Result<Decoded, String> {
    let vtypes = wasmparser::Validator::new_with_features(wasmparser::WasmFeatures::all())
        .validate_all(bytes)
        .map_err(|e| format!("validation: {e}"))?;
    let tr = vtypes.as_ref();
    let mut d = Decoded::default();
    let mut sp = Spaces::default();
    let mut depth = 0usize;
    let mut pending_exports: Vec<(String, &'static str, Value)> = Vec::new();
    for payload in Parser::new(0).parse_all(bytes) {
        let payload = payload.map_err(|e| e.to_string())?;
        match &payload {
            Payload::Version { .. } => {
                depth += 1;
                continue;
            }
            Payload::End(_) => {
                depth -= 1;
                continue;
            }
            _ => {}
        }
        if depth != 1 {
            continue;
        }
        match payload {
            Payload::ComponentImportSection(r) => {
                for imp in r {
                    let imp = imp.map_err(|e| e.to_string())?;
                    let name = imp.name.0.to_string();
                    let sort = match imp.ty {
                        ComponentTypeRef::Module(_) => "module",
                        ComponentTypeRef::Func(_) => "func",
                        ComponentTypeRef::Value(_) => "value",
                        ComponentTypeRef::Type(_) => "type",
                        ComponentTypeRef::Instance(_) => "instance",
                        ComponentTypeRef::Component(_) => "component",
                    };
                    sp.push(sort, json!({"t": "import", "name": name}));
                    d.order.push(format!("import:{name}"));
                    if sort == "component" {
                        d.comp_imports.push(name);
                    } else {
                        let ety = tr
                            .component_entity_type_of_import(&name)
                            .ok_or_else(|| format!("validator has no type for import {name}"))?;
                        d.imports.push((name, entity_kind(&tr, sigs, &ety)));
                    }
                }
            }
            Payload::ComponentSection { unchecked_range, .. } => {
                let sha = sha256_hex(&bytes[unchecked_range.clone()]);
                sp.push("component", json!({"t": "component", "sha": sha}));
                d.order.push("component".into());
                d.nested.push(sha);
            }
            Payload::ModuleSection { .. } => {
                sp.push("module", json!({"t": "module"}));
            }
            Payload::ComponentInstanceSection(r) => {
                for inst in r {
                    match inst.map_err(|e| e.to_string())? {
                        ComponentInstance::Instantiate { component_index, args } => {
                            let comp = sp.get("component", component_index)?;
                            let mut a = Vec::new();
                            for arg in args.iter() {
                                a.push(json!({"a": arg.name, "v": sp.get(sort_name(arg.kind), arg.index)?}));
                            }
                            let term = json!({"t": "inst", "pkg": comp, "args": a});
                            sp.push("instance", term.clone());
                            d.order.push("inst".into());
                            d.insts.push(term);
                        }
                        ComponentInstance::FromExports(ex) => {
                            let mut a = Vec::new();
                            for e in ex.iter() {
                                a.push(json!({"a": e.name.0, "v": sp.get(sort_name(e.kind), e.index)?}));
                            }
                            sp.push("instance", json!({"t": "bag", "items": a}));
                        }
                    }
                }
            }
            Payload::ComponentAliasSection(r) => {
                for al in r {
                    match al.map_err(|e| e.to_string())? {
                        ComponentAlias::InstanceExport { kind, instance_index, name } => {
                            let of = sp.get("instance", instance_index)?;
                            sp.push(sort_name(kind), json!({"t": "alias", "of": of, "exp": name}));
                            d.order.push("alias".into());
                        }
                        other => return Err(format!("unexpected top-level alias {other:?}")),
                    }
                }
            }
            Payload::ComponentTypeSection(r) => {
                for t in r {
                    t.map_err(|e| e.to_string())?;
                    sp.push("type", json!({"t": "typedef"}));
                }
            }
            Payload::CoreTypeSection(_) => {}
            Payload::ComponentExportSection(r) => {
                for e in r {
                    let e = e.map_err(|e| e.to_string())?;
                    let sort = sort_name(e.kind);
                    let term = sp.get(sort, e.index)?;
                    // an export introduces a new index of the same sort
                    sp.push(sort, term.clone());
                    d.order.push(format!("export:{}", e.name.0));
                    pending_exports.push((e.name.0.to_string(), sort, term));
                }
            }
            Payload::CustomSection(c) => {
                if let wasmparser::KnownCustom::ComponentName(names) = c.as_known() {
                    for n in names {
                        use wasmparser::ComponentName as CN;
                        let (sort, map) = match n.map_err(|e| e.to_string())? {
                            CN::Types(m) => ("type", m),
                            CN::Instances(m) => ("instance", m),
                            CN::Components(m) => ("component", m),
                            CN::Funcs(m) => ("func", m),
                            CN::Values(m) => ("value", m),
                            CN::CoreModules(m) => ("module", m),
                            _ => continue,
                        };
                        for naming in map {
                            let naming = naming.map_err(|e| e.to_string())?;
                            d.names.push((
                                sort.to_string(),
                                naming.name.to_string(),
                                sp.get(sort, naming.index)?,
                            ));
                        }
                    }
                }
            }
            Payload::InstanceSection(_)
            | Payload::ComponentCanonicalSection(_)
            | Payload::ComponentStartSection { .. } => {
                return Err("unexpected core instance / canonical / start section at top level".into())
            }
            _ => {}
        }
    }
    for (name, sort, term) in pending_exports {
        let ety = tr
            .component_entity_type_of_export(&name)
            .ok_or_else(|| format!("validator has no type for export {name}"))?;
        let kind = entity_kind(&tr, sigs, &ety);
        d.exports.push((name, sort.to_string(), term, kind));
    }
    Ok(d)
}

/// spec term -> comparable form: packages become library ids on both sides, definitions are
/// compared by kind separately.
fn norm_spec_term(t: &Value) -> Value {
    match t["t"].as_str() {
        Some("def") => json!({"t": "typedef"}),
        Some("alias") => json!({"t": "alias", "of": norm_spec_term(&t["of"]), "exp": t["exp"]}),
        Some("inst") => {
            let mut args: Vec<Value> = t["args"]
                .as_array()
                .map(|a| a.iter().map(|x| json!({"a": x["a"], "v": norm_spec_term(&x["v"])})).collect())
                .unwrap_or_default();
            args.sort_by_key(|x| x.to_string());
            json!({"t": "inst", "pkg": t["pkg"], "args": args})
        }
        _ => t.clone(),
    }
}

fn norm_real_term(t: &Value, pkg_of: &dyn Fn(&Value) -> Value) -> Value {
    match t["t"].as_str() {
        Some("alias") => json!({"t": "alias", "of": norm_real_term(&t["of"], pkg_of), "exp": t["exp"]}),
        Some("inst") => {
            let mut args: Vec<Value> = t["args"]
                .as_array()
                .unwrap()
                .iter()
                .map(|x| json!({"a": x["a"], "v": norm_real_term(&x["v"], pkg_of)}))
                .collect();
            args.sort_by_key(|x| x.to_string());
            json!({"t": "inst", "pkg": pkg_of(&t["pkg"]), "args": args})
        }
        _ => t.clone(),
    }
}

pub fn unlocked_dep_name(name: &str, version: Option<&semver::Version>) -> String {
    match version {
        Some(v) => format!("unlocked-dep=<{name}@{{>={v}}}>"),
        None => format!("unlocked-dep=<{name}>"),
    }
}

/// Compares the decoded output with the abstract component the spec computed for this state.
pub fn check_against_state(
    lib: &Lib,
    m: &Machine,
    want_state: &Value,
    bytes: &[u8],
    define_components: bool,
) -> Vec<(&'static str, String)> {
    let variants = match want_state["comps"].as_array() {
        Some(v) if !v.is_empty() => v,
        _ => return Vec::new(),
    };
    let d = match decode(bytes, &lib.sigs) {
        Ok(d) => d,
        Err(e) => {
            return vec![("wiring", format!("output cannot be decoded: {e}"))];
        }
    };
    // the output must be one of the abstract components the contract allows
    let mut first = None;
    for want in variants {
        let bad = check_variant(lib, Some(m), want, &d, define_components);
        if bad.is_empty() {
            return bad;
        }
        first.get_or_insert(bad);
    }
    first.unwrap_or_default()
}

/// Compares a decoded output with one abstract component; `m` supplies the definable types of a
/// replay machine (None when the composition defines no types).  Expected name-section entries
/// carry either a `name` or the node `id` (named `nm<id>` by the graph replay).
pub fn check_variant(
    lib: &Lib,
    m: Option<&Machine>,
    want: &Value,
    d: &Decoded,
    define_components: bool,
) -> Vec<(&'static str, String)> {
    let mut bad = Vec::new();
    let sha_to_pkg: BTreeMap<String, String> = lib
        .pkgs
        .iter()
        .map(|(k, p)| (sha256_hex(&p.bytes), k.clone()))
        .collect();
    let dep_to_pkg: BTreeMap<String, String> = lib
        .pkgs
        .iter()
        .map(|(k, p)| (unlocked_dep_name(&p.name, p.version.as_ref()), k.clone()))
        .collect();
    let pkg_of = |t: &Value| -> Value {
        match t["t"].as_str() {
            Some("component") => sha_to_pkg
                .get(t["sha"].as_str().unwrap())
                .map(|s| json!(s))
                .unwrap_or_else(|| json!(format!("?unknown-bytes:{}", t["sha"]))),
            Some("import") => dep_to_pkg
                .get(t["name"].as_str().unwrap())
                .map(|s| json!(s))
                .unwrap_or_else(|| json!(format!("?unknown-import:{}", t["name"]))),
            _ => json!("?"),
        }
    };
    // instantiations: multiset of terms
    let mut got: Vec<String> = d.insts.iter().map(|t| norm_real_term(t, &pkg_of).to_string()).collect();
    got.sort();
    let mut exp: Vec<String> = want["insts"]
        .as_array()
        .unwrap()
        .iter()
        .map(|x| norm_spec_term(&x["term"]).to_string())
        .collect();
    exp.sort();
    if got != exp {
        bad.push(("wiring", format!("instantiations: output {got:?} / composition {exp:?}")));
    }
    // dependencies: embedded once each (byte-identical) or imported once each
    let want_pkgs: BTreeSet<String> = want["pkgs"]
        .as_array()
        .unwrap()
        .iter()
        .map(|x| x.as_str().unwrap().to_string())
        .collect();
    if define_components {
        let mut got_pkgs = Vec::new();
        for sha in &d.nested {
            match sha_to_pkg.get(sha) {
                Some(p) => got_pkgs.push(p.clone()),
                None => bad.push(("wiring", format!("embedded component {sha} is not a registered package"))),
            }
        }
        let set: BTreeSet<String> = got_pkgs.iter().cloned().collect();
        if set.len() != got_pkgs.len() {
            bad.push(("wiring", format!("a package is embedded more than once: {got_pkgs:?}")));
        }
        if set != want_pkgs {
            bad.push(("wiring", format!("embedded packages {set:?}, instantiated packages {want_pkgs:?}")));
        }
        if !d.comp_imports.is_empty() {
            bad.push(("interface", format!("component imports in embed mode: {:?}", d.comp_imports)));
        }
    } else {
        let got_pkgs: Vec<Value> = d
            .comp_imports
            .iter()
            .map(|n| pkg_of(&json!({"t": "import", "name": n})))
            .collect();
        let set: BTreeSet<String> = got_pkgs.iter().map(|v| v.as_str().unwrap().to_string()).collect();
        if set.len() != got_pkgs.len() || set != want_pkgs {
            bad.push(("interface", format!("imported components {got_pkgs:?}, instantiated packages {want_pkgs:?}")));
        }
        if !d.nested.is_empty() {
            bad.push(("wiring", "nested components in import mode".into()));
        }
    }
    // exports: name -> term
    let got_ex: BTreeMap<String, String> = d
        .exports
        .iter()
        .map(|(n, _, t, _)| (n.clone(), norm_real_term(t, &pkg_of).to_string()))
        .collect();
    let exp_ex: BTreeMap<String, String> = want["exports"]
        .as_array()
        .unwrap()
        .iter()
        .map(|x| (x["name"].as_str().unwrap().to_string(), norm_spec_term(&x["term"]).to_string()))
        .collect();
    if got_ex.len() != d.exports.len() {
        bad.push(("interface", "duplicate export names in the output".into()));
    }
    if got_ex != exp_ex {
        bad.push(("wiring", format!("exports: output {got_ex:?} / composition {exp_ex:?}")));
        // the set of export names is part of the interface (C03) as well as of the wiring (C02)
        let gk: Vec<&String> = got_ex.keys().collect();
        let ek: Vec<&String> = exp_ex.keys().collect();
        if gk != ek {
            bad.push(("interface", format!("export names: output {gk:?} / composition {ek:?}")));
        }
    }
    // export kinds: the kind of the designated item
    let want_kinds: BTreeMap<String, Value> = want["exports"]
        .as_array()
        .unwrap()
        .iter()
        .map(|x| (x["name"].as_str().unwrap().to_string(), norm_kind(&x["kind"])))
        .collect();
    for (name, _, _, kind) in &d.exports {
        if let Some(want_kind) = want_kinds.get(name) {
            let mut want_kind = want_kind.clone();
            if want_kind["c"] == "type" {
                // definitions are compared structurally: the harness created the definable types
                if let Some(wac_types::Type::Value(v)) =
                    m.and_then(|m| m.world.def_types.get(want_kind["id"].as_str().unwrap_or("")))
                {
                    want_kind = json!({"c": "type", "desc": crate::describe::value_desc(m.unwrap().world.graph.types(), *v)});
                }
            }
            if &want_kind != kind {
                bad.push(("interface", format!("export `{name}` has kind {kind}, designated item has kind {want_kind}")));
            }
        }
    }
    // imports: names and kinds
    let got_im: BTreeMap<String, Value> = d.imports.iter().cloned().collect();
    let exp_im: BTreeMap<String, Value> = want["imports"]
        .as_array()
        .unwrap()
        .iter()
        .map(|x| (x["name"].as_str().unwrap().to_string(), norm_kind(&x["kind"])))
        .collect();
    if got_im.len() != d.imports.len() {
        bad.push(("interface", "duplicate import names in the output".into()));
    }
    if got_im != exp_im {
        bad.push(("interface", format!("imports: output {} / composition {}", json!(got_im), json!(exp_im))));
    }
    // name section
    let mut got_names: Vec<String> = d
        .names
        .iter()
        .map(|(s, n, t)| json!([s, n, norm_real_term(t, &pkg_of)]).to_string())
        .collect();
    got_names.sort();
    let mut exp_names: Vec<String> = want["names"]
        .as_array()
        .unwrap()
        .iter()
        .map(|x| {
            let sort = match x["sort"].as_str().unwrap() {
                "inst" => "instance",
                "func" => "func",
                "type" | "rtype" => "type",
                o => o,
            };
            let name = x["name"].as_str().map(|s| s.to_string()).unwrap_or_else(|| crate::graphreplay::node_name(x["id"].as_u64().unwrap_or(0)));
            json!([sort, name, norm_spec_term(&x["term"])]).to_string()
        })
        .collect();
    exp_names.sort();
    if got_names != exp_names {
        bad.push(("wiring", format!("name section: output {got_names:?} / composition {exp_names:?}")));
    }
    // emission order: imports first
    let first_non_import = d.order.iter().position(|o| !o.starts_with("import:"));
    if let Some(p) = first_non_import {
        if !define_components {
            // component imports are interleaved with instantiations by design in import mode
        } else if d.order[p..].iter().any(|o| o.starts_with("import:")) {
            bad.push(("interface", format!("imports are not emitted first: {:?}", d.order)));
        }
    }
    let _ = canon;
    bad
}
