//! Graph libraries (universes): the concrete side of /verif/lib/universe.py.
use crate::describe::KindMap;
use anyhow::{anyhow, Context, Result};
use serde_json::Value;
use std::collections::{BTreeMap, HashMap};
use wac_graph::CompositionGraph;
use wac_types::{
    DefinedType, ItemKind, Package, PrimitiveType, Record, Resource, Type, ValueType,
};

pub struct LibPkg {
    pub name: String,
    pub version: Option<semver::Version>,
    pub bytes: Vec<u8>,
    pub imports: Vec<(String, Value)>,
    pub exports: Vec<(String, Value)>,
}

pub struct Lib {
    pub name: String,
    pub pkgs: BTreeMap<String, LibPkg>,
    pub kinds: BTreeMap<String, Value>,
    pub kinds_bytes: Vec<u8>,
    pub deftypes: BTreeMap<String, (String, Vec<String>)>,
    pub sigs: BTreeMap<String, String>,
}

impl Lib {
    pub fn load(dir: &str, name: &str) -> Result<Lib> {
        let path = format!("{dir}/{name}.json");
        let v: Value = serde_json::from_str(
            &std::fs::read_to_string(&path).with_context(|| format!("reading {path}"))?,
        )?;
        let mut pkgs = BTreeMap::new();
        for (id, p) in v["pkgs"].as_object().unwrap() {
            let items = |k: &str| -> Vec<(String, Value)> {
                p[k].as_array()
                    .unwrap()
                    .iter()
                    .map(|it| (it[0].as_str().unwrap().to_string(), it[1].clone()))
                    .collect()
            };
            pkgs.insert(
                id.clone(),
                LibPkg {
                    name: p["name"].as_str().unwrap().to_string(),
                    version: p["version"]
                        .as_str()
                        .map(|s| semver::Version::parse(s).unwrap()),
                    bytes: wat::parse_str(p["wat"].as_str().unwrap())
                        .with_context(|| format!("assembling package {id}"))?,
                    imports: items("imports"),
                    exports: items("exports"),
                },
            );
        }
        let mut kinds = BTreeMap::new();
        for (k, t) in v["kinds"].as_object().unwrap() {
            kinds.insert(k.clone(), t.clone());
        }
        let mut deftypes = BTreeMap::new();
        for (k, t) in v["deftypes"].as_object().unwrap() {
            deftypes.insert(
                k.clone(),
                (
                    t["class"].as_str().unwrap().to_string(),
                    t["deps"]
                        .as_array()
                        .unwrap()
                        .iter()
                        .map(|d| d.as_str().unwrap().to_string())
                        .collect(),
                ),
            );
        }
        let mut sigs = BTreeMap::new();
        for (k, t) in v["sigs"].as_object().unwrap() {
            sigs.insert(k.clone(), t.as_str().unwrap().to_string());
        }
        Ok(Lib {
            name: name.to_string(),
            pkgs,
            kinds,
            kinds_bytes: wat::parse_str(v["kinds_wat"].as_str().unwrap())?,
            deftypes,
            sigs,
        })
    }
}

/// A fresh real graph with every library item decoded into its type collection.
#[derive(Clone)]
pub struct World {
    pub graph: CompositionGraph,
    pub packages: HashMap<String, Package>,
    pub kind_items: HashMap<String, ItemKind>,
    pub def_types: HashMap<String, Type>,
    pub kmap: KindMap,
}

impl World {
    pub fn new(lib: &Lib) -> Result<World> {
        let mut graph = CompositionGraph::new();
        let mut packages = HashMap::new();
        for (id, p) in &lib.pkgs {
            let pkg = Package::from_bytes(
                &p.name,
                p.version.as_ref(),
                p.bytes.clone(),
                graph.types_mut(),
            )
            .with_context(|| format!("decoding library package {id}"))?;
            packages.insert(id.clone(), pkg);
        }
        let mut kind_items = HashMap::new();
        if !lib.kinds.is_empty() {
            let kp = Package::from_bytes(
                "verif:kinds",
                None,
                lib.kinds_bytes.clone(),
                graph.types_mut(),
            )?;
            let world = &graph.types()[kp.ty()];
            for k in lib.kinds.keys() {
                let item = world
                    .imports
                    .get(&format!("k-{}", k.to_lowercase()))
                    .ok_or_else(|| anyhow!("kind {k} missing from kinds package"))?;
                kind_items.insert(k.clone(), *item);
            }
        }
        let mut kmap = KindMap::default();
        for (s, d) in &lib.sigs {
            kmap.sigs.insert(d.clone(), s.clone());
        }
        // definable types, dependencies first
        let mut def_types: HashMap<String, Type> = HashMap::new();
        let mut pending: Vec<&String> = lib.deftypes.keys().collect();
        while !pending.is_empty() {
            let before = pending.len();
            pending.retain(|id| {
                let (class, deps) = &lib.deftypes[*id];
                if !deps.iter().all(|d| def_types.contains_key(d)) {
                    return true;
                }
                let types = graph.types_mut();
                let ty = if class == "resource" {
                    Type::Resource(types.add_resource(Resource {
                        name: (*id).clone(),
                        alias: None,
                    }))
                } else if class == "world" {
                    // the world type of the (alphabetically) first package of the library
                    let first = packages.keys().min().expect("a library with a world type has a package");
                    Type::World(packages[first].ty())
                } else {
                    let dep_vt = |d: &String| match def_types[d] {
                        Type::Value(v) => v,
                        _ => unreachable!(),
                    };
                    let dt = match deps.len() {
                        0 => {
                            let mut r = Record {
                                fields: Default::default(),
                            };
                            r.fields
                                .insert("f".into(), ValueType::Primitive(PrimitiveType::U32));
                            DefinedType::Record(r)
                        }
                        1 => DefinedType::List(dep_vt(&deps[0])),
                        _ => DefinedType::Tuple(deps.iter().map(dep_vt).collect()),
                    };
                    Type::Value(ValueType::Defined(types.add_defined_type(dt)))
                };
                def_types.insert((*id).clone(), ty);
                kmap.deftypes.insert(ty, (*id).clone());
                false
            });
            if pending.len() == before {
                return Err(anyhow!("cyclic deftypes"));
            }
        }
        Ok(World {
            graph,
            packages,
            kind_items,
            def_types,
            kmap,
        })
    }
}
