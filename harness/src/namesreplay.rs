//! C15: replays NameMapSpec REPLAY lines and PAIRS verdict vectors against wac_types::names.
use serde_json::{json, Value};
use wac_types::{are_semver_compatible, NameMap, NameMapIntern, NameMapNoIntern};

pub struct NameUniverses {
    pub full: Vec<String>,
    pub small: Vec<String>,
}

impl NameUniverses {
    pub fn load(dir: &str) -> NameUniverses {
        let v: Value = serde_json::from_str(&std::fs::read_to_string(format!("{dir}/names.json")).unwrap()).unwrap();
        let list = |k: &str| -> Vec<String> {
            v[k].as_array().unwrap().iter().map(|x| x.as_str().unwrap().to_string()).collect()
        };
        NameUniverses {
            full: list("full"),
            small: list("small"),
        }
    }
}

/// An interner in the proper sense: keys are numbers handed out by `intern`, and `lookup` answers
/// `None` for a string that was never interned (unlike `NameMapNoIntern`, which knows every string).
#[derive(Default)]
pub struct CountingIntern {
    ids: std::collections::HashMap<String, u32>,
}

impl NameMapIntern for CountingIntern {
    type Key = u32;
    fn intern(&mut self, s: &str) -> u32 {
        let n = self.ids.len() as u32;
        *self.ids.entry(s.to_string()).or_insert(n)
    }
    fn lookup(&self, s: &str) -> Option<u32> {
        self.ids.get(s).copied()
    }
}

/// `{"seq": [[name, shadow, res]...], "gets": [[allowed values]...]}` (indices are 1-based).  The
/// contract is the same for every interner: the line is replayed with both.
pub fn replay_map_line(u: &[String], line: &Value) -> Vec<Value> {
    let mut findings = replay_map_line_with(u, line, NameMapNoIntern);
    if findings.is_empty() {
        findings = replay_map_line_with(u, line, CountingIntern::default());
        for f in findings.iter_mut() {
            f["interner"] = json!("one whose lookup answers None for strings never interned");
        }
    }
    findings
}

fn replay_map_line_with<I>(u: &[String], line: &Value, mut cx: I) -> Vec<Value>
where
    I: NameMapIntern,
    I::Key: Clone + std::hash::Hash + Eq + Ord,
{
    let mut findings = Vec::new();
    let mut map: NameMap<I::Key, u64> = NameMap::default();
    let mut count = 0u64;
    let seq = line["seq"].as_array().cloned().unwrap_or_default();
    for (step, s) in seq.iter().enumerate() {
        let name = &u[s[0].as_u64().unwrap() as usize - 1];
        let shadow = s[1].as_bool().unwrap();
        let want_ok = s[2] == "ok";
        let r = crate::util::guarded(|| map.insert(name, &mut cx, shadow, count + 1));
        match r {
            Err(p) => {
                findings.push(json!({"class": "names", "what": format!("insert({name}) panicked: {p}"), "seq": seq, "step": step}));
                return findings;
            }
            Ok(r) => {
                if r.is_ok() != want_ok {
                    findings.push(json!({"class": "names", "what": format!("insert({name}, shadow={shadow}) returned {}, contract says {}", if r.is_ok() {"Ok"} else {"Err"}, s[2]), "seq": seq, "step": step}));
                    return findings;
                }
                if r.is_ok() {
                    count += 1;
                }
            }
        }
    }
    for (qi, allowed) in line["gets"].as_array().unwrap().iter().enumerate() {
        let q = &u[qi];
        let allowed: Vec<u64> = allowed.as_array().unwrap().iter().map(|x| x.as_u64().unwrap()).collect();
        let got = match crate::util::guarded(|| map.get(q, &cx).copied()) {
            Ok(g) => g,
            Err(p) => {
                findings.push(json!({"class": "names", "what": format!("get({q}) panicked: {p}"), "seq": seq}));
                continue;
            }
        };
        let ok = match got {
            None => allowed.is_empty(),
            Some(v) => allowed.contains(&v),
        };
        if !ok {
            let names: Vec<&String> = seq.iter().map(|s| &u[s[0].as_u64().unwrap() as usize - 1]).collect();
            findings.push(json!({
                "class": "names",
                "what": format!("get({q}) after inserting {names:?} returned the entry of insert #{got:?}; the contract allows insert #{allowed:?}"),
                "seq": seq, "query": q
            }));
        }
    }
    findings
}

/// `{"a": i, "compat": [j...]}`: every j in the universe must get the spec's verdict
pub fn replay_pairs_line(u: &[String], line: &Value) -> (Vec<Value>, usize) {
    let mut findings = Vec::new();
    let a = line["a"].as_u64().unwrap() as usize;
    let compat: std::collections::HashSet<usize> =
        line["compat"].as_array().unwrap().iter().map(|x| x.as_u64().unwrap() as usize).collect();
    for j in 1..=u.len() {
        let want = compat.contains(&j);
        let got = are_semver_compatible(&u[a - 1], &u[j - 1]);
        if got != want {
            findings.push(json!({
                "class": "names",
                "what": format!("are_semver_compatible({:?}, {:?}) = {got}, the semver track relation says {want}", u[a - 1], u[j - 1]),
                "pair": [u[a - 1], u[j - 1]]
            }));
        }
    }
    (findings, u.len())
}
