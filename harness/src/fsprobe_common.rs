// Shared by bin/fsprobe.rs (wac-resolver built WITH the `wat` feature) and fsnowat/src/main.rs
// (built WITHOUT it).  Reads REPLAY rows of spec/FsLookup.tla on stdin, materialises each row as a
// temporary directory tree, calls FileSystemPackageResolver::resolve and compares the outcome class
// and the returned bytes with what the decision table says.
use indexmap::IndexMap;
use miette::SourceSpan;
use serde_json::{json, Value};
use std::collections::HashMap;
use std::io::{BufRead, Write};
use std::path::{Path, PathBuf};
use wac_resolver::{Error, FileSystemPackageResolver};
use wac_types::BorrowedPackageKey;

fn component_wat(marker: &str) -> String {
    // distinct, valid components: the marker ends up in a custom section
    format!("(component (@custom \"verif\" \"{marker}\"))")
}

fn write(path: &Path, bytes: &[u8]) {
    std::fs::create_dir_all(path.parent().unwrap()).unwrap();
    std::fs::write(path, bytes).unwrap();
}

fn wit_dir_bytes(dir: &Path) -> Vec<u8> {
    let mut resolve = wit_parser::Resolve::new();
    let (pkg, _) = resolve.push_dir(dir).unwrap();
    wit_component::encode(&resolve, pkg).unwrap()
}

/// A request with several keys (MULTI lines of spec/FsLookup.tla): slots a, b, v are present
/// (b also as .wat), m and n are absent.  Returns a description of the disagreement, if any.
fn multi(v: &Value, has_wat: bool) -> Option<String> {
    let tmp = tempfile::tempdir().unwrap();
    let deps = tmp.path().join("deps");
    let a = wat::parse_str(component_wat("slot-a")).unwrap();
    let b_wasm = wat::parse_str(component_wat("slot-b-wasm")).unwrap();
    let b_wat = component_wat("slot-b-wat");
    let vv = wat::parse_str(component_wat("slot-v")).unwrap();
    write(&deps.join("ns").join("one.wasm"), &a);
    write(&deps.join("ns").join("two.wasm"), &b_wasm);
    write(&deps.join("ns").join("two.wat"), b_wat.as_bytes());
    write(&deps.join("ns").join("three").join("1.0.0.wasm"), &vv);
    let v1 = semver::Version::parse("1.0.0").unwrap();
    let v2 = semver::Version::parse("2.0.0").unwrap();
    let slot = |s: &str| -> (&'static str, Option<&semver::Version>, Option<Vec<u8>>) {
        match s {
            "a" => ("ns:one", None, Some(a.clone())),
            "b" => ("ns:two", None, Some(if has_wat { wat::parse_str(&b_wat).unwrap() } else { b_wasm.clone() })),
            "v" => ("ns:three", Some(&v1), Some(vv.clone())),
            "m" => ("ns:gone", None, None),
            _ => ("ns:lost", Some(&v2), None),
        }
    };
    let req: Vec<&str> = v["req"].as_array().unwrap().iter().map(|x| x.as_str().unwrap()).collect();
    let mut keys: IndexMap<BorrowedPackageKey<'_>, SourceSpan> = IndexMap::new();
    for (i, s) in req.iter().enumerate() {
        let (name, ver, _) = slot(s);
        keys.insert(BorrowedPackageKey::from_name_and_version(name, ver), SourceSpan::new((10 * i).into(), 3));
    }
    let resolver = FileSystemPackageResolver::new(deps.clone(), HashMap::new(), v["strict"].as_bool().unwrap());
    let got = std::panic::catch_unwind(std::panic::AssertUnwindSafe(|| resolver.resolve(&keys)));
    let want = &v["expect"];
    match got {
        Err(_) => Some("resolve panicked".into()),
        Ok(Err(Error::UnknownPackage { name, .. })) => {
            if want["outcome"] != "unknown" {
                Some(format!("the request fails with unknown package `{name}`; every present key must be returned and missing ones skipped"))
            } else if name != slot(want["key"].as_str().unwrap()).0 {
                Some(format!("the unknown package reported is `{name}`, the first missing key of the request is `{}`", slot(want["key"].as_str().unwrap()).0))
            } else {
                None
            }
        }
        Ok(Err(e)) => Some(format!("the request fails with {e}")),
        Ok(Ok(map)) => {
            if want["outcome"] != "ok" {
                return Some("the request succeeds although a package is missing in strict mode".into());
            }
            let loaded: Vec<&str> = want["loaded"].as_array().unwrap().iter().map(|x| x.as_str().unwrap()).collect();
            for s in &req {
                let (name, ver, bytes) = slot(s);
                let key = BorrowedPackageKey::from_name_and_version(name, ver);
                match (map.get(&key), loaded.contains(s)) {
                    (None, true) => return Some(format!("key `{name}` is present on disk but missing from the result")),
                    (Some(_), false) => return Some(format!("key `{name}` does not exist but is in the result")),
                    (Some(b), true) if Some(b) != bytes.as_ref() => return Some(format!("key `{name}` got other bytes than its file")),
                    _ => {}
                }
            }
            if map.len() != loaded.len() {
                return Some(format!("the result has {} entries, {} keys are present", map.len(), loaded.len()));
            }
            None
        }
    }
}

pub fn run(this_build_has_wat: bool) {
    let so = std::io::stdout();
    let mut so = so.lock();
    let (mut rows, mut findings, mut multis) = (0usize, 0usize, 0usize);
    for line in std::io::stdin().lock().lines() {
        let line = line.unwrap();
        if let Some(b) = line.strip_prefix("<<\"MULTI\", \"").and_then(|r| r.strip_suffix("\">>")) {
            let v: Value = serde_json::from_str(&b.replace("\\\"", "\"").replace("\\\\", "\\")).unwrap();
            rows += 1;
            multis += 1;
            if let Some(p) = multi(&v, this_build_has_wat) {
                findings += 1;
                writeln!(so, "{}", json!({"class": "fs", "what": p, "row": v, "expect": v["expect"]})).unwrap();
            }
            continue;
        }
        let js = match line.strip_prefix("<<\"REPLAY\", \"").and_then(|r| r.strip_suffix("\">>")) {
            Some(b) => b.replace("\\\"", "\"").replace("\\\\", "\\"),
            None => continue,
        };
        let v: Value = serde_json::from_str(&js).unwrap();
        let r = &v["row"];
        if r["watfeature"].as_bool().unwrap() != this_build_has_wat {
            continue;
        }
        rows += 1;
        let tmp = tempfile::tempdir().unwrap();
        let deps = tmp.path().join("deps");
        std::fs::create_dir_all(&deps).unwrap();
        let name = r["name"].as_str().unwrap();
        let ver = r["ver"].as_str().unwrap();
        let mut cand: PathBuf = deps.clone();
        for seg in name.split(':') {
            cand.push(seg);
        }
        if ver != "none" {
            cand.push(ver);
        }
        let with_ext = |p: &Path, ext: &str| -> PathBuf {
            let mut s = p.as_os_str().to_os_string();
            s.push(".");
            s.push(ext);
            PathBuf::from(s)
        };
        let mut expected: HashMap<&str, Vec<u8>> = HashMap::new();
        if r["dir"] == true {
            std::fs::create_dir_all(&cand).unwrap();
            if r["decoy"] == true {
                // a WIT package with a vendored dependency: the package of the directory itself is
                // what must be returned, not the one found in deps/
                write(&cand.join("deps").join("types").join("shapes.wit"), b"package dep:types;\ninterface shapes { type s = u32; }\n");
                std::fs::write(cand.join("a.wit"), "package ns:witpkg;\ninterface i { use dep:types/shapes.{s}; f: func(x: s); }\n").unwrap();
            } else {
                std::fs::write(cand.join("a.wit"), "package ns:witpkg;\ninterface i { f: func(); }\n").unwrap();
            }
            expected.insert("loaded:dir", wit_dir_bytes(&cand));
        }
        if r["wasm"] == true {
            // a `.wasm` file holding text is returned as it is: the extension decides, not the contents
            let b = if r["wasmtext"] == true {
                component_wat("from-wasm-holding-text").into_bytes()
            } else {
                wat::parse_str(component_wat("from-wasm")).unwrap()
            };
            write(&with_ext(&cand, "wasm"), &b);
            expected.insert("loaded:wasm", b);
        }
        if r["wat"] == true {
            let t = component_wat("from-wat");
            write(&with_ext(&cand, "wat"), t.as_bytes());
            expected.insert("loaded:wat", wat::parse_str(&t).unwrap());
        }
        if r["decoy"] == true && ver != "none" {
            // what Path::set_extension would look at: the last dotted component replaced
            let mut d = cand.clone();
            d.set_extension("wasm");
            write(&d, &wat::parse_str(component_wat("decoy-wasm")).unwrap());
            d.set_extension("wat");
            write(&d, component_wat("decoy-wat").as_bytes());
        } else if r["decoy"] == true {
            // unversioned: a sibling with a similar name
            write(&with_ext(&cand, "wasm.bak"), b"decoy");
        }
        let mut overrides = HashMap::new();
        match r["ovr"].as_str().unwrap() {
            o @ ("file" | "textfile") => {
                let p = tmp.path().join("elsewhere").join("override.wasm");
                let b = if o == "textfile" {
                    component_wat("from-override-holding-text").into_bytes()
                } else {
                    wat::parse_str(component_wat("from-override")).unwrap()
                };
                write(&p, &b);
                expected.insert("loaded:override", b);
                overrides.insert(name.to_string(), p);
            }
            "dangling" => {
                overrides.insert(name.to_string(), tmp.path().join("elsewhere").join("missing.wasm"));
            }
            _ => {}
        }
        let version = if ver == "none" { None } else { Some(semver::Version::parse(ver).unwrap()) };
        let mut keys: IndexMap<BorrowedPackageKey<'_>, SourceSpan> = IndexMap::new();
        let key = BorrowedPackageKey::from_name_and_version(name, version.as_ref());
        keys.insert(key, SourceSpan::new(3.into(), 4));
        let resolver = FileSystemPackageResolver::new(deps.clone(), overrides, r["strict"].as_bool().unwrap());
        let got = std::panic::catch_unwind(std::panic::AssertUnwindSafe(|| resolver.resolve(&keys)));
        let want = v["expect"].as_str().unwrap();
        let (tag, bytes): (String, Option<Vec<u8>>) = match got {
            Err(_) => ("panic".into(), None),
            Ok(Ok(map)) => match map.get(&key) {
                Some(b) => ("loaded".into(), Some(b.clone())),
                None => ("skipped".into(), None),
            },
            Ok(Err(Error::UnknownPackage { .. })) => ("unknown".into(), None),
            Ok(Err(Error::PackageResolutionFailure { .. })) => ("failure".into(), None),
            Ok(Err(e)) => (format!("other error: {e}"), None),
        };
        let mut problem = None;
        if let Some(src) = want.strip_prefix("loaded:") {
            if tag != "loaded" {
                problem = Some(format!("expected the package to be loaded from {src}, got {tag}"));
            } else if bytes.as_ref() != expected.get(want) {
                let from = expected.iter().find(|(_, b)| Some(*b) == bytes.as_ref()).map(|(k, _)| k.to_string());
                problem = Some(format!(
                    "expected the bytes of {src}, got {}",
                    from.unwrap_or_else(|| "other bytes (a file that must not be read?)".into())
                ));
            }
        } else if tag != want {
            problem = Some(format!("expected {want}, got {tag}"));
        }
        if let Some(p) = problem {
            findings += 1;
            writeln!(so, "{}", json!({"class": "fs", "what": p, "row": r, "expect": want})).unwrap();
        }
    }
    writeln!(so, "{}", json!({"summary": true, "rows": rows, "multi_key_requests": multis, "findings": findings, "wat_feature": this_build_has_wat})).unwrap();
}
