//! Canonical structural descriptions of component-model types from three sources -- the reference
//! validator's type information, wac-types' public `Types` API, and the elaborated terms of
//! spec/Decl.tla -- in one JSON shape, so that they can be compared for equality:
//!   {"c":"fn","ps":[[name,ty]..],"r":ty|"_","async":bool}
//!   {"c":"inst","ex":{name:desc}}            (exports sorted by name)
//!   {"c":"comp","im":{..},"ex":{..}}
//!   {"c":"type","def":ty}                    ty is a string: record{a:u32,b:list<string>}, own<#1>, resource#1
//! Resources are numbered by first occurrence in this (name-sorted) traversal, so identity and
//! aliasing are compared without depending on any side's internal ids.
use serde_json::{json, Map, Value};
use std::collections::{BTreeMap, HashMap};
use std::hash::Hash;
use wac_types::{DefinedType, ItemKind, Type, Types, ValueType};
use wasmparser::component_types::{
    ComponentAnyTypeId, ComponentDefinedType, ComponentEntityType, ComponentValType, ResourceId,
};
use wasmparser::types::TypesRef;

/// first-occurrence numbering of resources
pub struct Num<K: Hash + Eq>(HashMap<K, usize>);

impl<K: Hash + Eq> Default for Num<K> {
    fn default() -> Self {
        Num(HashMap::new())
    }
}

impl<K: Hash + Eq> Num<K> {
    pub fn of(&mut self, k: K) -> usize {
        let n = self.0.len() + 1;
        *self.0.entry(k).or_insert(n)
    }
}

fn sorted(m: BTreeMap<String, Value>) -> Value {
    let mut o = Map::new();
    for (k, v) in m {
        o.insert(k, v);
    }
    Value::Object(o)
}

// ------------------------------------------------------------------ reference validator
pub fn ref_val(tr: &TypesRef, ty: &ComponentValType, num: &mut Num<ResourceId>) -> String {
    match ty {
        ComponentValType::Primitive(p) => format!("{p}"),
        ComponentValType::Type(id) => match &tr[*id] {
            ComponentDefinedType::Primitive(p) => format!("{p}"),
            ComponentDefinedType::Record(r) => {
                format!("record{{{}}}", r.fields.iter().map(|(n, t)| format!("{n}:{}", ref_val(tr, t, num))).collect::<Vec<_>>().join(","))
            }
            ComponentDefinedType::Variant(v) => format!(
                "variant{{{}}}",
                v.cases
                    .iter()
                    .map(|(n, c)| match &c.ty {
                        Some(t) => format!("{n}({})", ref_val(tr, t, num)),
                        None => n.to_string(),
                    })
                    .collect::<Vec<_>>()
                    .join(",")
            ),
            ComponentDefinedType::List(t) => format!("list<{}>", ref_val(tr, t, num)),
            ComponentDefinedType::FixedLengthList(t, n) => format!("list<{},{n}>", ref_val(tr, t, num)),
            ComponentDefinedType::Tuple(t) => format!("tuple<{}>", t.types.iter().map(|t| ref_val(tr, t, num)).collect::<Vec<_>>().join(",")),
            ComponentDefinedType::Flags(f) => format!("flags{{{}}}", f.iter().map(|s| s.to_string()).collect::<Vec<_>>().join(",")),
            ComponentDefinedType::Enum(f) => format!("enum{{{}}}", f.iter().map(|s| s.to_string()).collect::<Vec<_>>().join(",")),
            ComponentDefinedType::Option(t) => format!("option<{}>", ref_val(tr, t, num)),
            ComponentDefinedType::Result { ok, err } => format!(
                "result<{},{}>",
                ok.as_ref().map(|t| ref_val(tr, t, num)).unwrap_or_else(|| "_".into()),
                err.as_ref().map(|t| ref_val(tr, t, num)).unwrap_or_else(|| "_".into())
            ),
            ComponentDefinedType::Own(r) => format!("own<#{}>", num.of(r.resource())),
            ComponentDefinedType::Borrow(r) => format!("borrow<#{}>", num.of(r.resource())),
            ComponentDefinedType::Future(t) => format!("future<{}>", t.as_ref().map(|t| ref_val(tr, t, num)).unwrap_or_else(|| "_".into())),
            ComponentDefinedType::Stream(t) => format!("stream<{}>", t.as_ref().map(|t| ref_val(tr, t, num)).unwrap_or_else(|| "_".into())),
            other => format!("{other:?}"),
        },
    }
}

pub fn ref_entity(tr: &TypesRef, ty: &ComponentEntityType, num: &mut Num<ResourceId>) -> Value {
    match ty {
        ComponentEntityType::Func(id) => {
            let f = &tr[*id];
            let ps: Vec<Value> = f.params.iter().map(|(n, t)| json!([n.to_string(), ref_val(tr, t, num)])).collect();
            json!({"c": "fn", "ps": ps, "r": f.result.as_ref().map(|t| ref_val(tr, t, num)).unwrap_or_else(|| "_".into()), "async": f.async_})
        }
        ComponentEntityType::Instance(id) => {
            let ex: BTreeMap<String, &ComponentEntityType> = tr[*id].exports.iter().map(|(n, t)| (n.clone(), t)).collect();
            json!({"c": "inst", "ex": sorted(ex.into_iter().map(|(n, t)| (n, ref_entity(tr, t, num))).collect())})
        }
        ComponentEntityType::Component(id) => {
            let im: BTreeMap<String, &ComponentEntityType> = tr[*id].imports.iter().map(|(n, t)| (n.clone(), t)).collect();
            let im = sorted(im.into_iter().map(|(n, t)| (n, ref_entity(tr, t, num))).collect());
            let ex: BTreeMap<String, &ComponentEntityType> = tr[*id].exports.iter().map(|(n, t)| (n.clone(), t)).collect();
            json!({"c": "comp", "im": im, "ex": sorted(ex.into_iter().map(|(n, t)| (n, ref_entity(tr, t, num))).collect())})
        }
        ComponentEntityType::Type { referenced, .. } => match referenced {
            ComponentAnyTypeId::Defined(id) => json!({"c": "type", "def": ref_val(tr, &ComponentValType::Type(*id), num)}),
            ComponentAnyTypeId::Resource(r) => json!({"c": "type", "def": format!("resource#{}", num.of(r.resource()))}),
            ComponentAnyTypeId::Func(id) => json!({"c": "type", "def": ref_entity(tr, &ComponentEntityType::Func(*id), num)}),
            other => json!({"c": "type", "def": format!("{other:?}")}),
        },
        ComponentEntityType::Module(_) => json!({"c": "module"}),
        ComponentEntityType::Value(v) => json!({"c": "value", "ty": ref_val(tr, v, num)}),
    }
}

// ------------------------------------------------------------------ wac-types
pub fn wac_val(types: &Types, ty: ValueType, num: &mut Num<wac_types::ResourceId>) -> String {
    match ty {
        ValueType::Primitive(p) => p.desc().to_string(),
        ValueType::Borrow(r) => format!("borrow<#{}>", num.of(types.resolve_resource(r))),
        ValueType::Own(r) => format!("own<#{}>", num.of(types.resolve_resource(r))),
        ValueType::Defined(id) => match &types[id] {
            DefinedType::Tuple(ts) => format!("tuple<{}>", ts.iter().map(|t| wac_val(types, *t, num)).collect::<Vec<_>>().join(",")),
            DefinedType::List(t) => format!("list<{}>", wac_val(types, *t, num)),
            DefinedType::FixedSizeList(t, n) => format!("list<{},{n}>", wac_val(types, *t, num)),
            DefinedType::Option(t) => format!("option<{}>", wac_val(types, *t, num)),
            DefinedType::Result { ok, err } => format!(
                "result<{},{}>",
                ok.map(|t| wac_val(types, t, num)).unwrap_or_else(|| "_".into()),
                err.map(|t| wac_val(types, t, num)).unwrap_or_else(|| "_".into())
            ),
            DefinedType::Variant(v) => format!(
                "variant{{{}}}",
                v.cases
                    .iter()
                    .map(|(n, t)| match t {
                        Some(t) => format!("{n}({})", wac_val(types, *t, num)),
                        None => n.clone(),
                    })
                    .collect::<Vec<_>>()
                    .join(",")
            ),
            DefinedType::Record(r) => format!("record{{{}}}", r.fields.iter().map(|(n, t)| format!("{n}:{}", wac_val(types, *t, num))).collect::<Vec<_>>().join(",")),
            DefinedType::Flags(f) => format!("flags{{{}}}", f.0.iter().cloned().collect::<Vec<_>>().join(",")),
            DefinedType::Enum(e) => format!("enum{{{}}}", e.0.iter().cloned().collect::<Vec<_>>().join(",")),
            DefinedType::Alias(t) => wac_val(types, *t, num),
            DefinedType::Stream(t) => format!("stream<{}>", t.map(|t| wac_val(types, t, num)).unwrap_or_else(|| "_".into())),
            DefinedType::Future(t) => format!("future<{}>", t.map(|t| wac_val(types, t, num)).unwrap_or_else(|| "_".into())),
        },
    }
}

pub fn wac_entity(types: &Types, kind: ItemKind, num: &mut Num<wac_types::ResourceId>) -> Value {
    match kind {
        // a TYPE item whose type is a function type is not a function
        ItemKind::Type(Type::Func(id)) => json!({"c": "type", "def": wac_entity(types, ItemKind::Func(id), num)}),
        ItemKind::Func(id) => {
            let f = &types[id];
            let ps: Vec<Value> = f.params.iter().map(|(n, t)| json!([n, wac_val(types, *t, num)])).collect();
            json!({"c": "fn", "ps": ps, "r": f.result.map(|t| wac_val(types, t, num)).unwrap_or_else(|| "_".into()), "async": f.is_async})
        }
        ItemKind::Instance(id) | ItemKind::Type(Type::Interface(id)) => {
            let ex: BTreeMap<String, ItemKind> = types[id].exports.iter().map(|(n, k)| (n.clone(), *k)).collect();
            json!({"c": "inst", "ex": sorted(ex.into_iter().map(|(n, k)| (n, wac_entity(types, k, num))).collect())})
        }
        ItemKind::Component(id) | ItemKind::Type(Type::World(id)) => {
            let im: BTreeMap<String, ItemKind> = types[id].imports.iter().map(|(n, k)| (n.clone(), *k)).collect();
            let im = sorted(im.into_iter().map(|(n, k)| (n, wac_entity(types, k, num))).collect());
            let ex: BTreeMap<String, ItemKind> = types[id].exports.iter().map(|(n, k)| (n.clone(), *k)).collect();
            json!({"c": "comp", "im": im, "ex": sorted(ex.into_iter().map(|(n, k)| (n, wac_entity(types, k, num))).collect())})
        }
        ItemKind::Type(Type::Value(v)) => json!({"c": "type", "def": wac_val(types, v, num)}),
        ItemKind::Type(Type::Resource(r)) => json!({"c": "type", "def": format!("resource#{}", num.of(types.resolve_resource(r)))}),
        ItemKind::Type(Type::Module(_)) | ItemKind::Module(_) => json!({"c": "module"}),
        ItemKind::Value(v) => json!({"c": "value", "ty": wac_val(types, v, num)}),
    }
}

// ------------------------------------------------------------------ spec/Decl.tla terms
/// value term of the specification -> the same text; resources are named by origin [iface, name]
pub fn spec_val(t: &Value, num: &mut Num<String>) -> String {
    let seq = |v: &Value| -> Vec<Value> { v.as_array().cloned().unwrap_or_default() };
    match t["c"].as_str().unwrap_or("?") {
        "none" => "_".into(),
        "prim" => t["p"].as_str().unwrap().to_string(),
        "list" => format!("list<{}>", spec_val(&t["e"], num)),
        "option" => format!("option<{}>", spec_val(&t["e"], num)),
        "result" => format!("result<{},{}>", spec_val(&t["ok"], num), spec_val(&t["err"], num)),
        "tuple" => format!("tuple<{}>", seq(&t["es"]).iter().map(|x| spec_val(x, num)).collect::<Vec<_>>().join(",")),
        "record" => format!("record{{{}}}", seq(&t["fs"]).iter().map(|f| format!("{}:{}", f["n"].as_str().unwrap(), spec_val(&f["v"], num))).collect::<Vec<_>>().join(",")),
        "variant" => format!(
            "variant{{{}}}",
            seq(&t["cs"])
                .iter()
                .map(|c| if c["v"]["c"] == "none" { c["n"].as_str().unwrap().to_string() } else { format!("{}({})", c["n"].as_str().unwrap(), spec_val(&c["v"], num)) })
                .collect::<Vec<_>>()
                .join(",")
        ),
        "enum" => format!("enum{{{}}}", seq(&t["ns"]).iter().map(|x| x.as_str().unwrap().to_string()).collect::<Vec<_>>().join(",")),
        "flags" => format!("flags{{{}}}", seq(&t["ns"]).iter().map(|x| x.as_str().unwrap().to_string()).collect::<Vec<_>>().join(",")),
        "own" => format!("own<#{}>", num.of(t["r"].to_string())),
        "borrow" => format!("borrow<#{}>", num.of(t["r"].to_string())),
        "resource" => format!("resource#{}", num.of(t["r"].to_string())),
        o => format!("?{o}"),
    }
}

/// kind term of the specification ([c:"fn"|"inst"|"comp"|"type"]) -> canonical description
pub fn spec_entity(t: &Value, num: &mut Num<String>) -> Value {
    let fun = |v: &Value| -> BTreeMap<String, Value> { v.as_object().map(|m| m.iter().map(|(k, x)| (k.clone(), x.clone())).collect()).unwrap_or_default() };
    match t["c"].as_str().unwrap_or("?") {
        "fn" => {
            let ps: Vec<Value> = t["ps"].as_array().cloned().unwrap_or_default().iter().map(|p| json!([p["n"], spec_val(&p["v"], num)])).collect();
            json!({"c": "fn", "ps": ps, "r": spec_val(&t["r"], num), "async": false})
        }
        "inst" => json!({"c": "inst", "ex": sorted(fun(&t["ex"]).into_iter().map(|(n, k)| (n, spec_entity(&k, num))).collect())}),
        "comp" => {
            let im = sorted(fun(&t["im"]).into_iter().map(|(n, k)| (n, spec_entity(&k, num))).collect());
            json!({"c": "comp", "im": im, "ex": sorted(fun(&t["ex"]).into_iter().map(|(n, k)| (n, spec_entity(&k, num))).collect())})
        }
        "type" => json!({"c": "type", "def": spec_val(&t["def"], num)}),
        o => json!({"c": format!("?{o}")}),
    }
}
