//! C10: replays the cases of spec/Plug.tla against the real `wac_graph::plug`.
use crate::decode;
use crate::glib::{Lib, World};
use crate::util::{guarded, validate};
use serde_json::{json, Value};
use std::collections::{BTreeMap, BTreeSet};
use wac_graph::{plug, EncodeOptions, NodeKind, PlugError};

pub fn replay_case(lib: &Lib, world: &World, line: &Value) -> Vec<Value> {
    let mut f = Vec::new();
    let sock = line["sock"].as_str().unwrap();
    let plugs: Vec<&str> = line["plugs"].as_array().unwrap().iter().map(|x| x.as_str().unwrap()).collect();
    let case = json!({"sock": sock, "plugs": plugs});
    let mut bad = |class: &str, what: String| {
        f.push(json!({"class": class, "what": what, "case": case}));
    };
    let mut w = world.clone();
    let g = &mut w.graph;
    let mut ids = BTreeMap::new();
    for p in plugs.iter().chain(std::iter::once(&sock)) {
        match g.register_package(w.packages[*p].clone()) {
            Ok(id) => {
                ids.insert(p.to_string(), id);
            }
            Err(e) => {
                bad("plug", format!("cannot register {p}: {e}"));
                return f;
            }
        }
    }
    let plug_ids: Vec<_> = plugs.iter().map(|p| ids[*p]).collect();
    let r = guarded(|| plug(g, plug_ids, ids[sock]));
    let allowed: Vec<&str> = line["allowed"].as_array().unwrap().iter().map(|x| x.as_str().unwrap()).collect();
    let (tag, detail) = match &r {
        Err(p) => ("panic", p.clone()),
        Ok(Ok(())) => ("ok", String::new()),
        Ok(Err(PlugError::NoPlugHappened)) => ("NoPlugHappened", String::new()),
        Ok(Err(e @ PlugError::GraphError { source })) => ("GraphError", format!("{e}: {source}")),
    };
    if !allowed.contains(&tag) {
        bad("plug", format!("plug() returned {tag} ({detail}); the contract allows {allowed:?}"));
        return f;
    }
    let inv = g.verif_invariants();
    if !inv.is_empty() {
        bad("plug", format!("graph invariants after plug(): {}", inv.join("; ")));
    }
    if tag != "ok" {
        return f;
    }
    // --- post-state of a successful plug
    let pkg_name = |pid| ids.iter().find(|(_, v)| **v == pid).map(|(k, _)| k.clone());
    let insts: Vec<_> = g
        .node_ids()
        .filter(|n| matches!(g[*n].kind(), NodeKind::Instantiation(_)))
        .collect();
    let sock_insts: Vec<_> = insts.iter().filter(|n| g[**n].package() == Some(ids[sock])).collect();
    if sock_insts.len() != 1 {
        bad("plug", format!("{} instantiations of the socket", sock_insts.len()));
        return f;
    }
    let si = *sock_insts[0];
    // wiring
    let mut wiring: BTreeMap<String, (String, String)> = BTreeMap::new();
    for (arg, src) in g.get_instantiation_arguments(si) {
        match g.get_alias_source(src) {
            Some((inst, exp)) => {
                let p = g[inst].package().and_then(pkg_name).unwrap_or_else(|| "?".into());
                if wiring.insert(arg.to_string(), (p, exp.to_string())).is_some() {
                    bad("plug", format!("socket import `{arg}` is supplied twice"));
                }
            }
            None => bad("plug", format!("socket import `{arg}` is supplied by a node that is not an alias of a plug export")),
        }
    }
    let sources = line["sources"].as_array().unwrap();
    for (imp, (p, exp)) in &wiring {
        let ok = sources.iter().any(|s| {
            s["imp"] == *imp && s["plug"] == *p && s["exps"].as_array().unwrap().iter().any(|e| e == exp)
        });
        if !ok {
            bad(
                "plug",
                format!("socket import `{imp}` is supplied by export `{exp}` of plug {p}; the contract does not allow that source"),
            );
        }
    }
    for m in line["must"].as_array().unwrap() {
        if !wiring.contains_key(m.as_str().unwrap()) {
            bad("plug", format!("socket import {m} has a matching plug export but was left as an import"));
        }
    }
    // contributing plugs are instantiated exactly once, idle plugs not at all
    let contributing: BTreeSet<&String> = wiring.values().map(|x| &x.0).collect();
    let mut inst_count: BTreeMap<String, usize> = BTreeMap::new();
    for n in &insts {
        if *n != si {
            let p = g[*n].package().and_then(pkg_name).unwrap_or_else(|| "?".into());
            *inst_count.entry(p).or_default() += 1;
        }
    }
    for p in &plugs {
        let want = if contributing.contains(&p.to_string()) { 1 } else { 0 };
        let got = inst_count.get(*p).copied().unwrap_or(0);
        if got != want {
            bad("plug", format!("plug {p} is instantiated {got} times, expected {want}"));
        }
    }
    // every socket export is exported under its own name, from the socket instance
    let want_exports: BTreeSet<String> = line["exports"].as_array().unwrap().iter().map(|x| x.as_str().unwrap().to_string()).collect();
    for name in &want_exports {
        match g.get_export(name) {
            Some(n) => match g.get_alias_source(n) {
                Some((inst, exp)) if inst == si && exp == name => {}
                other => bad("plug", format!("export `{name}` is bound to {:?}, expected the socket's export", other.map(|x| x.1.to_string()))),
            },
            None => bad("plug", format!("socket export `{name}` is not exported")),
        }
    }
    // what is left to import: the socket's unsupplied imports and the imports of the contributing plugs;
    // imports on one track (spec: `tracks`) merge under the highest version, unmergeable ones (`clashes`)
    // make the encoding fail although plug() succeeded (KF27)
    let mut left: Vec<(String, String)> =
        lib.pkgs[sock].imports.iter().map(|x| x.0.clone()).filter(|n| !wiring.contains_key(n)).map(|n| (sock.to_string(), n)).collect();
    for p in &contributing {
        for (n, _) in &lib.pkgs[*p].imports {
            left.push((p.to_string(), n.clone()));
        }
    }
    let is_left = |v: &Value| left.iter().any(|(p, n)| v["p"] == *p && v["n"] == *n);
    let conflict = line["clashes"].as_array().map(|a| a.iter().any(|c| is_left(&c["a"]) && is_left(&c["b"]))).unwrap_or(false);
    let mut by_track: BTreeMap<String, (i64, String)> = BTreeMap::new();
    for (_, n) in &left {
        let t = &line["tracks"][n.as_str()];
        let (key, rank) = (t["key"].as_str().unwrap_or(n).to_string(), t["rank"].as_i64().unwrap_or(0));
        let e = by_track.entry(key).or_insert((rank, n.clone()));
        if rank > e.0 {
            *e = (rank, n.clone());
        }
    }
    let want_im: BTreeSet<String> = by_track.values().map(|x| x.1.clone()).collect();
    // the Impl layer of the specification predicts the same interface for the same wiring
    let impl_w: BTreeSet<(String, String, String)> = line["impl"]["w"]
        .as_array()
        .map(|a| a.iter().map(|x| (x["imp"].as_str().unwrap().to_string(), x["plug"].as_str().unwrap().to_string(), x["exp"].as_str().unwrap().to_string())).collect())
        .unwrap_or_default();
    let real_w: BTreeSet<(String, String, String)> = wiring.iter().map(|(i, (p, e))| (i.clone(), p.clone(), e.clone())).collect();
    if impl_w == real_w && !conflict {
        let impl_im: BTreeSet<String> = line["impl"]["imports"].as_array().map(|a| a.iter().map(|x| x.as_str().unwrap().to_string()).collect()).unwrap_or_default();
        if impl_im != want_im || line["impl"]["conflict"] == true {
            bad("plug_tool", format!("the specification predicts imports {impl_im:?} for this wiring, the harness {want_im:?}"));
        }
    }
    // encodes to a valid component with exactly the expected interface
    for dc in [true, false] {
        let r = guarded(|| {
            g.encode(EncodeOptions {
                define_components: dc,
                validate: false,
                processor: None,
            })
        });
        match r {
            Err(p) => bad("plug", format!("encode after plug panicked: {p}")),
            Ok(Err(e)) => bad("plug_encode", format!("encode after a successful plug failed: {e}")),
            Ok(Ok(bytes)) => {
                if conflict {
                    bad("plug", "two imports that are left cannot be merged, yet the composition encodes".into());
                }
                if let Err(e) = validate(&bytes) {
                    bad("plug", format!("encode after plug returned invalid bytes: {e}"));
                    continue;
                }
                match decode::decode(&bytes, &lib.sigs) {
                    Err(e) => bad("plug", format!("output cannot be decoded: {e}")),
                    Ok(d) => {
                        let got_im: BTreeSet<String> = d.imports.iter().map(|x| x.0.clone()).collect();
                        if got_im != want_im {
                            bad("plug", format!("imports of the result: {got_im:?}, expected {want_im:?}"));
                        }
                        let got_ex: BTreeSet<String> = d.exports.iter().map(|x| x.0.clone()).collect();
                        if got_ex != want_exports {
                            bad("plug", format!("exports of the result: {got_ex:?}, expected {want_exports:?}"));
                        }
                    }
                }
            }
        }
    }
    if conflict {
        for x in f.iter_mut() {
            if x["class"] == "plug_encode" {
                x["kf"] = json!("plug-import-conflict");
            }
        }
    }
    f
}
