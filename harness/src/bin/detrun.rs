//! detrun: C16 re-execution.  Reads REPLAY lines (graph models) on stdin, rebuilds every history
//! and encodes it; the encoding of the same history must be byte-identical
//!   - when encoded twice, and on a clone of the graph,
//!   - when the history is rebuilt on K fresh graphs (every HashMap gets fresh hash keys),
//!   - across processes: `--hash-out F` writes one digest per line for the orchestrator to compare
//!     between runs in different processes (fresh per-process hash randomisation).
use serde_json::{json, Value};
use std::io::{BufRead, Write};
use std::sync::Arc;
use wac_verif_harness::glib::{Lib, World};
use wac_verif_harness::graphreplay::{Machine, Op};
use wac_verif_harness::util::{quiet_panics, sha256_hex, tlc_line};

fn arg(name: &str, default: &str) -> String {
    let args: Vec<String> = std::env::args().collect();
    args.iter()
        .position(|a| a == name)
        .and_then(|i| args.get(i + 1).cloned())
        .unwrap_or_else(|| default.to_string())
}

fn digest(m: &Machine) -> String {
    let mut parts = Vec::new();
    for dc in [true, false] {
        let (tag, detail, bytes) = m.encode(dc, false);
        match bytes {
            Some(b) => parts.push(sha256_hex(&b)),
            // diagnostics must be reproducible too
            None => parts.push(format!("{tag}:{}", sha256_hex(detail.as_bytes()))),
        }
    }
    parts.join("/")
}

fn build(world: &World, hist: &Value) -> Option<Machine> {
    let mut m = Machine::new(world);
    for o in hist.as_array().unwrap() {
        if m.apply(&Op::from_json(o)).tag != "ok" {
            return None;
        }
    }
    Some(m)
}

fn main() {
    quiet_panics();
    let data = arg("--data", "data");
    let libname = arg("--lib", "core");
    let fresh: usize = arg("--fresh", "3").parse().unwrap();
    let threads: usize = arg("--threads", "14").parse().unwrap();
    let every: usize = arg("--every", "1").parse().unwrap();
    let hash_out = arg("--hash-out", "");
    let lib = Arc::new(Lib::load(&data, &libname).unwrap_or_else(|e| {
        eprintln!("cannot load library: {e:#}");
        std::process::exit(2)
    }));
    let mut hists: Vec<Value> = Vec::new();
    for (i, line) in std::io::stdin().lock().lines().enumerate() {
        let line = line.unwrap();
        if i % every != 0 {
            continue;
        }
        if let Some(js) = tlc_line(&line, "REPLAY") {
            let v: Value = serde_json::from_str(&js).unwrap();
            hists.push(v["hist"].clone());
        } else if line.starts_with('{') {
            // histories recorded by the random driver (plain JSON)
            let v: Value = serde_json::from_str(&line).unwrap();
            if v["hist"].is_array() {
                hists.push(v["hist"].clone());
            }
        }
    }
    let hists = Arc::new(hists);
    let mut handles = Vec::new();
    for t in 0..threads {
        let hists = hists.clone();
        let lib = lib.clone();
        handles.push(std::thread::spawn(move || {
            let world = World::new(&lib).unwrap();
            let mut out: Vec<(usize, String, Vec<Value>)> = Vec::new();
            let mut i = t;
            while i < hists.len() {
                let hist = &hists[i];
                let mut findings = Vec::new();
                let d0 = match build(&world, hist) {
                    None => {
                        out.push((i, "unbuildable".into(), findings));
                        i += threads;
                        continue;
                    }
                    Some(m) => {
                        let d0 = digest(&m);
                        let again = digest(&m);
                        if again != d0 {
                            findings.push(json!({"class": "nondet", "what": "two encodings of the same graph differ", "hist": hist}));
                        }
                        let mut c = m.clone();
                        c.world.graph = m.world.graph.clone();
                        if digest(&c) != d0 {
                            findings.push(json!({"class": "nondet", "what": "the encoding of a clone of the graph differs", "hist": hist}));
                        }
                        d0
                    }
                };
                for k in 0..fresh {
                    let w = World::new(&lib).unwrap();
                    if let Some(m) = build(&w, hist) {
                        if digest(&m) != d0 {
                            findings.push(json!({"class": "nondet", "what": format!("the same history rebuilt on a fresh graph (fresh hash keys, attempt {k}) encodes to different bytes"), "hist": hist}));
                            break;
                        }
                    }
                }
                out.push((i, d0, findings));
                i += threads;
            }
            out
        }));
    }
    let mut all: Vec<(usize, String, Vec<Value>)> = Vec::new();
    for h in handles {
        all.extend(h.join().unwrap());
    }
    all.sort_by_key(|x| x.0);
    let so = std::io::stdout();
    let mut so = so.lock();
    let mut n = 0;
    for (_, _, fs) in &all {
        for f in fs {
            n += 1;
            if n <= 100 {
                writeln!(so, "{f}").unwrap();
            }
        }
    }
    if !hash_out.is_empty() {
        let mut f = std::io::BufWriter::new(std::fs::File::create(&hash_out).unwrap());
        for (i, d, _) in &all {
            writeln!(f, "{i} {d} {}", hists[*i]).unwrap();
        }
    }
    writeln!(so, "{}", json!({"summary": true, "lines": all.len(), "findings": n, "fresh": fresh})).unwrap();
}
