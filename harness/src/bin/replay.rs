//! replay <model> [args]: reads REPLAY lines (TLC output) on stdin, executes them against the real
//! code and writes one JSON result line per finding plus a final summary line to stdout.
use serde_json::{json, Value};
use std::io::{BufRead, Write};
use std::sync::{mpsc, Arc, Mutex};
use wac_verif_harness::glib::{Lib, World};
use wac_verif_harness::graphreplay::{replay_line, ReplayOpts};
use wac_verif_harness::util::{quiet_panics, tlc_line};

fn arg(name: &str, default: &str) -> String {
    let args: Vec<String> = std::env::args().collect();
    args.iter()
        .position(|a| a == name)
        .and_then(|i| args.get(i + 1).cloned())
        .unwrap_or_else(|| default.to_string())
}

fn main() {
    quiet_panics();
    let model = std::env::args().nth(1).expect("usage: replay <model> ...");
    match model.as_str() {
        "graph" => graph(),
        "names" => names(),
        "plug" => plug_model(),
        other => {
            eprintln!("unknown model {other}");
            std::process::exit(2);
        }
    }
}

/// C15: REPLAY lines (NameMap state machine, small universe) and PAIRS lines (relation, full universe)
fn names() {
    use wac_verif_harness::namesreplay::{replay_map_line, replay_pairs_line, NameUniverses};
    let data = arg("--data", "data");
    let max_findings: usize = arg("--max-findings", "200").parse().unwrap();
    let u = NameUniverses::load(&data);
    let stdin = std::io::stdin();
    let out = std::io::stdout();
    let mut out = out.lock();
    let (mut lines, mut gets, mut pairs, mut findings) = (0usize, 0usize, 0usize, 0usize);
    for line in stdin.lock().lines() {
        let line = line.unwrap();
        let mut fs = Vec::new();
        if let Some(js) = tlc_line(&line, "REPLAY") {
            let v: Value = serde_json::from_str(&js).unwrap();
            lines += 1;
            gets += u.small.len();
            fs = replay_map_line(&u.small, &v);
        } else if let Some(js) = tlc_line(&line, "PAIRS") {
            let v: Value = serde_json::from_str(&js).unwrap();
            lines += 1;
            let universe = if v["n"].as_u64() == Some(u.small.len() as u64) {
                &u.small
            } else {
                &u.full
            };
            let (f, n) = replay_pairs_line(universe, &v);
            pairs += n;
            fs = f;
        }
        for f in fs {
            findings += 1;
            if findings <= max_findings {
                writeln!(out, "{f}").unwrap();
            }
        }
    }
    writeln!(out, "{}", json!({"summary": true, "lines": lines, "gets": gets, "pairs": pairs, "findings": findings})).unwrap();
}

/// C10: one REPLAY line per (socket, plug list) case of spec/Plug.tla
fn plug_model() {
    use wac_verif_harness::plugreplay::replay_case;
    let data = arg("--data", "data");
    let lib = Lib::load(&data, "plug").unwrap_or_else(|e| {
        eprintln!("cannot load library: {e:#}");
        std::process::exit(2)
    });
    let world = World::new(&lib).unwrap_or_else(|e| {
        eprintln!("cannot build library world: {e:#}");
        std::process::exit(2)
    });
    let stdin = std::io::stdin();
    let out = std::io::stdout();
    let mut out = out.lock();
    let (mut lines, mut findings, mut oks) = (0usize, 0usize, 0usize);
    for line in stdin.lock().lines() {
        let line = line.unwrap();
        if let Some(js) = tlc_line(&line, "REPLAY") {
            let v: Value = serde_json::from_str(&js).unwrap();
            lines += 1;
            if v["allowed"].as_array().unwrap().iter().any(|x| x == "ok") {
                oks += 1;
            }
            for f in replay_case(&lib, &world, &v) {
                findings += 1;
                writeln!(out, "{f}").unwrap();
            }
        }
    }
    writeln!(out, "{}", json!({"summary": true, "lines": lines, "findings": findings, "cases_allowing_ok": oks})).unwrap();
}

fn graph() {
    let data = arg("--data", "data");
    let libname = arg("--lib", "core");
    let threads: usize = arg("--threads", "14").parse().unwrap();
    let encode_every: usize = arg("--encode-every", "1").parse().unwrap();
    let decode = arg("--decode", "1") == "1";
    let max_findings: usize = arg("--max-findings", "200").parse().unwrap();
    let lib = Arc::new(Lib::load(&data, &libname).unwrap_or_else(|e| {
        eprintln!("cannot load library: {e:#}");
        std::process::exit(2)
    }));
    let world = World::new(&lib).unwrap_or_else(|e| {
        eprintln!("cannot build library world: {e:#}");
        std::process::exit(2)
    });
    let (tx, rx) = mpsc::sync_channel::<Vec<(usize, String)>>(64);
    let rx = Arc::new(Mutex::new(rx));
    let (rtx, rrx) = mpsc::channel::<Value>();
    let mut handles = Vec::new();
    for _ in 0..threads {
        let rx = rx.clone();
        let rtx = rtx.clone();
        let lib = lib.clone();
        let world = world.clone();
        handles.push(std::thread::spawn(move || {
            let mut lines = 0usize;
            let mut ops = 0usize;
            let mut encodes = 0usize;
            let mut decoded = 0usize;
            loop {
                let batch = match rx.lock().unwrap().recv() {
                    Ok(b) => b,
                    Err(_) => break,
                };
                for (i, text) in batch {
                    let v: Value = match serde_json::from_str(&text) {
                        Ok(v) => v,
                        Err(e) => {
                            rtx.send(json!({"i": i, "class": "harness", "what": format!("bad JSON: {e}")})).unwrap();
                            continue;
                        }
                    };
                    let opts = ReplayOpts {
                        encode_every,
                        decode,
                        hash_repeats: 8,
                    };
                    let (findings, st) = replay_line(&lib, &world, &v, &opts);
                    lines += 1;
                    ops += st.ops_tried;
                    encodes += st.encodes;
                    decoded += st.decoded;
                    for f in findings {
                        rtx.send(json!({"i": i, "class": f.class, "what": f.what, "op": f.op, "hist": v["hist"], "kf": v["state"]["kf"]})).unwrap();
                    }
                }
            }
            rtx.send(json!({"summary": true, "lines": lines, "ops": ops, "encodes": encodes, "decoded": decoded})).unwrap();
        }));
    }
    drop(rtx);
    let reader = std::thread::spawn(move || {
        let stdin = std::io::stdin();
        let mut batch = Vec::new();
        let mut n = 0usize;
        let mut other = Vec::new();
        for line in stdin.lock().lines() {
            let line = line.unwrap();
            if let Some(js) = tlc_line(&line, "REPLAY") {
                batch.push((n, js));
                n += 1;
                if batch.len() >= 64 {
                    tx.send(std::mem::take(&mut batch)).unwrap();
                }
            } else {
                other.push(line);
            }
        }
        if !batch.is_empty() {
            tx.send(batch).unwrap();
        }
        (n, other)
    });
    let out = std::io::stdout();
    let mut out = out.lock();
    let (mut lines, mut ops, mut encodes, mut decoded, mut findings) = (0, 0, 0, 0, 0usize);
    let mut per_class: std::collections::BTreeMap<String, usize> = Default::default();
    for r in rrx {
        if r["summary"] == true {
            lines += r["lines"].as_u64().unwrap();
            ops += r["ops"].as_u64().unwrap();
            encodes += r["encodes"].as_u64().unwrap();
            decoded += r["decoded"].as_u64().unwrap();
        } else {
            findings += 1;
            // cap per finding class (and per known-finding flag set) so that a frequent class
            // cannot crowd out a rare one
            let key = format!("{}|{}", r["class"], r["kf"]);
            let n = per_class.entry(key).or_insert(0usize);
            *n += 1;
            if *n <= max_findings {
                writeln!(out, "{r}").unwrap();
            }
        }
    }
    for h in handles {
        h.join().unwrap();
    }
    let (n, other) = reader.join().unwrap();
    // pass the non-REPLAY lines of TLC through on stderr (statistics, errors)
    for l in other {
        eprintln!("{l}");
    }
    writeln!(
        out,
        "{}",
        json!({"summary": true, "read": n, "lines": lines, "ops": ops, "encodes": encodes, "decoded": decoded, "findings": findings, "per_class": per_class})
    )
    .unwrap();
}
