//! parsecheck: front-end conformance (C12, C13, C14, C17).  Reads ndjson documents on stdin:
//!   {"id", "text", "expect": "accept" | "reject" | "any", "toks": [lexeme...]?, "refs": [[name, version|null]...]?,
//!    "own": package name?, "self_new": bool?, "origin": free text}
//! and checks, per document: the verdict of Document::parse against the recogniser's, spans of the
//! error or of the tree, rendering of the diagnostic, print -> re-parse -> print (C13), the token
//! stream of the printed text against the generated one, and package discovery against Refs (C17).
use serde_json::{json, Value};
use std::io::{BufRead, Write};
use wac_parser::{Document, DocumentPrinter};
use wac_verif_harness::util::{guarded, quiet_panics};

fn check_span(text: &str, off: usize, len: usize) -> Option<String> {
    if off > text.len() || off + len > text.len() {
        return Some(format!("span {off}+{len} lies outside the source (length {})", text.len()));
    }
    if !text.is_char_boundary(off) || !text.is_char_boundary(off + len) {
        return Some(format!("span {off}+{len} is not on character boundaries"));
    }
    None
}

fn walk_spans(v: &Value, text: &str, bad: &mut Vec<String>) {
    match v {
        Value::Object(m) => {
            if let (Some(o), Some(l)) = (m.get("offset").and_then(|x| x.as_u64()), m.get("length").and_then(|x| x.as_u64())) {
                if m.len() == 2 {
                    if let Some(b) = check_span(text, o as usize, l as usize) {
                        bad.push(b);
                    }
                }
            }
            for x in m.values() {
                walk_spans(x, text, bad);
            }
        }
        Value::Array(a) => a.iter().for_each(|x| walk_spans(x, text, bad)),
        _ => {}
    }
}

/// the tree without source positions; of doc comments only whether there are any
fn strip(v: &Value) -> Value {
    match v {
        Value::Object(m) => {
            // a bare source span (e.g. the payload of `Fill` / `spread`)
            if m.len() == 2 && m.contains_key("offset") && m.contains_key("length") {
                return Value::Null;
            }
            let mut out = serde_json::Map::new();
            for (k, x) in m {
                if k == "span" {
                    continue;
                }
                if k == "docs" {
                    // the text and the splitting of doc comments are layout; whether an item is documented is not
                    out.insert("documented".into(), Value::Bool(x.as_array().map(|a| !a.is_empty()).unwrap_or(false)));
                    continue;
                }
                out.insert(k.clone(), strip(x));
            }
            Value::Object(out)
        }
        Value::Array(a) => Value::Array(a.iter().map(strip).collect()),
        o => o.clone(),
    }
}

/// Independent tokenizer written from the lexical grammar of LANGUAGE.md (ids with `%` and `-`,
/// package names/paths with an optional `@version` as one token, strings, `->`, `...`, single
/// character symbols; whitespace, line comments and nested block comments are skipped).
fn tokenize(text: &str) -> Result<Vec<String>, String> {
    let b: Vec<char> = text.chars().collect();
    let mut i = 0;
    let mut out = Vec::new();
    while i < b.len() {
        let c = b[i];
        if c.is_whitespace() {
            i += 1;
        } else if c == '/' && i + 1 < b.len() && b[i + 1] == '/' {
            while i < b.len() && b[i] != '\n' {
                i += 1;
            }
        } else if c == '/' && i + 1 < b.len() && b[i + 1] == '*' {
            let mut depth = 0;
            loop {
                if i + 1 >= b.len() {
                    return Err("unterminated block comment".into());
                }
                if b[i] == '/' && b[i + 1] == '*' {
                    depth += 1;
                    i += 2;
                } else if b[i] == '*' && b[i + 1] == '/' {
                    depth -= 1;
                    i += 2;
                    if depth == 0 {
                        break;
                    }
                } else {
                    i += 1;
                }
            }
        } else if c == '"' {
            let s = i;
            i += 1;
            while i < b.len() && b[i] != '"' {
                i += 1;
            }
            if i >= b.len() {
                return Err("unterminated string".into());
            }
            i += 1;
            out.push(b[s..i].iter().collect());
        } else if c.is_ascii_alphabetic() || c == '%' {
            let s = i;
            i += 1;
            while i < b.len() && (b[i].is_ascii_alphanumeric() || b[i] == '-' || b[i] == ':' || b[i] == '/' || b[i] == '%') {
                // `->` after an identifier is not part of it
                if b[i] == '-' && i + 1 < b.len() && b[i + 1] == '>' {
                    break;
                }
                // `:` and `/` join the segments of a package name / path only when another
                // identifier follows directly (`a: t`, `// comment`, `/* */` end the word)
                if (b[i] == ':' || b[i] == '/')
                    && !(i + 1 < b.len() && (b[i + 1].is_ascii_alphabetic() || b[i + 1] == '%'))
                {
                    break;
                }
                i += 1;
            }
            let has_colon = b[s..i].contains(&':');
            if has_colon && i < b.len() && b[i] == '@' {
                i += 1;
                while i < b.len() && (b[i].is_ascii_alphanumeric() || b[i] == '.' || b[i] == '-' || b[i] == '+') {
                    i += 1;
                }
                // a version does not end with a dot: `use a:b/c@1.0.0.{x}`
                while b[i - 1] == '.' {
                    i -= 1;
                }
            }
            out.push(b[s..i].iter().collect());
        } else if c == '-' && i + 1 < b.len() && b[i + 1] == '>' {
            out.push("->".into());
            i += 2;
        } else if c == '.' && i + 2 < b.len() && b[i + 1] == '.' && b[i + 2] == '.' {
            out.push("...".into());
            i += 3;
        } else {
            out.push(c.to_string());
            i += 1;
        }
    }
    Ok(out)
}

/// optional trailing commas are layout: drop a `,` directly before a closing bracket
fn normalize(toks: &[String]) -> Vec<String> {
    let mut out: Vec<String> = Vec::new();
    for (i, t) in toks.iter().enumerate() {
        if t == "," && i + 1 < toks.len() && matches!(toks[i + 1].as_str(), "}" | ")" | ">" | "]") {
            continue;
        }
        // `resource r;` and `resource r {}` are the same declaration
        if t == ";" && i >= 2 && toks[i - 2] == "resource" {
            out.push("{".into());
            out.push("}".into());
            continue;
        }
        out.push(t.clone());
    }
    out
}

fn print_doc(doc: &Document, source: &str) -> Result<String, String> {
    let mut s = String::new();
    match guarded(|| DocumentPrinter::new(&mut s, source, None).document(doc)) {
        Ok(Ok(())) => Ok(s),
        Ok(Err(e)) => Err(format!("printer error: {e}")),
        Err(p) => Err(format!("printer panicked: {p}")),
    }
}

fn main() {
    quiet_panics();
    let so = std::io::stdout();
    let mut so = so.lock();
    let (mut n, mut accepted, mut rejected, mut findings, mut printed, mut discovered) = (0usize, 0usize, 0usize, 0usize, 0usize, 0usize);
    for line in std::io::stdin().lock().lines() {
        let line = line.unwrap();
        if line.trim().is_empty() {
            continue;
        }
        let d: Value = serde_json::from_str(&line).unwrap();
        let text = d["text"].as_str().unwrap().to_string();
        let expect = d["expect"].as_str().unwrap_or("any");
        n += 1;
        let mut emit = |class: &str, what: String| {
            findings += 1;
            writeln!(so, "{}", json!({"class": class, "what": what, "id": d["id"], "origin": d["origin"], "text": if text.len() > 600 { let mut c = 600; while !text.is_char_boundary(c) { c -= 1; } &text[..c] } else { &text[..] }, "key": d["key"], "kf": d["kf"]})).unwrap();
        };
        let parsed = guarded(|| Document::parse(&text));
        let doc = match parsed {
            Err(p) => {
                emit("panic", format!("Document::parse panicked: {p}"));
                continue;
            }
            Ok(Err(e)) => {
                rejected += 1;
                if d["key"] == "discovery" {
                    // a hand-written document of the discovery check must be a document
                    emit("refs", format!("a directed discovery document does not parse: {e}"));
                }
                if expect == "accept" {
                    emit("parse_reject", format!("the text is derivable from the grammar but Document::parse rejects it: {e}"));
                }
                // the diagnostic points inside the source and can be rendered
                use miette::Diagnostic;
                let mut covered = false;
                if let Some(labels) = e.labels() {
                    for l in labels {
                        if let Some(b) = check_span(&text, l.offset(), l.len()) {
                            emit("span", format!("diagnostic `{e}`: {b}"));
                        } else if let Some(cp) = d["cp"].as_str() {
                            covered |= text[l.offset()..l.offset() + l.len()].contains(cp);
                        }
                    }
                }
                // "found end of input": the label is the last character of the source (the lexer's documented
                // stand-in for the end position, which the renderer cannot show), not some earlier character
                if format!("{e}").contains("found end of input") && !text.is_empty() && d["origin"].as_str().map(|o| o.contains("cut right after the token")).unwrap_or(false) {
                    let last = text.char_indices().last().map(|(i, _)| i).unwrap_or(0);
                    if let Some(labels) = e.labels() {
                        let ls: Vec<_> = labels.collect();
                        if !ls.is_empty() && !ls.iter().any(|l| l.offset() == last && l.offset() + l.len() == text.len()) {
                            emit("span", format!("diagnostic `{e}`: the end-of-input label is {}+{}, the last character of the source is at {last}", ls[0].offset(), ls[0].len()));
                        }
                    }
                }
                // a document made invalid by one forbidden code point: the diagnostic points at it
                if let Some(cp) = d["cp"].as_str() {
                    let m = format!("{e}");
                    if !covered && (m.contains("codepoint") || m.contains("control code")) {
                        emit("span", format!("diagnostic `{e}`: no label covers the offending code point U+{:04X}", cp.chars().next().map(|c| c as u32).unwrap_or(0)));
                    }
                }
                let e2 = format!("{e}");
                let r = guarded(|| {
                    let report = miette::Report::new(e).with_source_code(text.clone());
                    format!("{report:?}")
                });
                if let Err(p) = r {
                    emit("render", format!("rendering the diagnostic `{e2}` panicked: {p}"));
                }
                continue;
            }
            Ok(Ok(doc)) => doc,
        };
        accepted += 1;
        if expect == "reject" {
            emit("parse_accept", "the text is not derivable from the grammar but Document::parse accepts it".to_string());
            continue;
        }
        let tree = serde_json::to_value(&doc).unwrap();
        let mut bad = Vec::new();
        walk_spans(&tree, &text, &mut bad);
        for b in bad.into_iter().take(3) {
            emit("span", format!("tree: {b}"));
        }
        // ---- C12: the tree carries exactly the identifiers, strings and package references of the
        // derivation, in source order, with the right spans and the right name/segments/version split
        if let Some(want) = d["leaves"].as_array() {
            let mut got: Vec<&serde_json::Map<String, Value>> = Vec::new();
            fn collect<'a>(v: &'a Value, out: &mut Vec<&'a serde_json::Map<String, Value>>) {
                match v {
                    Value::Object(m) => {
                        // identifiers / package names are {"string": s, "span"}, string literals {"value": s, "span"}
                        let is_leaf = m.get("string").map(|s| s.is_string()).unwrap_or(false)
                            || m.get("value").map(|s| s.is_string()).unwrap_or(false);
                        if is_leaf && m.get("span").map(|s| s.is_object()).unwrap_or(false) {
                            out.push(m);
                        }
                        for (k, x) in m {
                            if k != "docs" {
                                collect(x, out);
                            }
                        }
                    }
                    Value::Array(a) => a.iter().for_each(|x| collect(x, out)),
                    _ => {}
                }
            }
            collect(&tree, &mut got);
            got.sort_by_key(|m| m["span"]["offset"].as_u64());
            if got.len() != want.len() {
                emit("tree", format!("the tree has {} identifier/string/package leaves, the derivation has {}", got.len(), want.len()));
            } else {
                for (g, w) in got.iter().zip(want.iter()) {
                    let lex = w["lex"].as_str().unwrap();
                    let gs = g.get("string").and_then(|x| x.as_str()).or_else(|| g.get("value").and_then(|x| x.as_str())).unwrap_or("");
                    let off = g["span"]["offset"].as_u64().unwrap() as usize;
                    let len = g["span"]["length"].as_u64().unwrap() as usize;
                    let slice = text.get(off..off + len).unwrap_or("");
                    let ok = match w["k"].as_str().unwrap() {
                        "id" => gs == lex.trim_start_matches('%') && slice == lex,
                        "string" => gs == lex.trim_matches('"') && slice.trim_matches('"') == gs,
                        _ => {
                            gs == lex
                                && slice == lex
                                && g.get("name").and_then(|x| x.as_str()) == w["name"].as_str()
                                && g.get("version").map(|x| x.as_str()) == Some(w["version"].as_str())
                                && (g.get("segments").is_none() || g.get("segments").and_then(|x| x.as_str()) == w["segments"].as_str())
                        }
                    };
                    if !ok {
                        emit("tree", format!("leaf {} of the tree (source `{slice}`) does not match the derivation's {w}", Value::Object((*g).clone())));
                        break;
                    }
                }
            }
        }
        // ---- C13: print, re-parse, print again
        match print_doc(&doc, &text) {
            Err(e) => emit("panic", e),
            Ok(p1) => {
                printed += 1;
                if let Some(toks) = d["toks"].as_array() {
                    let want: Vec<String> = toks.iter().map(|x| x.as_str().unwrap().to_string()).collect();
                    match tokenize(&p1) {
                        Err(e) => emit("print_tokens", format!("printed text cannot be tokenized: {e}")),
                        Ok(got) => {
                            let (g, w) = (normalize(&got), normalize(&want));
                            if g != w {
                                let k = g.iter().zip(w.iter()).position(|(a, b)| a != b).unwrap_or(g.len().min(w.len()));
                                emit(
                                    "print_tokens",
                                    format!(
                                        "the printed document is not the parsed one: token {k}: printed {:?}, source {:?}; printed text: {}",
                                        g.get(k.saturating_sub(2)..(k + 3).min(g.len())),
                                        w.get(k.saturating_sub(2)..(k + 3).min(w.len())),
                                        if p1.len() > 300 { &p1[..300] } else { &p1[..] }
                                    ),
                                );
                            }
                        }
                    }
                }
                match guarded(|| Document::parse(&p1).map(|d2| (serde_json::to_value(&d2).unwrap(), print_doc(&d2, &p1)))) {
                    Err(p) => emit("panic", format!("re-parsing the printed text panicked: {p}")),
                    Ok(Err(e)) => emit("reparse", format!("the printed text does not parse: {e}; printed text: {}", if p1.len() > 300 { &p1[..300] } else { &p1[..] })),
                    Ok(Ok((tree2, p2))) => {
                        if strip(&tree2) != strip(&tree) {
                            emit("reparse", format!("the tree of the printed text differs from the original; printed text: {}", if p1.len() > 300 { &p1[..300] } else { &p1[..] }));
                        }
                        match p2 {
                            Ok(p2) if p2 != p1 => emit("idempotent", "printing the re-parsed document gives different text".to_string()),
                            Err(e) => emit("panic", e),
                            _ => {}
                        }
                    }
                }
            }
        }
        // ---- C14: resolution against an empty package table must return, not crash
        if d["resolve"] == true {
            // the diagnostics of resolution and encoding point inside the source and can be rendered
            let diag = |e: wac_parser::resolution::Error, stage: &str| {
                use miette::Diagnostic;
                let mut bad = Vec::new();
                if let Some(labels) = e.labels() {
                    for l in labels {
                        if let Some(b) = check_span(&text, l.offset(), l.len()) {
                            bad.push(format!("{stage} diagnostic `{e}`: {b}"));
                        }
                    }
                }
                let e2 = format!("{e}");
                let r = guarded(|| {
                    let report = miette::Report::new(e).with_source_code(text.clone());
                    format!("{report:?}")
                });
                (bad, r.err().map(|p| format!("rendering the {stage} diagnostic `{e2}` panicked: {p}")))
            };
            let (mut spans, mut renders, mut panics) = (Vec::new(), Vec::new(), Vec::new());
            match guarded(|| doc.resolve(Default::default())) {
                Err(p) => panics.push(format!("Document::resolve panicked: {p}")),
                Ok(Err(e)) => {
                    let (b, r) = diag(e, "resolution");
                    spans.extend(b);
                    renders.extend(r);
                }
                Ok(Ok(r)) => match guarded(|| r.encode(Default::default())) {
                    Err(p) => panics.push(format!("Resolution::encode panicked: {p}")),
                    Ok(Err(e)) => {
                        let (b, r) = diag(e, "encoding");
                        spans.extend(b);
                        renders.extend(r);
                    }
                    Ok(Ok(_)) => {}
                },
            }
            for p in panics {
                emit("panic", p);
            }
            for s in spans {
                emit("span", s);
            }
            for r in renders {
                emit("render", r);
            }
        }
        // ---- C17: package discovery
        if let Some(refs) = d["refs"].as_array() {
            discovered += 1;
            let r = guarded(|| wac_resolver::packages(&doc).map(|m| m.keys().map(|k| (k.name.to_string(), k.version.map(|v| v.to_string()))).collect::<std::collections::BTreeSet<_>>()));
            match r {
                Err(p) => emit("panic", format!("packages() panicked: {p}")),
                Ok(Err(e)) => {
                    if d["self_new"] != true {
                        emit("refs", format!("packages() failed: {e}"));
                    }
                }
                Ok(Ok(got)) => {
                    if d["self_new"] == true {
                        emit("refs", "the document instantiates its own package but discovery accepted it".to_string());
                    }
                    let want: std::collections::BTreeSet<(String, Option<String>)> = refs
                        .iter()
                        .map(|x| (x[0].as_str().unwrap().to_string(), x[1].as_str().map(|s| s.to_string())))
                        .collect();
                    if got != want {
                        emit("refs", format!("packages() = {got:?}, references in the document = {want:?}"));
                    }
                }
            }
        }
    }
    writeln!(so, "{}", json!({"summary": true, "docs": n, "accepted": accepted, "rejected": rejected, "printed": printed, "discovered": discovered, "findings": findings})).unwrap();
}
