//! fsprobe: C18 rows with the `wat` feature of wac-resolver ON (see src/fsprobe_common.rs).
#[path = "../fsprobe_common.rs"]
mod common;
fn main() {
    common::run(true);
}
