//! wacreplay: C04.  Replays the programs of spec/Wac.tla (REPLAY lines on stdin) into the real
//! front end: the statements are concatenated into a WAC document, parsed, resolved against the
//! `wac` library (plus the WIT packages of the pool) and encoded.  Compared with the reference
//! evaluator: Ok / the Error variant of Document::resolve, the outcome of Resolution::encode, and
//! the wiring of the validated output (instantiations with their arguments, imports, exports, the
//! name section) read back by the independent decoder.
use indexmap::IndexMap;
use serde_json::{json, Value};
use std::collections::HashMap;
use std::io::{BufRead, Write};
use wac_graph::EncodeOptions;
use wac_parser::Document;
use wac_types::BorrowedPackageKey;
use wac_verif_harness::decode::{check_variant, decode};
use wac_verif_harness::glib::Lib;
use wac_verif_harness::util::{guarded, quiet_panics, tlc_line};

fn arg(name: &str, default: &str) -> String {
    let args: Vec<String> = std::env::args().collect();
    args.iter().position(|a| a == name).and_then(|i| args.get(i + 1).cloned()).unwrap_or_else(|| default.to_string())
}

fn variant<E: std::fmt::Debug>(e: &E) -> String {
    let d = format!("{e:?}");
    d.split(|c: char| !c.is_alphanumeric()).next().unwrap_or("").to_string()
}

fn main() {
    quiet_panics();
    let data = arg("--data", "data");
    let prop = arg("--prop", "C04");
    let mut discovery_checks = 0usize;
    let lib = Lib::load(&data, "wac").expect("library");
    let pool: Value = serde_json::from_str(&std::fs::read_to_string(format!("{data}/wacpool.json")).unwrap()).unwrap();
    let stmts: Vec<String> = pool["statements"].as_array().unwrap().iter().map(|s| s.as_str().unwrap().to_string()).collect();
    let header = format!("package {};\n", pool["package"].as_str().unwrap());
    // the packages a document may refer to: the library and the WIT packages of the pool
    let mut pkg_bytes: Vec<(String, Vec<u8>)> = lib.pkgs.values().map(|p| (p.name.clone(), p.bytes.clone())).collect();
    let every: usize = arg("--every", "1").parse().unwrap();
    let mut all_pkgs: Vec<(String, Option<semver::Version>, Vec<u8>)> = pkg_bytes.iter().map(|(n, b)| (n.clone(), None, b.clone())).collect();
    for (name, p) in pool["wit_packages"].as_object().unwrap() {
        let mut resolve = wit_parser::Resolve::new();
        let id = resolve.push_str(format!("{name}.wit"), p["text"].as_str().unwrap()).expect("wit package parses");
        let bytes = wit_component::encode(&resolve, id).expect("wit package encodes");
        all_pkgs.push((name.clone(), p["version"].as_str().map(|v| semver::Version::parse(v).unwrap()), bytes.clone()));
        if !p["version"].is_null() {
            continue; // versioned WIT packages are only referred to by target worlds
        }
        pkg_bytes.push((name.clone(), bytes));
    }
    let so = std::io::stdout();
    let mut so = so.lock();
    let mut per_class: HashMap<String, usize> = HashMap::new();
    let (mut programs, mut ok_programs, mut rejected, mut encoded, mut findings) = (0usize, 0usize, 0usize, 0usize, 0usize);
    if prop == "C16" {
        // directed documents with several offenders of one kind (which one is reported must not depend on hash
        // order): resolved repeatedly, every run with freshly keyed hash maps; one digest line each
        if let Ok(raw) = std::fs::read_to_string(format!("{}/det_docs.json", arg("--data", "data"))) {
            let docs: Value = serde_json::from_str(&raw).unwrap();
            for d in docs.as_array().unwrap() {
                let text = d["text"].as_str().unwrap().to_string();
                let Ok(doc) = Document::parse(&text) else {
                    eprintln!("a directed document does not parse: {text}");
                    std::process::exit(2);
                };
                // packages of this document alone (WAT text), next to the library
                let own: Vec<(String, Vec<u8>)> = d["packages"].as_object().map(|o| {
                    o.iter().map(|(n, t)| (n.clone(), wat::parse_str(t.as_str().unwrap()).expect("package of a directed document"))).collect()
                }).unwrap_or_default();
                let run = || -> String {
                    let mut m: IndexMap<BorrowedPackageKey, Vec<u8>> = IndexMap::new();
                    for (name, version, bytes) in &all_pkgs {
                        m.insert(BorrowedPackageKey::from_name_and_version(name, version.as_ref()), bytes.clone());
                    }
                    for (name, bytes) in &own {
                        m.insert(BorrowedPackageKey::from_name_and_version(name, None), bytes.clone());
                    }
                    match guarded(|| doc.resolve(m)) {
                        Err(p) => format!("panic: {p}"),
                        Ok(Err(e)) => {
                            use miette::Diagnostic;
                            let labels: Vec<String> = e.labels().map(|l| l.map(|x| format!("{}+{}:{}", x.offset(), x.len(), x.label().unwrap_or(""))).collect()).unwrap_or_default();
                            format!("error: {e} {labels:?}")
                        }
                        Ok(Ok(r)) => {
                            // a directed document that resolves: the bytes must not vary either
                            let mut parts = vec!["ok".to_string()];
                            for dc in [true, false] {
                                match guarded(|| r.encode(EncodeOptions { define_components: dc, validate: false, processor: None })) {
                                    Err(p) => parts.push(format!("panic: {p}")),
                                    Ok(Err(e)) => {
                                        use miette::Diagnostic;
                                        let labels: Vec<String> = e.labels().map(|l| l.map(|x| format!("{}+{}:{}", x.offset(), x.len(), x.label().unwrap_or(""))).collect()).unwrap_or_default();
                                        parts.push(format!("encode error: {e} {labels:?}"))
                                    }
                                    Ok(Ok(b)) => parts.push(wac_verif_harness::util::sha256_hex(&b)),
                                }
                            }
                            parts.join("/")
                        }
                    }
                };
                let first = run();
                for k in 0..15 {
                    let again = run();
                    if again != first {
                        findings += 1;
                        writeln!(so, "{}", json!({"class": "nondet", "kf": "", "text": text,
                            "what": format!("run {} of the same document in one process gives `{again}`, the first gave `{first}`", k + 2)})).unwrap();
                        break;
                    }
                }
                writeln!(so, "{}", json!({"digest": wac_verif_harness::util::sha256_hex(first.as_bytes()), "doc": wac_verif_harness::util::sha256_hex(text.as_bytes())})).unwrap();
            }
        }
    }
    for line in std::io::stdin().lock().lines() {
        let Some(js) = tlc_line(&line.unwrap(), "REPLAY") else { continue };
        let v: Value = serde_json::from_str(&js).unwrap();
        let prog: Vec<usize> = v["prog"].as_array().unwrap().iter().map(|x| x.as_u64().unwrap() as usize).collect();
        if prog.is_empty() {
            continue;
        }
        programs += 1;
        let text = header.clone() + &prog.iter().map(|i| stmts[*i - 1].as_str()).collect::<Vec<_>>().join("\n") + "\n";
        let allowed: Vec<String> = v["faults"].as_array().map(|a| a.iter().map(|x| x.as_str().unwrap().to_string()).collect()).unwrap_or_default();
        let kf = v["kf"].as_str().unwrap_or("").to_string();
        let mut emit = |so: &mut std::io::StdoutLock, class: &str, what: String| {
            findings += 1;
            let n = per_class.entry(format!("{class}/{kf}")).or_default();
            *n += 1;
            if *n <= 40 {
                writeln!(so, "{}", json!({"class": class, "what": what, "kf": kf, "prog": prog, "text": text, "allowed": allowed})).unwrap();
            }
        };
        let doc = match guarded(|| Document::parse(&text)) {
            Err(p) => {
                emit(&mut so, "panic", format!("Document::parse panicked: {p}"));
                continue;
            }
            Ok(Err(e)) => {
                emit(&mut so, "parse", format!("a program of the pool does not parse: {e}"));
                continue;
            }
            Ok(Ok(d)) => d,
        };
        if prop == "C16" {
            // reproducibility of the front end: the same document resolved (and encoded) repeatedly,
            // every run with freshly keyed hash maps, gives the same diagnostic or the same bytes;
            // one digest line per document for the comparison between processes
            if programs % every != 0 {
                continue;
            }
            let mut headers = vec![header.clone()];
            for w in ["w1", "w3", "wv"] {
                headers.push(format!("package {} targets {};\n", pool["package"].as_str().unwrap(), pool["worlds"][w]["path"].as_str().unwrap()));
            }
            for h in headers {
                let text2 = text.replacen(&header, &h, 1);
                let Ok(doc) = Document::parse(&text2) else { continue };
                let run = || -> String {
                    let mut m: IndexMap<BorrowedPackageKey, Vec<u8>> = IndexMap::new();
                    for (name, version, bytes) in &all_pkgs {
                        m.insert(BorrowedPackageKey::from_name_and_version(name, version.as_ref()), bytes.clone());
                    }
                    match guarded(|| doc.resolve(m)) {
                        Err(p) => format!("panic: {p}"),
                        Ok(Err(e)) => {
                            use miette::Diagnostic;
                            let labels: Vec<String> = e.labels().map(|l| l.map(|x| format!("{}+{}:{}", x.offset(), x.len(), x.label().unwrap_or(""))).collect()).unwrap_or_default();
                            format!("error: {e} {labels:?}")
                        }
                        Ok(Ok(r)) => {
                            let mut parts = Vec::new();
                            for dc in [true, false] {
                                match guarded(|| r.encode(EncodeOptions { define_components: dc, validate: false, processor: None })) {
                                    Err(p) => parts.push(format!("panic: {p}")),
                                    Ok(Err(e)) => parts.push(format!("encode error: {e}")),
                                    Ok(Ok(b)) => parts.push(wac_verif_harness::util::sha256_hex(&b)),
                                }
                            }
                            parts.join("/")
                        }
                    }
                };
                let first = run();
                discovery_checks += 1;
                for k in 0..2 {
                    let again = run();
                    if again != first {
                        emit(&mut so, "nondet", format!("run {} of the same document in one process gives `{}`, the first gave `{}`", k + 2, &again[..again.len().min(300)], &first[..first.len().min(300)]));
                        break;
                    }
                }
                writeln!(so, "{}", json!({"digest": wac_verif_harness::util::sha256_hex(first.as_bytes()), "doc": wac_verif_harness::util::sha256_hex(text2.as_bytes())})).unwrap();
            }
            continue;
        }
        if prop == "C17" {
            // package discovery finds every package resolution asks for: resolving with only the
            // discovered packages gives the same result as resolving with every package there is
            for with_target in [false, true] {
                let text2 = if with_target { text.replacen(";\n", " targets ns:p/w1;\n", 1) } else { text.clone() };
                let Ok(doc) = Document::parse(&text2) else { continue };
                let outcome = |only: Option<&Vec<String>>| -> String {
                    let mut m: IndexMap<BorrowedPackageKey, Vec<u8>> = IndexMap::new();
                    for (name, bytes) in &pkg_bytes {
                        if only.map(|o| o.contains(name)).unwrap_or(true) {
                            m.insert(BorrowedPackageKey::from_name_and_version(name, None), bytes.clone());
                        }
                    }
                    match guarded(|| doc.resolve(m)) {
                        Err(p) => format!("panic: {p}"),
                        Ok(Ok(_)) => "ok".to_string(),
                        Ok(Err(e)) => variant(&e),
                    }
                };
                let discovered: Vec<String> = match guarded(|| wac_resolver::packages(&doc)) {
                    Err(p) => {
                        emit(&mut so, "discovery", format!("packages() panicked: {p}"));
                        continue;
                    }
                    Ok(Err(e)) => {
                        // (discovery may refuse a document resolution refuses too, e.g. `new` of the own package)
                        if outcome(None) == "ok" {
                            emit(&mut so, "discovery", format!("packages() failed on a document that resolves: {e}"));
                        }
                        continue;
                    }
                    Ok(Ok(keys)) => keys.keys().map(|k| k.name.to_string()).collect(),
                };
                discovery_checks += 1;
                let (all, only) = (outcome(None), outcome(Some(&discovered)));
                if all != only {
                    emit(&mut so, "discovery", format!(
                        "with every package available resolution gives {all}; with the discovered packages {discovered:?} only it gives {only} (targets clause: {with_target})"));
                }
            }
            continue;
        }
        let mut packages: IndexMap<BorrowedPackageKey, Vec<u8>> = IndexMap::new();
        for (name, bytes) in &pkg_bytes {
            packages.insert(BorrowedPackageKey::from_name_and_version(name, None), bytes.clone());
        }
        let res = match guarded(|| doc.resolve(packages)) {
            Err(p) => {
                emit(&mut so, "panic", format!("Document::resolve panicked: {p}"));
                continue;
            }
            Ok(r) => r,
        };
        let resolution = match res {
            Err(e) => {
                rejected += 1;
                let got = variant(&e);
                if allowed.is_empty() {
                    emit(&mut so, "rejected", format!("a well-formed document is rejected: {got}: {e}"));
                } else if !allowed.contains(&got) {
                    emit(&mut so, "diagnostic", format!("rejected with {got} ({e}); the reference gives {allowed:?}"));
                }
                continue;
            }
            Ok(r) => r,
        };
        if !allowed.is_empty() {
            emit(&mut so, "accepted", format!("an ill-formed document resolves; the reference gives {allowed:?}"));
            continue;
        }
        ok_programs += 1;
        // ---- encode: outcome class, then the wiring of the output
        let want_enc: Vec<String> = v["encode"].as_array().map(|a| a.iter().map(|x| x.as_str().unwrap().to_string()).collect()).unwrap_or_default();
        for dc in [true, false] {
            let r = guarded(|| resolution.encode(EncodeOptions { define_components: dc, validate: true, processor: None }));
            let bytes = match r {
                Err(p) => {
                    emit(&mut so, "panic", format!("Resolution::encode panicked: {p}"));
                    break;
                }
                Ok(Err(e)) => {
                    let got = match variant(&e).as_str() {
                        "ImportConflict" => "ImplicitImportConflict".to_string(),
                        "InstantiationArgMergeFailure" => "ImportTypeMergeConflict".to_string(),
                        o => o.to_string(),
                    };
                    if !want_enc.contains(&got) {
                        emit(&mut so, "encode", format!("encode fails with {got} ({e}); the composition's outcome is {want_enc:?}"));
                    }
                    break;
                }
                Ok(Ok(b)) => b,
            };
            if !want_enc.iter().any(|x| x == "ok") {
                emit(&mut so, "encode", format!("encode succeeds; the composition's outcome is {want_enc:?}"));
                break;
            }
            encoded += 1;
            let d = match decode(&bytes, &lib.sigs) {
                Ok(d) => d,
                Err(e) => {
                    emit(&mut so, "wiring", format!("the output cannot be decoded: {e}"));
                    break;
                }
            };
            let mut first: Option<Vec<(&'static str, String)>> = None;
            let mut matched = false;
            for comp in v["comps"].as_array().unwrap() {
                let mut want = comp.clone();
                want["names"] = v["names"].clone();
                let bad = check_variant(&lib, None, &want, &d, dc);
                if bad.is_empty() {
                    matched = true;
                    break;
                }
                first.get_or_insert(bad);
            }
            if !matched {
                for (class, what) in first.unwrap_or_default().into_iter().take(3) {
                    emit(&mut so, class, format!("define_components={dc}: {what}"));
                }
            }
        }
    }
    writeln!(so, "{}", json!({"summary": true, "programs": programs, "ok_programs": ok_programs, "rejected": rejected,
        "encodings_decoded": encoded, "discovery_checks": discovery_checks, "findings": findings})).unwrap();
}
