//! clicheck: C19.  Runs the hooked `wac` binary for every row of spec/Cli.tla in a scratch directory
//! and compares exit status, stdout, stderr, the -o file and the encode options that reached the
//! encoder (hook H3/H5) with the decision table, and the bytes with the in-process library pipeline
//! on the same inputs.
use serde_json::{json, Value};
use std::collections::HashMap;
use std::io::{BufRead, Write};
use std::path::{Path, PathBuf};
use std::process::Command;
use wac_graph::{CompositionGraph, EncodeOptions};
use wac_parser::Document;
use wac_resolver::{packages, FileSystemPackageResolver};
use wac_verif_harness::util::{guarded, quiet_panics, validate};

fn arg(name: &str, default: &str) -> String {
    let args: Vec<String> = std::env::args().collect();
    args.iter().position(|a| a == name).and_then(|i| args.get(i + 1).cloned()).unwrap_or_else(|| default.to_string())
}

const INNER: &str = r#"(component
  (import "f" (func (param "a" u32) (result u32)))
  (core module $m (func (export "x") (param i32) (result i32) local.get 0))
  (core instance $i (instantiate $m))
  (func $x (param "a" u32) (result u32) (canon lift (core func $i "x")))
  (export "x" (func $x))
)"#;

fn compose_doc(scenario: &str) -> &'static str {
    match scenario {
        "ok" | "missing-file" => "package test:comp;\n\nlet i = new test:inner { ... };\nexport i.x;\n",
        "parse-error" => "package test:comp;\n\nlet i = ;\n",
        "self-instantiation" => "package test:comp;\n\nlet i = new test:comp { ... };\n",
        "resolution-error" => "package test:comp;\n\nlet i = new test:inner { ... };\nexport j.x;\n",
        // an explicit import named like an argument that is left to `...`: reported by the encoder
        "encode-error" => "package test:comp;\n\nimport f: func(a: string);\nlet i = new test:inner { ... };\nexport i.x;\n",
        _ => unreachable!(),
    }
}

struct Run {
    code: Option<i32>,
    stdout: Vec<u8>,
    stderr: Vec<u8>,
    events: Vec<Value>,
}

fn run(wac: &str, dir: &Path, args: &[String]) -> Run {
    let trace = dir.join("trace.ndjson");
    let _ = std::fs::remove_file(&trace);
    let out = Command::new(wac)
        .args(args)
        .current_dir(dir)
        .env("WAC_VERIF_TRACE", &trace)
        .env("RUST_BACKTRACE", "0")
        .env("NO_COLOR", "1")
        .env("HOME", dir)
        .output()
        .expect("cannot run wac");
    let events = std::fs::read_to_string(&trace)
        .unwrap_or_default()
        .lines()
        .filter_map(|l| serde_json::from_str(l).ok())
        .collect();
    Run {
        code: out.status.code(),
        stdout: out.stdout,
        stderr: out.stderr,
        events,
    }
}

/// the library pipeline of `wac compose` on the same inputs
fn lib_compose(dir: &Path, text: &str, deps_dir: &Path, overrides: HashMap<String, PathBuf>, define: bool, validate_flag: bool) -> Result<Vec<u8>, String> {
    let doc = Document::parse(text).map_err(|e| format!("parse: {e}"))?;
    let keys = packages(&doc).map_err(|e| format!("discovery: {e}"))?;
    let resolver = FileSystemPackageResolver::new(deps_dir.to_path_buf(), overrides, false);
    let pk = resolver.resolve(&keys).map_err(|e| format!("fs: {e}"))?;
    if let Some((k, _)) = keys.iter().find(|(k, _)| !pk.contains_key(*k)) {
        return Err(format!("unknown package {}", k.name));
    }
    let res = doc.resolve(pk).map_err(|e| format!("resolution: {e}"))?;
    let _ = dir;
    res.encode(EncodeOptions {
        define_components: define,
        validate: validate_flag,
        processor: None,
    })
    .map_err(|e| format!("encode: {e}"))
}

fn main() {
    quiet_panics();
    let wac = arg("--wac", "wac");
    let data = arg("--data", "data");
    let every: usize = arg("--every", "1").parse().unwrap();
    let plug_lib: Value = serde_json::from_str(&std::fs::read_to_string(format!("{data}/plug.json")).unwrap()).unwrap();
    let plug_bytes = |id: &str| wat::parse_str(plug_lib["pkgs"][id]["wat"].as_str().unwrap()).unwrap();
    let so = std::io::stdout();
    let mut so = so.lock();
    let (mut rows, mut runs, mut findings) = (0usize, 0usize, 0usize);
    for (ln, line) in std::io::stdin().lock().lines().enumerate() {
        let line = line.unwrap();
        let js = match line.strip_prefix("<<\"REPLAY\", \"").and_then(|r| r.strip_suffix("\">>")) {
            Some(b) => b.replace("\\\"", "\"").replace("\\\\", "\\"),
            None => continue,
        };
        let v: Value = serde_json::from_str(&js).unwrap();
        // sampling applies to the large compose block only; plug, parse and targets rows always run
        if ln % every != 0 && v["row"]["cmd"] == "compose" {
            continue;
        }
        let (r, x) = (&v["row"], &v["expect"]);
        rows += 1;
        let tmp = tempfile::tempdir().unwrap();
        let dir = tmp.path();
        let cmd = r["cmd"].as_str().unwrap();
        let scenario = r["scenario"].as_str().unwrap();
        let mut args: Vec<String> = vec![cmd.to_string()];
        let mut expected_out: Option<Vec<u8>> = None; // what stdout (or the -o file) must contain on success
        let mut repeats = 1;
        let mut note = String::new();
        match cmd {
            "compose" => {
                let text = compose_doc(scenario);
                // (compose rows carry `srcdir` in the `world` field: the document lies in a sub-directory
                // that has dependency directories of its own, with a different test:inner in them)
                let srcdir = r["world"] == true;
                let src = if srcdir { "sub/in.wac" } else { "in.wac" };
                if srcdir {
                    let other = wat::parse_str(INNER.replace("\"x\"", "\"not-from-here\"")).unwrap();
                    for d in ["sub/deps/test", "sub/mydeps/test", "sub/elsewhere"] {
                        std::fs::create_dir_all(dir.join(d)).unwrap();
                    }
                    std::fs::write(dir.join("sub/deps/test/inner.wasm"), &other).unwrap();
                    std::fs::write(dir.join("sub/mydeps/test/inner.wasm"), &other).unwrap();
                    std::fs::write(dir.join("sub/elsewhere/x.wasm"), &other).unwrap();
                }
                if scenario != "missing-file" {
                    std::fs::write(dir.join(src), text).unwrap();
                }
                let inner = wat::parse_str(INNER).unwrap();
                let mut overrides = HashMap::new();
                let deps_dir = match r["deps"].as_str().unwrap() {
                    "default-dir" => dir.join("deps"),
                    "deps-dir" => {
                        args.push("--deps-dir".into());
                        args.push("mydeps".into());
                        dir.join("mydeps")
                    }
                    _ => {
                        std::fs::create_dir_all(dir.join("elsewhere")).unwrap();
                        std::fs::write(dir.join("elsewhere/x.wasm"), &inner).unwrap();
                        args.push("--dep".into());
                        args.push("test:inner=elsewhere/x.wasm".into());
                        overrides.insert("test:inner".to_string(), dir.join("elsewhere/x.wasm"));
                        dir.join("deps")
                    }
                };
                if r["deps"] != "dep-override" {
                    std::fs::create_dir_all(deps_dir.join("test")).unwrap();
                    std::fs::write(deps_dir.join("test/inner.wasm"), &inner).unwrap();
                }
                if r["t"] == true {
                    args.push("-t".into());
                }
                if r["import_deps"] == true {
                    args.push("--import-dependencies".into());
                }
                if r["no_validate"] == true {
                    args.push("--no-validate".into());
                }
                if r["o"] == true {
                    args.push("-o".into());
                    args.push("out.bin".into());
                }
                args.push(src.into());
                if scenario != "missing-file" {
                    let lib = lib_compose(dir, text, &deps_dir, overrides, x["define"] == true, x["validate"] == true);
                    match (&lib, x["exit"].as_str().unwrap()) {
                        (Ok(b), "zero") => expected_out = Some(b.clone()),
                        (Err(_), "nonzero") => {}
                        (l, e) => note = format!("(harness) library pipeline gives {:?} but the table expects exit {e}", l.as_ref().map(|b| b.len())),
                    }
                }
            }
            "plug" => {
                let n = r["plugs"].as_u64().unwrap() as usize;
                let list: Vec<&str> = match (scenario, n) {
                    ("no-plug-happened", _) => vec!["g5"],
                    (_, 1) => vec!["g1"],
                    (_, 2) => vec!["g2", "g4"],
                    _ => vec!["g4", "g1", "g2"],
                };
                let socket = if scenario == "socket-not-a-component" {
                    wat::parse_str("(module)").unwrap()
                } else {
                    plug_bytes("s1")
                };
                std::fs::write(dir.join("socket.wasm"), &socket).unwrap();
                for p in &list {
                    if !(scenario == "missing-file" && *p == list[list.len() - 1]) {
                        std::fs::write(dir.join(format!("{p}.wasm")), plug_bytes(p)).unwrap();
                    }
                    args.push("--plug".into());
                    args.push(format!("{p}.wasm"));
                }
                if r["t"] == true {
                    args.push("-t".into());
                }
                if r["o"] == true {
                    args.push("-o".into());
                    args.push("out.bin".into());
                }
                args.push("socket.wasm".into());
                if scenario == "ok" {
                    // the library pipeline: plugs in command-line order
                    let mut g = CompositionGraph::new();
                    let s = wac_types::Package::from_bytes("socket", None, socket.clone(), g.types_mut()).unwrap();
                    let s = g.register_package(s).unwrap();
                    let mut ids = Vec::new();
                    for p in &list {
                        let pk = wac_types::Package::from_bytes(&format!("plug:{p}"), None, plug_bytes(p), g.types_mut()).unwrap();
                        ids.push(g.register_package(pk).unwrap());
                    }
                    wac_graph::plug(&mut g, ids, s).unwrap();
                    expected_out = Some(g.encode(EncodeOptions::default()).unwrap());
                    repeats = 4; // fresh processes: fresh hash seeds
                }
            }
            "parse" => {
                let text = if scenario == "parse-error" { compose_doc("parse-error") } else { compose_doc("ok") };
                if scenario != "missing-file" {
                    std::fs::write(dir.join("in.wac"), text).unwrap();
                }
                args.push("in.wac".into());
                if scenario == "ok" {
                    let doc = Document::parse(text).unwrap();
                    let mut s = serde_json::to_vec_pretty(&doc).unwrap();
                    s.push(b'\n');
                    expected_out = Some(s);
                }
            }
            _ => {
                // row.world: the package has a second world and --world selects `w`; otherwise the
                // package has the single world `w` and --world is omitted
                let many = r["world"] == true;
                let wit = if many {
                    "package test:t;\n\nworld w {\n  import f: func();\n  export g: func();\n}\n\nworld other {\n  export h: func();\n}\n"
                } else {
                    "package test:t;\n\nworld w {\n  import f: func();\n  export g: func();\n}\n"
                };
                std::fs::write(dir.join("w.wit"), wit).unwrap();
                let good = "(component (import \"f\" (func)) (core module $m (func (export \"g\"))) (core instance $i (instantiate $m)) (func $g (canon lift (core func $i \"g\"))) (export \"g\" (func $g)))";
                let bad = "(component (import \"f\" (func)))";
                if scenario != "missing-file" {
                    std::fs::write(dir.join("c.wasm"), wat::parse_str(if scenario == "mismatch" { bad } else { good }).unwrap()).unwrap();
                }
                args.push("c.wasm".into());
                if scenario == "positional-wit" {
                    // the form README.md documents: `wac targets my-component.wasm my-wit.wit`
                    args.push("w.wit".into());
                } else {
                    args.push("--wit".into());
                    args.push("w.wit".into());
                }
                if scenario == "unknown-world" {
                    args.push("--world".into());
                    args.push("missing".into());
                } else if many {
                    args.push("--world".into());
                    args.push("w".into());
                }
            }
        }
        for rep in 0..repeats {
            runs += 1;
            let _ = std::fs::remove_file(dir.join("out.bin"));
            let got = run(&wac, dir, &args);
            let mut bad = |what: String| {
                findings += 1;
                writeln!(so, "{}", json!({"class": "cli", "what": what, "row": r, "args": args, "repeat": rep,
                    "stderr": String::from_utf8_lossy(&got.stderr).chars().take(300).collect::<String>()})).unwrap();
            };
            if !note.is_empty() {
                bad(note.clone());
            }
            let zero = got.code == Some(0);
            if zero != (x["exit"] == "zero") {
                bad(format!("exit status {:?}, the table says {}", got.code, x["exit"]));
                continue;
            }
            if (x["stderr"] == true) && got.stderr.is_empty() {
                bad("the command failed without printing a diagnostic".into());
            }
            let file = std::fs::read(dir.join("out.bin")).ok();
            if file.is_some() != (x["file"] == true) {
                bad(format!("output file present: {}, the table says {}", file.is_some(), x["file"]));
            }
            let to_text = |b: &Vec<u8>| -> Vec<u8> {
                let mut t = wasmprinter::print_bytes(b).unwrap().into_bytes();
                t.push(b'\n');
                t
            };
            let want_stream: Option<Vec<u8>> = expected_out.as_ref().map(|b| if r["t"] == true { to_text(b) } else { b.clone() });
            match x["stdout"].as_str().unwrap() {
                "empty" => {
                    if !got.stdout.is_empty() {
                        bad(format!("{} bytes on stdout, the table says none", got.stdout.len()));
                    }
                }
                kind => {
                    if let Some(w) = &want_stream {
                        if &got.stdout != w {
                            bad(format!("stdout ({kind}, {} bytes) differs from the library pipeline's output ({} bytes)", got.stdout.len(), w.len()));
                        }
                    }
                    if kind == "text" {
                        match guarded(|| wat::parse_bytes(&got.stdout).map(|b| b.to_vec())) {
                            Ok(Ok(b)) => {
                                if let Err(e) = validate(&b) {
                                    bad(format!("the -t output assembles to an invalid component: {e}"));
                                }
                            }
                            _ => bad("the -t output does not assemble".into()),
                        }
                    }
                }
            }
            if let (Some(f), Some(w)) = (&file, &want_stream) {
                // -o writes exactly the bytes otherwise sent to stdout (without the newline of the text form)
                let w2: &[u8] = if r["t"] == true { &w[..w.len() - 1] } else { &w[..] };
                if f != w2 && f != w {
                    bad(format!("the -o file ({} bytes) differs from what the library pipeline produces ({} bytes)", f.len(), w.len()));
                }
            }
            // the options that reached the encoder
            let enc: Vec<&Value> = got.events.iter().filter(|e| e["a"] == "encode" && e["ph"] == "call").collect();
            if x["encodes"] == true {
                match enc.first() {
                    None => bad("the encoder was never called".into()),
                    Some(e) => {
                        if e["define_components"] != x["define"] || e["validate"] != x["validate"] {
                            bad(format!(
                                "encode was called with define_components={} validate={}, the flags require {} / {}",
                                e["define_components"], e["validate"], x["define"], x["validate"]
                            ));
                        }
                    }
                }
            } else if !enc.is_empty() && cmd != "plug" {
                bad("the encoder was called although an earlier stage must have failed".into());
            }
        }
    }
    writeln!(so, "{}", json!({"summary": true, "rows": rows, "runs": runs, "findings": findings})).unwrap();
}
