//! rescheck: C07, resource clause.  Replays every (provider, consumer) pair of spec/ResSub.tla
//! (REPLAY lines on stdin) into CompositionGraph: both components are realised from WAT, the
//! provider is instantiated, every import of the consumer the provider has an export for is
//! supplied with that export (set_instantiation_argument = one SubtypeChecker verdict), and -- when
//! all of them were accepted -- the composition is encoded and validated by wasmparser.
//!   res_verdict   the checker's verdict for one argument differs from the Impl layer of the spec
//!   res_invalid   every matching export was accepted and the composition is invalid (the clause)
//!   res_ref       the reference layer of the spec says invalid but the composition validates
//!                 (a defect of the specification: reported as a tool error by the runner)
use serde_json::{json, Value};
use std::collections::HashMap;
use std::io::{BufRead, Write};
use wac_graph::{CompositionGraph, EncodeOptions};
use wac_types::Package;
use wac_verif_harness::util::{guarded, quiet_panics, tlc_line, validate};

fn arg(name: &str, default: &str) -> String {
    let args: Vec<String> = std::env::args().collect();
    args.iter().position(|a| a == name).and_then(|i| args.get(i + 1).cloned()).unwrap_or_else(|| default.to_string())
}

struct Side {
    provider: Vec<u8>,
    consumer: Vec<u8>,
    imports: Vec<String>,
}

fn main() {
    quiet_panics();
    let data: Value = serde_json::from_str(&std::fs::read_to_string(format!("{}/res.json", arg("--data", "data"))).unwrap()).unwrap();
    let mut sides: HashMap<u64, Side> = HashMap::new();
    for s in data["sides"].as_array().unwrap() {
        let mut bytes = Vec::new();
        for role in ["provider", "consumer"] {
            let wat = s[role].as_str().unwrap();
            let b = match wat::parse_str(wat) {
                Ok(b) => b,
                Err(e) => {
                    eprintln!("side {} ({role}) cannot be realised: {e}\n{wat}", s["id"]);
                    std::process::exit(2);
                }
            };
            if let Err(e) = validate(&b) {
                eprintln!("side {} ({role}) is not a valid component: {e}\n{wat}", s["id"]);
                std::process::exit(2);
            }
            bytes.push(b);
        }
        let consumer = bytes.pop().unwrap();
        let provider = bytes.pop().unwrap();
        sides.insert(
            s["id"].as_u64().unwrap(),
            Side { provider, consumer, imports: s["imports"].as_array().unwrap().iter().map(|x| x.as_str().unwrap().to_string()).collect() },
        );
    }
    if std::env::args().any(|a| a == "--probe") {
        println!("{} sides realised and valid", sides.len());
        return;
    }
    let so = std::io::stdout();
    let mut so = so.lock();
    let (mut pairs, mut args_checked, mut accepted_all, mut validated, mut findings) = (0usize, 0usize, 0usize, 0usize, 0usize);
    let mut per_class: HashMap<String, usize> = HashMap::new();
    for line in std::io::stdin().lock().lines() {
        let Some(js) = tlc_line(&line.unwrap(), "REPLAY") else { continue };
        let v: Value = serde_json::from_str(&js).unwrap();
        let (p, c) = (v["p"].as_u64().unwrap(), v["c"].as_u64().unwrap());
        let kf = v["kf"].as_str().unwrap_or("").to_string();
        let want_valid = v["valid"] == true;
        pairs += 1;
        let mut emit = |so: &mut std::io::StdoutLock, class: &str, what: String| {
            findings += 1;
            let n = per_class.entry(format!("{class}/{kf}")).or_default();
            *n += 1;
            if *n <= 25 {
                writeln!(so, "{}", json!({"class": class, "what": what, "kf": kf, "p": p, "c": c})).unwrap();
            }
        };
        let mut g = CompositionGraph::new();
        let prov = Package::from_bytes("t:prov", None, sides[&p].provider.clone(), g.types_mut()).expect("provider decodes");
        let cons = Package::from_bytes("t:cons", None, sides[&c].consumer.clone(), g.types_mut()).expect("consumer decodes");
        let prov = g.register_package(prov).unwrap();
        let cons = g.register_package(cons).unwrap();
        let pi = g.instantiate(prov);
        let ci = g.instantiate(cons);
        let mut all = true;
        let mut matched = 0usize;
        for name in &sides[&c].imports {
            if !sides[&p].imports.contains(name) {
                continue;
            }
            matched += 1;
            args_checked += 1;
            let src = match g.alias_instance_export(pi, name) {
                Ok(s) => s,
                Err(e) => {
                    emit(&mut so, "res_verdict", format!("the provider's export `{name}` cannot be aliased: {e}"));
                    all = false;
                    continue;
                }
            };
            let got = match guarded(|| g.set_instantiation_argument(ci, name, src)) {
                Err(pn) => {
                    emit(&mut so, "res_panic", format!("set_instantiation_argument({name}) panicked: {pn}"));
                    all = false;
                    continue;
                }
                Ok(r) => r.map_err(|e| format!("{e}")),
            };
            let want = v["verdicts"][name.as_str()] == true;
            if got.is_ok() != want {
                emit(&mut so, "res_verdict", format!("argument `{name}`: the checker {} it ({}), the model of the checker says {}",
                    if got.is_ok() { "accepts" } else { "rejects" }, got.clone().err().unwrap_or_default(), if want { "accepted" } else { "rejected" }));
            }
            all &= got.is_ok();
        }
        if matched == 0 || !all {
            continue;
        }
        accepted_all += 1;
        match guarded(|| g.encode(EncodeOptions { define_components: true, validate: false, processor: None })) {
            Err(pn) => emit(&mut so, "res_panic", format!("encode panicked after every argument was accepted: {pn}")),
            Ok(Err(e)) => emit(&mut so, "res_invalid", format!("every matching export was accepted but the composition does not encode: {e:#}")),
            Ok(Ok(bytes)) => {
                validated += 1;
                match (validate(&bytes), want_valid) {
                    (Ok(()), true) => {}
                    (Err(e), _) => emit(&mut so, "res_invalid", format!("every matching export was accepted but the composition is invalid: {e}")),
                    (Ok(()), false) => emit(&mut so, "res_ref", "the reference layer says the instantiation is invalid, the validator accepts it".into()),
                }
            }
        }
    }
    writeln!(so, "{}", json!({"summary": true, "pairs": pairs, "args": args_checked, "accepted_all": accepted_all,
        "validated": validated, "findings": findings})).unwrap();
}
