//! tgtcheck: C11.  For every well-formed program of spec/Targets.tla (REPLAY lines on stdin) and
//! every target world: (a) Document::resolve of the program with a `targets` clause must succeed
//! exactly when the specification says the composition conforms, and fail with a diagnostic of a
//! violation that is present; (b) wac_types::validate_target on (world, encoded output) must
//! report exactly the specification's violation sets; (c) wasmparser's component subtyping
//! `output <: world` must equal conformance under exact name matching.
use indexmap::IndexMap;
use serde_json::{json, Value};
use std::collections::{BTreeSet, HashMap};
use std::io::{BufRead, Write};
use wac_graph::EncodeOptions;
use wac_parser::Document;
use wac_types::{validate_target, BorrowedPackageKey, ItemKind, Package, Types, WorldId};
use wac_verif_harness::glib::Lib;
use wac_verif_harness::util::{guarded, quiet_panics, tlc_line};
use wasmparser::component_types::{ComponentAnyTypeId, ComponentEntityType};

fn arg(name: &str, default: &str) -> String {
    let args: Vec<String> = std::env::args().collect();
    args.iter().position(|a| a == name).and_then(|i| args.get(i + 1).cloned()).unwrap_or_else(|| default.to_string())
}

fn variant<E: std::fmt::Debug>(e: &E) -> String {
    let d = format!("{e:?}");
    d.split(|c: char| !c.is_alphanumeric()).next().unwrap_or("").to_string()
}

fn set_of(v: &Value) -> BTreeSet<String> {
    v.as_array().map(|a| a.iter().map(|x| x.as_str().unwrap().to_string()).collect()).unwrap_or_default()
}

/// the world's component type inside an encoded WIT package (as `wac targets` finds it)
fn wit_world(types: &Types, top: WorldId, world: &str) -> Result<WorldId, String> {
    let w = types[top].exports.get(world).ok_or("no such world")?;
    let ItemKind::Type(wac_types::Type::World(id)) = w else { return Err("not a world".into()) };
    match types[*id].exports.values().next() {
        Some(ItemKind::Component(w)) => Ok(*w),
        _ => Err("wit package was not encoded properly".into()),
    }
}

/// the output wrapped so that its own component type becomes the type of an export
/// (the reference validator compares types of one validation only: both go into one component)
fn wrap(output: &[u8], wit: &[u8]) -> Vec<u8> {
    let mut c = wasm_encoder::Component::new();
    c.section(&wasm_encoder::RawSection { id: wasm_encoder::ComponentSectionId::Component.into(), data: output });
    c.section(&wasm_encoder::RawSection { id: wasm_encoder::ComponentSectionId::Component.into(), data: wit });
    let mut ex = wasm_encoder::ComponentExportSection::new();
    ex.export("c", wasm_encoder::ComponentExportKind::Component, 0, None);
    ex.export("w", wasm_encoder::ComponentExportKind::Component, 1, None);
    c.section(&ex);
    c.finish()
}

fn reference_subtype(output: &[u8], wit: &[u8], world: &str) -> Result<bool, String> {
    let features = wasmparser::WasmFeatures::all();
    let t = wasmparser::Validator::new_with_features(features).validate_all(&wrap(output, wit)).map_err(|e| format!("wrapper: {e}"))?;
    let tr = t.as_ref();
    let out_ty = tr.component_entity_type_of_export("c").ok_or("no export c")?;
    let ComponentEntityType::Component(wit_ty) = tr.component_entity_type_of_export("w").ok_or("no export w")? else {
        return Err("wit package is not a component".into());
    };
    let Some(ComponentEntityType::Type { referenced: ComponentAnyTypeId::Component(outer), .. }) = tr[wit_ty].exports.get(world).copied() else {
        return Err("world export is not a component type".into());
    };
    let world_ty = *tr[outer].exports.values().next().ok_or("empty world wrapper")?;
    Ok(ComponentEntityType::is_subtype_of(&out_ty, tr, &world_ty, tr))
}

fn main() {
    if std::env::var_os("VERIF_LOUD").is_none() {
        quiet_panics();
    }
    let data = arg("--data", "data");
    let lib = Lib::load(&data, "wac").expect("library");
    let pool: Value = serde_json::from_str(&std::fs::read_to_string(format!("{data}/wacpool.json")).unwrap()).unwrap();
    let stmts: Vec<String> = pool["statements"].as_array().unwrap().iter().map(|s| s.as_str().unwrap().to_string()).collect();
    let comp_pkg = pool["package"].as_str().unwrap().to_string();
    let mut pkg_bytes: Vec<(String, Option<semver::Version>, Vec<u8>)> = lib.pkgs.values().map(|p| (p.name.clone(), None, p.bytes.clone())).collect();
    let mut wit_bytes: HashMap<String, Vec<u8>> = HashMap::new();
    for (name, p) in pool["wit_packages"].as_object().unwrap() {
        let mut resolve = wit_parser::Resolve::new();
        let id = resolve.push_str(format!("{name}.wit"), p["text"].as_str().unwrap()).expect("wit package parses");
        let bytes = wit_component::encode(&resolve, id).expect("wit package encodes");
        wit_bytes.insert(name.clone(), bytes.clone());
        pkg_bytes.push((name.clone(), p["version"].as_str().map(|v| semver::Version::parse(v).unwrap()), bytes));
    }
    let worlds = pool["worlds"].as_object().unwrap().clone();
    let so = std::io::stdout();
    let mut so = so.lock();
    let mut per_class: HashMap<String, usize> = HashMap::new();
    let (mut programs, mut pairs, mut conforming, mut standalone, mut reference, mut findings) = (0usize, 0usize, 0usize, 0usize, 0usize, 0usize);
    for line in std::io::stdin().lock().lines() {
        let Some(js) = tlc_line(&line.unwrap(), "REPLAY") else { continue };
        let v: Value = serde_json::from_str(&js).unwrap();
        let prog: Vec<usize> = v["prog"].as_array().unwrap().iter().map(|x| x.as_u64().unwrap() as usize).collect();
        programs += 1;
        let body = prog.iter().map(|i| stmts[*i - 1].as_str()).collect::<Vec<_>>().join("\n") + "\n";
        let packages = || {
            let mut m: IndexMap<BorrowedPackageKey, Vec<u8>> = IndexMap::new();
            for (name, version, bytes) in &pkg_bytes {
                m.insert(BorrowedPackageKey::from_name_and_version(name, version.as_ref()), bytes.clone());
            }
            m
        };
        // the output of the composition without a target
        let plain = format!("package {comp_pkg};\n{body}");
        let output: Option<Vec<u8>> = (|| {
            let doc = Document::parse(&plain).ok()?;
            let res = guarded(|| doc.resolve(packages())).ok()?.ok()?;
            guarded(|| res.encode(EncodeOptions { define_components: true, validate: true, processor: None })).ok()?.ok()
        })();
        for (wid, winfo) in &worlds {
            pairs += 1;
            let want = &v["worlds"][wid.as_str()];
            let text = format!("package {comp_pkg} targets {};\n{body}", winfo["path"].as_str().unwrap());
            let mut emit = |so: &mut std::io::StdoutLock, class: &str, kf: &str, what: String| {
                findings += 1;
                let n = per_class.entry(format!("{class}/{kf}")).or_default();
                *n += 1;
                if *n <= 40 {
                    writeln!(so, "{}", json!({"class": class, "kf": kf, "what": what, "world": wid, "prog": prog, "text": text})).unwrap();
                }
            };
            // ---- (a) resolution with the targets clause
            let doc = match Document::parse(&text) {
                Ok(d) => d,
                Err(e) => {
                    emit(&mut so, "parse", "", format!("the document does not parse: {e}"));
                    continue;
                }
            };
            let got: Result<(), String> = match guarded(|| doc.resolve(packages())) {
                Err(p) => {
                    emit(&mut so, "panic", "", format!("Document::resolve panicked: {p}"));
                    continue;
                }
                Ok(Ok(_)) => Ok(()),
                Ok(Err(e)) => Err(variant(&e)),
            };
            let check = |reading: &Value| -> Option<String> {
                let conforms = reading["conforms"] == true;
                let diags = set_of(&reading["diagnostics"]);
                match &got {
                    Ok(()) if !conforms => Some(format!("the document resolves although the composition does not conform: {}", reading)),
                    Err(e) if conforms => Some(format!("resolution fails with {e} although the composition conforms")),
                    Err(e) if !diags.contains(e) => Some(format!("resolution fails with {e}; the violations present give {diags:?}")),
                    _ => None,
                }
            };
            if want["resolve"]["conforms"] == true {
                conforming += 1;
            }
            if let Some(bad) = check(&want["resolve"]) {
                // does the verdict follow the reading without semver track matching?
                let kf = if check(&want["exact"]).is_none() { "exact-name-matching" } else { "" };
                emit(&mut so, "target_resolve", kf, bad);
            }
            // ---- (b), (c) the encoded output against the world
            let Some(bytes) = &output else { continue };
            let wit = &wit_bytes[winfo["package"].as_str().unwrap()];
            let wname = winfo["world"].as_str().unwrap();
            let r = guarded(|| -> Result<(BTreeSet<String>, BTreeSet<String>, BTreeSet<String>), String> {
                let mut types = Types::default();
                let wp = Package::from_bytes("wit", None, wit.clone(), &mut types).map_err(|e| format!("{e:#}"))?;
                let cp = Package::from_bytes("component", None, bytes.clone(), &mut types).map_err(|e| format!("{e:#}"))?;
                let w = wit_world(&types, wp.ty(), wname)?;
                Ok(match validate_target(&types, w, cp.ty()) {
                    Ok(()) => Default::default(),
                    Err(rep) => (
                        rep.imports_not_in_target().map(|s| s.to_string()).collect(),
                        rep.missing_exports().map(|(s, _)| s.to_string()).collect(),
                        rep.mismatched_types().map(|(s, _, _)| s.to_string()).collect(),
                    ),
                })
            });
            match r {
                Err(p) => emit(&mut so, "panic", "", format!("validate_target panicked: {p}")),
                Ok(Err(e)) => emit(&mut so, "target_standalone", "", format!("the stand-alone check cannot run: {e}")),
                Ok(Ok((nit, missing, mism))) => {
                    standalone += 1;
                    let o = &want["output"];
                    let want_mism: BTreeSet<String> = set_of(&o["importMismatch"]).union(&set_of(&o["exportMismatch"])).cloned().collect();
                    if nit != set_of(&o["notInTarget"]) || missing != set_of(&o["missing"]) || mism != want_mism {
                        emit(&mut so, "target_standalone", "", format!(
                            "validate_target reports not-in-target {nit:?}, missing {missing:?}, mismatched {mism:?}; the specification gives {:?}, {:?}, {want_mism:?}",
                            set_of(&o["notInTarget"]), set_of(&o["missing"])));
                    }
                }
            }
            match reference_subtype(bytes, wit, wname) {
                Err(e) => emit(&mut so, "target_reference", "", format!("the reference comparison cannot run: {e}")),
                Ok(sub) => {
                    reference += 1;
                    if sub != (want["outputExact"]["conforms"] == true) {
                        emit(&mut so, "target_reference", "", format!("wasmparser says output <: world is {sub}; the specification (exact names) says {}", want["outputExact"]["conforms"]));
                    }
                }
            }
        }
    }
    writeln!(so, "{}", json!({"summary": true, "programs": programs, "pairs": pairs, "conforming_pairs": conforming,
        "standalone_checks": standalone, "reference_checks": reference, "findings": findings})).unwrap();
}
