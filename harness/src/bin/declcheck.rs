//! declcheck: C05 and C08 over the declaration universe (lib/universe_decl.py), with the
//! elaboration of spec/Decl.tla (DECL lines on stdin) as the third leg.
//!
//! --prop C05: every package text is (a) encoded by the reference WIT toolchain and (b) parsed,
//!   resolved and encoded as a WAC document.  Both encodings are nested in one component and read
//!   with the reference validator: for every interface the specification's elaboration, the
//!   reference encoding and wac's encoding must have the same canonical description, and the two
//!   encodings must be mutual subtypes; for every world the explicit imports and exports must have
//!   the same descriptions and wac's world must be a subtype of the reference's.
//!   A disagreement between the specification and the reference is a tool error (exit 3).
//! --prop C08: every world is turned into a real component (dummy module + ComponentEncoder);
//!   Package::from_bytes must list its imports and exports in order with the kinds the reference
//!   validator sees, the instance type must equal the exports, two independent decodes must be
//!   mutual subtypes, and the component type written for it when it is imported as a dependency
//!   must be one the component itself satisfies.
use indexmap::IndexMap;
use serde_json::{json, Value};
use std::collections::{BTreeSet, HashMap, HashSet};
use std::io::{BufRead, Write};
use wac_graph::{CompositionGraph, EncodeOptions};
use wac_parser::Document;
use wac_types::{ItemKind, Package, SubtypeChecker, Types};
use wac_verif_harness::canon::{ref_entity, spec_entity, wac_entity, Num};
use wac_verif_harness::decode::unlocked_dep_name;
use wac_verif_harness::util::{guarded, quiet_panics, tlc_line, validate};
use wasmparser::component_types::{ComponentAnyTypeId, ComponentEntityType};
use wasmparser::types::TypesRef;

fn arg(name: &str, default: &str) -> String {
    let args: Vec<String> = std::env::args().collect();
    args.iter().position(|a| a == name).and_then(|i| args.get(i + 1).cloned()).unwrap_or_else(|| default.to_string())
}

/// several components nested in one, exported as c0, c1, ..: their types share one validation
fn wrap(parts: &[&[u8]]) -> Vec<u8> {
    let mut c = wasm_encoder::Component::new();
    for p in parts {
        c.section(&wasm_encoder::RawSection { id: wasm_encoder::ComponentSectionId::Component.into(), data: p });
    }
    let mut ex = wasm_encoder::ComponentExportSection::new();
    for i in 0..parts.len() {
        ex.export(&format!("c{i}"), wasm_encoder::ComponentExportKind::Component, i as u32, None);
    }
    c.section(&ex);
    c.finish()
}

fn comp_of(tr: &TypesRef, export: &str) -> Result<wasmparser::component_types::ComponentTypeId, String> {
    match tr.component_entity_type_of_export(export) {
        Some(ComponentEntityType::Component(id)) => Ok(id),
        _ => Err(format!("no component export {export}")),
    }
}

/// the component type a WIT-style encoding exports under `name`, and its single inner export
fn declared(tr: &TypesRef, outer: wasmparser::component_types::ComponentTypeId, name: &str) -> Result<(ComponentEntityType, ComponentEntityType), String> {
    match tr[outer].exports.get(name) {
        Some(ComponentEntityType::Type { referenced: ComponentAnyTypeId::Component(id), .. }) => {
            let inner = tr[*id].exports.values().next().copied().ok_or("empty declaration")?;
            Ok((ComponentEntityType::Component(*id), inner))
        }
        other => Err(format!("`{name}` is exported as {other:?}")),
    }
}

/// a world description restricted to the given import names (dependency imports are not explicit)
fn restrict(desc: &Value, keep: &BTreeSet<String>) -> Value {
    let mut d = desc.clone();
    if let Some(im) = d["im"].as_object_mut() {
        im.retain(|k, _| keep.contains(k));
    }
    d
}

fn world_desc(tr: &TypesRef, ty: &ComponentEntityType, keep: &BTreeSet<String>) -> Value {
    // numbering must not depend on the dependency imports: describe a filtered copy
    let ComponentEntityType::Component(id) = ty else { return json!({"c": "?"}) };
    let mut num = Num::default();
    let mut im = serde_json::Map::new();
    let mut names: Vec<&String> = tr[*id].imports.keys().filter(|k| keep.contains(*k)).collect();
    names.sort();
    for n in names {
        im.insert(n.clone(), ref_entity(tr, &tr[*id].imports[n], &mut num));
    }
    let mut ex = serde_json::Map::new();
    let mut names: Vec<&String> = tr[*id].exports.keys().collect();
    names.sort();
    for n in names {
        ex.insert(n.clone(), ref_entity(tr, &tr[*id].exports[n], &mut num));
    }
    json!({"c": "comp", "im": im, "ex": ex})
}

/// One component: Package::from_bytes against the reference validator's view of the same bytes.
/// Returns (findings, dependency-type checks).
fn check_component(mut so: &mut std::io::StdoutLock, comp: &[u8], sw: Option<&Value>, label: &Value) -> (usize, usize) {
    let (mut findings, mut dep_checks) = (0usize, 0usize);
    let comp = comp.to_vec();
    {
            let mut emit = |so: &mut std::io::StdoutLock, class: &str, what: String| {
                findings += 1;
                let mut v = label.clone();
                v["class"] = json!(class);
                v["what"] = json!(what);
                writeln!(so, "{v}").unwrap();
            };
            // the reference validator's view: order from the sections, types from the validation
            let (mut r_imports, mut r_exports) = (Vec::new(), Vec::new());
            let mut depth = 0;
            for payload in wasmparser::Parser::new(0).parse_all(&comp) {
                match payload.unwrap() {
                    wasmparser::Payload::Version { .. } => depth += 1,
                    wasmparser::Payload::End(_) => depth -= 1,
                    wasmparser::Payload::ComponentImportSection(r) if depth == 1 => {
                        for i in r {
                            r_imports.push(i.unwrap().name.0.to_string());
                        }
                    }
                    wasmparser::Payload::ComponentExportSection(r) if depth == 1 => {
                        for e in r {
                            r_exports.push(e.unwrap().name.0.to_string());
                        }
                    }
                    _ => {}
                }
            }
            let t = wasmparser::Validator::new_with_features(wasmparser::WasmFeatures::all()).validate_all(&wrap(&[&comp])).expect("valid component");
            let tr = t.as_ref();
            let r_desc = ref_entity(&tr, &ComponentEntityType::Component(comp_of(&tr, "c0").unwrap()), &mut Num::default());
            // wac
            let mut types = Types::default();
            let pk = match guarded(|| Package::from_bytes("t:c", None, comp.clone(), &mut types)) {
                Err(pn) => {
                    emit(&mut so, "decode_panic", format!("Package::from_bytes panicked: {pn}"));
                    return (findings, dep_checks);
                }
                Ok(Err(e)) => {
                    emit(&mut so, "decode_reject", format!("a valid component is not accepted as a package: {e:#}"));
                    return (findings, dep_checks);
                }
                Ok(Ok(p)) => p,
            };
            let w = &types[pk.ty()];
            let (w_imports, w_exports): (Vec<String>, Vec<String>) = (w.imports.keys().cloned().collect(), w.exports.keys().cloned().collect());
            if w_imports != r_imports || w_exports != r_exports {
                emit(&mut so, "decode_names", format!("the package lists imports {w_imports:?} exports {w_exports:?}; the component has {r_imports:?} / {r_exports:?}"));
            }
            let w_desc = wac_entity(&types, ItemKind::Component(pk.ty()), &mut Num::default());
            if w_desc != r_desc {
                emit(&mut so, "decode_kinds", format!("the package's world is {w_desc}; the component's type is {r_desc}"));
            }
            // the explicit items of the declaration are there
            for (side, have) in [("im", &w_imports), ("ex", &w_exports)] {
                if let Some(m) = sw.and_then(|s| s[side].as_object()) {
                    for n in m.keys() {
                        if !have.contains(n) {
                            emit(&mut so, "decode_names", format!("the declared {side}port `{n}` is not listed by the package"));
                        }
                    }
                }
            }
            // the instance type equals the exports
            let inst = wac_entity(&types, ItemKind::Instance(pk.instance_type()), &mut Num::default());
            let mut only_ex = wac_entity(&types, ItemKind::Component(pk.ty()), &mut Num::default());
            // (numbering of the world starts at its imports: compare export names and shapes without numbers)
            let strip = |v: &Value| -> String { v.to_string().chars().filter(|c| !c.is_ascii_digit()).collect() };
            if let Some(o) = only_ex.as_object_mut() {
                o.remove("im");
            }
            if strip(&inst["ex"]) != strip(&only_ex["ex"]) {
                emit(&mut so, "decode_instance", format!("the instance type {} differs from the exports {}", inst["ex"], only_ex["ex"]));
            }
            // two independent decodes are mutual subtypes
            let mut types2 = Types::default();
            let pk2 = Package::from_bytes("t:c", None, comp.clone(), &mut types2).unwrap();
            for (a, at, b, bt, dir) in [(pk.ty(), &types, pk2.ty(), &types2, "first <: second"), (pk2.ty(), &types2, pk.ty(), &types, "second <: first")] {
                let mut cache = HashSet::new();
                if let Err(e) = SubtypeChecker::new(&mut cache).is_subtype(ItemKind::Component(a), at, ItemKind::Component(b), bt) {
                    emit(&mut so, "decode_reflexive", format!("two decodes of one component: {dir} fails: {e:#}"));
                }
            }
            // imported as a dependency: the type written for it is one the component satisfies
            let mut g = CompositionGraph::new();
            let pkg3 = Package::from_bytes("t:c", None, comp.clone(), g.types_mut()).unwrap();
            let pid = g.register_package(pkg3).unwrap();
            g.instantiate(pid);
            match guarded(|| g.encode(EncodeOptions { define_components: false, validate: false, processor: None })) {
                Err(pn) => emit(&mut so, "dep_panic", format!("encode(define_components=false) panicked: {pn}")),
                Ok(Err(e)) => emit(&mut so, "dep_encode", format!("encode(define_components=false) fails: {e}")),
                Ok(Ok(out)) => {
                    dep_checks += 1;
                    if let Err(e) = validate(&out) {
                        emit(&mut so, "dep_invalid", format!("the composition importing the package is invalid: {e}"));
                    } else {
                        let t = wasmparser::Validator::new_with_features(wasmparser::WasmFeatures::all()).validate_all(&wrap(&[&out, &comp])).expect("wrapper");
                        let tr = t.as_ref();
                        let out_ct = comp_of(&tr, "c0").unwrap();
                        let actual = ComponentEntityType::Component(comp_of(&tr, "c1").unwrap());
                        let dep = unlocked_dep_name("t:c", None);
                        match tr[out_ct].imports.get(&dep) {
                            None => emit(&mut so, "dep_type", format!("the composition has no import `{dep}`: {:?}", tr[out_ct].imports.keys().collect::<Vec<_>>())),
                            Some(want) => {
                                if !ComponentEntityType::is_subtype_of(&actual, tr, want, tr) {
                                    let mut n = Num::default();
                                    emit(&mut so, "dep_type", format!("the component does not satisfy the type written for its import: {}", ref_entity(&tr, want, &mut n)));
                                }
                            }
                        }
                    }
                }
            }
            // C01: a graph that only registers and instantiates this component was assembled from
            // accepted operations: it encodes, under every combination of options, to a valid component
            for (dc, va) in [(true, true), (true, false), (false, true), (false, false)] {
                match guarded(|| g.encode(EncodeOptions { define_components: dc, validate: va, processor: None })) {
                    Err(pn) => emit(&mut so, "c01_panic", format!("encode(define_components={dc}, validate={va}) panicked: {pn}")),
                    Ok(Err(e)) => emit(&mut so, "c01_encode", format!("encode(define_components={dc}, validate={va}) of an accepted graph fails: {e}")),
                    Ok(Ok(out)) => {
                        if let Err(e) = validate(&out) {
                            emit(&mut so, "c01_invalid", format!("encode(define_components={dc}, validate={va}) returned Ok but the reference validator rejects the bytes: {e}"));
                        } else if dc && va {
                            // C03: nothing is wired, so the composition imports exactly what the component
                            // imports, at the same types (resources compared by identity), and exports nothing
                            let t = wasmparser::Validator::new_with_features(wasmparser::WasmFeatures::all()).validate_all(&wrap(&[&out, &comp])).expect("wrapper");
                            let tr = t.as_ref();
                            let mut o = ref_entity(&tr, &ComponentEntityType::Component(comp_of(&tr, "c0").unwrap()), &mut Num::default());
                            let mut c = ref_entity(&tr, &ComponentEntityType::Component(comp_of(&tr, "c1").unwrap()), &mut Num::default());
                            if o["ex"].as_object().map(|m| !m.is_empty()).unwrap_or(false) {
                                emit(&mut so, "c03_exports", format!("a composition without exports exports {}", o["ex"]));
                            }
                            // (numbering of resources starts with the imports on both sides)
                            let (oi, ci) = (o["im"].take(), c["im"].take());
                            // (two import names of the component on one semver track share one import of
                            // the composition: that case belongs to the graph models, not to this comparison)
                            let track = |n: &str| -> Option<String> {
                                let (base, v) = n.rsplit_once('@')?;
                                let v = semver::Version::parse(v).ok()?;
                                if !v.pre.is_empty() {
                                    None
                                } else if v.major > 0 {
                                    Some(format!("{base}@{}", v.major))
                                } else if v.minor > 0 {
                                    Some(format!("{base}@0.{}", v.minor))
                                } else {
                                    None
                                }
                            };
                            let tracks: Vec<String> = ci.as_object().map(|m| m.keys().filter_map(|k| track(k)).collect()).unwrap_or_default();
                            let shared = tracks.iter().collect::<std::collections::BTreeSet<_>>().len() != tracks.len();
                            if oi != ci && !shared {
                                emit(&mut so, "c03_imports", format!("the composition imports {oi}; the instantiated component needs {ci}"));
                            }
                        }
                    }
                }
            }
    }
    (findings, dep_checks)
}

fn main() {
    if std::env::var_os("VERIF_LOUD").is_none() {
        quiet_panics();
    }
    let prop = arg("--prop", "C05");
    let data: Vec<Value> = serde_json::from_str(&std::fs::read_to_string(format!("{}/decl.json", arg("--data", "data"))).unwrap()).unwrap();
    let mut spec: HashMap<u64, Value> = HashMap::new();
    for line in std::io::stdin().lock().lines() {
        if let Some(js) = tlc_line(&line.unwrap(), "DECL") {
            let v: Value = serde_json::from_str(&js).unwrap();
            spec.insert(v["id"].as_u64().unwrap(), v);
        }
    }
    if spec.len() != data.len() {
        eprintln!("DECL lines: {}, packages: {}", spec.len(), data.len());
        std::process::exit(2);
    }
    let so = std::io::stdout();
    let mut so = so.lock();
    let mut findings = 0usize;
    let mut spec_vs_ref = 0usize;
    let (mut packages, mut interfaces, mut worlds, mut components, mut dep_checks) = (0usize, 0usize, 0usize, 0usize, 0usize);
    for p in &data {
        let id = p["id"].as_u64().unwrap();
        let sp = &spec[&id];
        packages += 1;
        let wit = p["wit"].as_str().unwrap();
        let mut emit = |so: &mut std::io::StdoutLock, class: &str, what: String| {
            findings += 1;
            writeln!(so, "{}", json!({"class": class, "what": what, "package": id, "text": p["wac"]})).unwrap();
        };
        // ---- the reference toolchain
        let mut resolve = wit_parser::Resolve::new();
        let pkg = match resolve.push_str(format!("p{id}.wit"), wit) {
            Ok(x) => x,
            Err(e) => {
                eprintln!("package {id} is not WIT: {e:#}\n{wit}");
                std::process::exit(2);
            }
        };
        let ref_bytes = wit_component::encode(&resolve, pkg).expect("reference encoding");
        if prop == "C05" {
            // ---- wac
            let text = p["wac"].as_str().unwrap();
            let wac_bytes = match guarded(|| -> Result<Vec<u8>, String> {
                let doc = Document::parse(text).map_err(|e| format!("parse: {e}"))?;
                let res = doc.resolve(IndexMap::new()).map_err(|e| format!("resolve: {e}"))?;
                res.encode(EncodeOptions { define_components: true, validate: true, processor: None }).map_err(|e| format!("encode: {e}"))
            }) {
                Err(pn) => {
                    emit(&mut so, "decl_panic", format!("the front end panicked: {pn}"));
                    continue;
                }
                Ok(Err(e)) => {
                    emit(&mut so, "decl_reject", format!("a WIT package is not accepted as a WAC document: {e}"));
                    continue;
                }
                Ok(Ok(b)) => b,
            };
            let t = match wasmparser::Validator::new_with_features(wasmparser::WasmFeatures::all()).validate_all(&wrap(&[&ref_bytes, &wac_bytes])) {
                Ok(t) => t,
                Err(e) => {
                    emit(&mut so, "decl_invalid", format!("the encoded document is not a valid component: {e}"));
                    continue;
                }
            };
            let tr = t.as_ref();
            let (rc, wc) = (comp_of(&tr, "c0").unwrap(), comp_of(&tr, "c1").unwrap());
            for iname in p["interfaces"].as_array().unwrap() {
                let iname = iname.as_str().unwrap();
                interfaces += 1;
                let want = spec_entity(&sp["ifaces"][iname]["kind"], &mut Num::default());
                let (r_ct, r_inner) = declared(&tr, rc, iname).expect("reference declares the interface");
                let r_desc = ref_entity(&tr, &r_inner, &mut Num::default());
                if r_desc != want {
                    spec_vs_ref += 1;
                    eprintln!("SPEC-VS-REFERENCE package {id} interface {iname}:\n  spec {want}\n  ref  {r_desc}");
                    continue;
                }
                match declared(&tr, wc, iname) {
                    Err(e) => emit(&mut so, "decl_meaning", format!("interface `{iname}`: {e}")),
                    Ok((w_ct, w_inner)) => {
                        let w_desc = ref_entity(&tr, &w_inner, &mut Num::default());
                        if w_desc != want {
                            emit(&mut so, "decl_meaning", format!("interface `{iname}` encodes to {w_desc}; the declarations denote {want}"));
                        }
                        let a = ComponentEntityType::is_subtype_of(&w_ct, tr, &r_ct, tr);
                        let b = ComponentEntityType::is_subtype_of(&r_ct, tr, &w_ct, tr);
                        if !(a && b) {
                            emit(&mut so, "decl_subtype", format!("interface `{iname}`: wac <: reference is {a}, reference <: wac is {b}"));
                        }
                    }
                }
            }
            for wname in p["worlds"].as_array().unwrap() {
                let wname = wname.as_str().unwrap();
                worlds += 1;
                let sw = &sp["worlds"][wname];
                let keep: BTreeSet<String> = sw["im"].as_object().map(|m| m.keys().cloned().collect()).unwrap_or_default();
                let want = spec_entity(sw, &mut Num::default());
                let (r_ct, r_inner) = declared(&tr, rc, wname).expect("reference declares the world");
                let r_desc = world_desc(&tr, &r_inner, &keep);
                if r_desc != want {
                    spec_vs_ref += 1;
                    eprintln!("SPEC-VS-REFERENCE package {id} world {wname}:\n  spec {want}\n  ref  {r_desc}");
                    continue;
                }
                match declared(&tr, wc, wname) {
                    Err(e) => emit(&mut so, "decl_meaning", format!("world `{wname}`: {e}")),
                    Ok((_, w_inner)) => {
                        // (the property speaks of the explicit imports and exports: whole-world subtyping
                        // would also compare the dependency imports, which the two encoders prune differently)
                        let w_desc = world_desc(&tr, &w_inner, &keep);
                        if w_desc != want {
                            let class = if sp["kf"][wname] == "export-uses-export" { "decl_meaning_export_uses_export" } else { "decl_meaning" };
                            emit(&mut so, class, format!("world `{wname}` encodes to {w_desc}; the declarations denote {want}"));
                        }
                        let _ = &r_ct;
                    }
                }
            }
            let _ = restrict;
            continue;
        }
        if prop == "C11" {
            // ---- every world's component against every world of the package: the stand-alone check,
            // the specification (conformance by names inside one package) and the reference validator
            let wnames: Vec<String> = p["worlds"].as_array().unwrap().iter().map(|w| w.as_str().unwrap().to_string()).collect();
            let mut comps: Vec<Vec<u8>> = Vec::new();
            for wname in &wnames {
                let world = resolve.select_world(&[pkg], Some(wname)).expect("world");
                let mut module = wit_component::dummy_module(&resolve, world, wit_parser::ManglingAndAbi::Standard32);
                wit_component::embed_component_metadata(&mut module, &resolve, world, wit_component::StringEncoding::UTF8).expect("metadata");
                comps.push(wit_component::ComponentEncoder::default().module(&module).expect("module").validate(true).encode().expect("component"));
            }
            for (ai, a) in wnames.iter().enumerate() {
                for b in &wnames {
                    worlds += 1;
                    let want = sp["conf"][a.as_str()].as_array().map(|v| v.iter().any(|x| x == b)).unwrap_or(false);
                    let got = guarded(|| -> Result<bool, String> {
                        let mut types = Types::default();
                        let wp = Package::from_bytes("wit", None, ref_bytes.clone(), &mut types).map_err(|e| format!("{e:#}"))?;
                        let cp = Package::from_bytes("component", None, comps[ai].clone(), &mut types).map_err(|e| format!("{e:#}"))?;
                        let top = &types[wp.ty()];
                        let Some(ItemKind::Type(wac_types::Type::World(id))) = top.exports.get(b.as_str()) else { return Err("no such world".into()) };
                        let Some(ItemKind::Component(w)) = types[*id].exports.values().next() else { return Err("wit package was not encoded properly".into()) };
                        Ok(wac_types::validate_target(&types, *w, cp.ty()).is_ok())
                    });
                    match got {
                        Err(pn) => emit(&mut so, "target_decl_panic", format!("validate_target panicked for component of `{a}` against world `{b}`: {pn}")),
                        Ok(Err(e)) => emit(&mut so, "target_decl", format!("component of `{a}` against world `{b}`: {e}")),
                        Ok(Ok(g)) => {
                            if g != want {
                                emit(&mut so, "target_decl", format!("validate_target says the component of world `{a}` {} world `{b}`; the specification says it {}",
                                    if g { "conforms to" } else { "does not conform to" }, if want { "does" } else { "does not" }));
                            }
                        }
                    }
                    // the reference validator: component type of a <: world type b (resource-free packages)
                    if sp["res"] == true {
                        continue;
                    }
                    let t =wasmparser::Validator::new_with_features(wasmparser::WasmFeatures::all()).validate_all(&wrap(&[&comps[ai], &ref_bytes])).expect("wrapper");
                    let tr = t.as_ref();
                    let actual = ComponentEntityType::Component(comp_of(&tr, "c0").unwrap());
                    let (_, inner) = declared(&tr, comp_of(&tr, "c1").unwrap(), b).expect("world declared");
                    let r = ComponentEntityType::is_subtype_of(&actual, tr, &inner, tr);
                    if r != want {
                        spec_vs_ref += 1;
                        eprintln!("SPEC-VS-REFERENCE package {id}: component of `{a}` <: world `{b}` is {r} for wasmparser, the specification says {want}");
                    }
                }
            }
            continue;
        }
        // ---------------------------------------------------------------- C08
        for wname in p["worlds"].as_array().unwrap() {
            let wname = wname.as_str().unwrap();
            let world = resolve.select_world(&[pkg], Some(wname)).expect("world");
            let mut module = wit_component::dummy_module(&resolve, world, wit_parser::ManglingAndAbi::Standard32);
            wit_component::embed_component_metadata(&mut module, &resolve, world, wit_component::StringEncoding::UTF8).expect("metadata");
            let comp = wit_component::ComponentEncoder::default().module(&module).expect("module").validate(true).encode().expect("component");
            let sw = &spec[&id]["worlds"][wname];
            let label = json!({"package": id, "world": wname, "text": p["wit"], "kf": spec[&id]["kf"][wname]});
            let (f, d) = check_component(&mut so, &comp, Some(sw), &label);
            components += 1;
            findings += f;
            dep_checks += d;
        }
    }
    if prop == "C08" {
        // shaped WAT: every kind of the type universe as an import, and the packages of the graph libraries
        let dir = arg("--data", "data");
        let kinds: Vec<Value> = serde_json::from_str(&std::fs::read_to_string(format!("{dir}/types.json")).unwrap()).unwrap();
        for k in &kinds {
            let text = format!("(component\n  {}\n)", k["wat_a"].as_str().unwrap());
            let comp = wat::parse_str(&text).expect("kind component");
            let (f, d) = check_component(&mut so, &comp, None, &json!({"kind": k["id"], "text": text}));
            components += 1;
            findings += f;
            dep_checks += d;
        }
        // extra WIT worlds (world-level types, resources and handles; lib/universe_wit.py): text -> component by
        // the reference toolchain, then the same instantiate-and-encode check (no elaboration to compare with)
        let extra: Value = serde_json::from_str(&std::fs::read_to_string(format!("{dir}/wit_extra.json")).unwrap()).unwrap();
        for w in extra["worlds"].as_array().unwrap() {
            let mut resolve = wit_parser::Resolve::new();
            let pkg = match resolve.push_str("extra.wit", w["wit"].as_str().unwrap()) {
                Ok(x) => x,
                Err(e) => {
                    eprintln!("extra world {} is not WIT: {e:#}\n{}", w["id"], w["wit"].as_str().unwrap());
                    std::process::exit(2);
                }
            };
            let world = resolve.select_world(&[pkg], Some(w["world"].as_str().unwrap())).expect("world");
            let mut module = wit_component::dummy_module(&resolve, world, wit_parser::ManglingAndAbi::Standard32);
            wit_component::embed_component_metadata(&mut module, &resolve, world, wit_component::StringEncoding::UTF8).expect("metadata");
            let comp = wit_component::ComponentEncoder::default().module(&module).expect("module").validate(true).encode().expect("component");
            let (f, d) = check_component(&mut so, &comp, None, &json!({"wit_extra": w["id"], "world": w["world"], "text": w["wit"], "kf": w["kf"]}));
            components += 1;
            findings += f;
            dep_checks += d;
        }
        for lib in ["core", "ver", "shape", "plug", "det", "wac"] {
            let v: Value = serde_json::from_str(&std::fs::read_to_string(format!("{dir}/{lib}.json")).unwrap()).unwrap();
            for (pid, pk) in v["pkgs"].as_object().unwrap() {
                let comp = wat::parse_str(pk["wat"].as_str().unwrap()).expect("library package");
                let (f, d) = check_component(&mut so, &comp, None, &json!({"library": lib, "package": pid, "text": pk["wat"]}));
                components += 1;
                findings += f;
                dep_checks += d;
            }
        }
    }
    writeln!(so, "{}", json!({"summary": true, "packages": packages, "interfaces": interfaces, "worlds": worlds, "components": components,
        "dep_checks": dep_checks, "spec_vs_reference": spec_vs_ref, "findings": findings})).unwrap();
    if spec_vs_ref > 0 {
        std::process::exit(3);
    }
}
