//! aggcheck: C09.  Replays the histories of spec/Agg.tla (REPLAY lines on stdin) into
//! wac_types::TypeAggregator: every contributor is decoded into its own `Types`, its requirements
//! are aggregated in history order, and the outcome (Ok/Err), the imported names, the merged kinds,
//! the canonical names and `merged <: contributor` are compared with the contract.  Histories whose
//! contributors are whole components are also composed with CompositionGraph and the encoded
//! component's imports are read back with the independent decoder.
use serde_json::{json, Map, Value};
use std::collections::{BTreeMap, HashMap, HashSet};
use std::io::{BufRead, Write};
use wac_graph::{CompositionGraph, EncodeOptions};
use wac_types::{ItemKind, Package, SubtypeChecker, Type, TypeAggregator, Types};
use wac_verif_harness::decode::decode;
use wac_verif_harness::describe::{func_desc, value_desc};
use wac_verif_harness::util::{guarded, quiet_panics, tlc_line, validate};

fn arg(name: &str, default: &str) -> String {
    let args: Vec<String> = std::env::args().collect();
    args.iter().position(|a| a == name).and_then(|i| args.get(i + 1).cloned()).unwrap_or_else(|| default.to_string())
}

/// the abstract kind term (shape of spec/Agg.tla's kinds) of a real item kind
fn describe(types: &Types, sigs: &HashMap<String, String>, kind: ItemKind, with_uses: bool) -> Value {
    match kind {
        ItemKind::Func(id) => {
            let d = func_desc(types, &types[id]);
            json!({"c": "func", "sig": sigs.get(&d).cloned().unwrap_or(format!("?{d}"))})
        }
        ItemKind::Instance(id) => {
            let mut ex = Map::new();
            for (n, k) in &types[id].exports {
                ex.insert(n.clone(), describe(types, sigs, *k, with_uses));
            }
            let mut us = Map::new();
            for (n, u) in &types[id].uses {
                us.insert(
                    n.clone(),
                    json!({"iface": types[u.interface].id.clone().unwrap_or_default(), "name": u.name.clone().unwrap_or(n.clone())}),
                );
            }
            if with_uses {
                json!({"c": "inst", "ex": Value::Object(ex), "us": Value::Object(us)})
            } else {
                json!({"c": "inst", "ex": Value::Object(ex)})
            }
        }
        ItemKind::Type(Type::Value(v)) => json!({"c": "rtype", "desc": value_desc(types, v)}),
        other => json!({"c": "other", "desc": other.desc(types)}),
    }
}

/// the spec side: TLC prints empty functions as []; a used interface is given as the set of
/// acceptable spellings (`ifaces`).  With `real` = None the term is normalised without uses.
fn norm_spec(v: &Value, real: Option<&Value>) -> Value {
    match v["c"].as_str() {
        Some("inst") => {
            let mut ex = Map::new();
            if let Some(m) = v["ex"].as_object() {
                for (n, k) in m {
                    ex.insert(n.clone(), norm_spec(k, real.map(|r| &r["ex"][n.as_str()])));
                }
            }
            let Some(real) = real else {
                return json!({"c": "inst", "ex": Value::Object(ex)});
            };
            let mut us = Map::new();
            if let Some(m) = v["us"].as_object() {
                for (n, u) in m {
                    // keep the real spelling when it is one of the acceptable ones
                    let got = &real["us"][n.as_str()]["iface"];
                    let iface = if u["ifaces"].as_array().map(|a| a.contains(got)).unwrap_or(false) { got.clone() } else { json!(u["ifaces"]) };
                    us.insert(n.clone(), json!({"iface": iface, "name": u["name"]}));
                }
            }
            json!({"c": "inst", "ex": Value::Object(ex), "us": Value::Object(us)})
        }
        _ => v.clone(),
    }
}

/// the decoder writes type items as {"c":"type","desc":..}
fn norm_decoded(v: &Value) -> Value {
    match v["c"].as_str() {
        Some("inst") => {
            let mut ex = Map::new();
            if let Some(m) = v["ex"].as_object() {
                for (n, k) in m {
                    ex.insert(n.clone(), norm_decoded(k));
                }
            }
            json!({"c": "inst", "ex": Value::Object(ex)})
        }
        Some("type") => json!({"c": "rtype", "desc": v["desc"]}),
        _ => v.clone(),
    }
}

struct Contributor {
    bytes: Vec<u8>,
    agg: Vec<String>,
    e2e: bool,
}

fn main() {
    quiet_panics();
    let data: Value = serde_json::from_str(&std::fs::read_to_string(format!("{}/agg.json", arg("--data", "data"))).unwrap()).unwrap();
    let e2e_every: usize = arg("--e2e-every", "1").parse().unwrap();
    let probe = std::env::args().any(|a| a == "--probe");
    let sigs: HashMap<String, String> = data["sigs"].as_object().unwrap().iter().map(|(d, n)| (d.clone(), n.as_str().unwrap().to_string())).collect();
    let sigs_by_name: BTreeMap<String, String> = sigs.iter().map(|(d, n)| (n.clone(), d.clone())).collect();
    let mut contribs: HashMap<u64, Contributor> = HashMap::new();
    for c in data["contributors"].as_array().unwrap() {
        let bytes = match wat::parse_str(c["wat"].as_str().unwrap()) {
            Ok(b) => b,
            Err(e) => {
                eprintln!("contributor {} cannot be realised: {e}\n{}", c["id"], c["wat"].as_str().unwrap());
                std::process::exit(2);
            }
        };
        if let Err(e) = validate(&bytes) {
            eprintln!("contributor {} is not a valid component: {e}", c["id"]);
            std::process::exit(2);
        }
        contribs.insert(
            c["id"].as_u64().unwrap(),
            Contributor {
                bytes,
                agg: c["agg"].as_array().unwrap().iter().map(|s| s.as_str().unwrap().to_string()).collect(),
                e2e: c["e2e"] == true,
            },
        );
    }
    if probe {
        let mut ids: Vec<_> = contribs.keys().copied().collect();
        ids.sort();
        for id in ids {
            let mut types = Types::default();
            let p = Package::from_bytes(&format!("t:c{id}"), None, contribs[&id].bytes.clone(), &mut types).unwrap();
            for (n, k) in &types[p.ty()].imports {
                println!("{id} {n} {}", describe(&types, &sigs, *k, true));
            }
        }
        return;
    }
    let so = std::io::stdout();
    let mut so = so.lock();
    let mut findings: HashMap<String, usize> = HashMap::new();
    let mut total_findings = 0usize;
    let (mut histories, mut steps, mut sub_checks, mut composed, mut ok_histories) = (0usize, 0usize, 0usize, 0usize, 0usize);
    for line in std::io::stdin().lock().lines() {
        let Some(js) = tlc_line(&line.unwrap(), "REPLAY") else { continue };
        let v: Value = serde_json::from_str(&js).unwrap();
        let h: Vec<u64> = v["h"].as_array().unwrap().iter().map(|x| x.as_u64().unwrap()).collect();
        if h.is_empty() {
            continue;
        }
        histories += 1;
        let want_ok = v["ok"] == true;
        let kf = v["kf"].as_str().unwrap_or("").to_string();
        let mut emit = |so: &mut std::io::StdoutLock, class: &str, what: String| {
            total_findings += 1;
            let n = findings.entry(format!("{class}/{kf}")).or_default();
            *n += 1;
            if *n <= 40 {
                writeln!(so, "{}", json!({"class": class, "what": what, "kf": kf, "h": h, "expected_ok": want_ok})).unwrap();
            }
        };
        // --- API level: separate type collections, aggregate in history order
        let mut decoded: Vec<(Types, Package)> = Vec::new();
        for (k, id) in h.iter().enumerate() {
            let mut types = Types::default();
            let p = Package::from_bytes(&format!("t:c{k}"), None, contribs[id].bytes.clone(), &mut types).expect("contributor decodes");
            decoded.push((types, p));
        }
        let mut cache = HashSet::new();
        let mut agg = Some(TypeAggregator::default());
        let mut err: Option<String> = None;
        let mut reqs: Vec<(usize, String, ItemKind)> = Vec::new();
        'outer: for (k, id) in h.iter().enumerate() {
            for name in &contribs[id].agg {
                let (types, p) = &decoded[k];
                let kind = types[p.ty()].imports[name.as_str()];
                steps += 1;
                let a = agg.take().unwrap();
                match guarded(|| {
                    let mut checker = SubtypeChecker::new(&mut cache);
                    a.aggregate(name, types, kind, &mut checker)
                }) {
                    Err(p) => {
                        err = Some(format!("PANIC: {p}"));
                        break 'outer;
                    }
                    Ok(Err(e)) => {
                        err = Some(format!("{e:#}"));
                        break 'outer;
                    }
                    Ok(Ok(a)) => agg = Some(a),
                }
                reqs.push((k, name.clone(), kind));
            }
        }
        match (&err, want_ok) {
            (Some(e), _) if e.starts_with("PANIC") => emit(&mut so, "panic", format!("aggregate panicked: {e}")),
            (Some(e), true) => emit(&mut so, "outcome", format!("aggregate failed although the requirements are compatible: {e}")),
            (None, false) => emit(&mut so, "outcome", "aggregate succeeded although two contributors are incompatible".into()),
            _ => {}
        }
        if let (Some(agg), true) = (&agg, want_ok && err.is_none()) {
            ok_histories += 1;
            let got: BTreeMap<String, Value> = agg.imports().map(|(n, k)| (n.to_string(), describe(agg.types(), &sigs, k, true))).collect();
            let want: BTreeMap<String, Value> =
                v["imports"].as_object().map(|m| m.iter().map(|(n, k)| (n.clone(), norm_spec(k, Some(got.get(n).unwrap_or(&Value::Null))))).collect()).unwrap_or_default();
            if got.keys().collect::<Vec<_>>() != want.keys().collect::<Vec<_>>() {
                emit(&mut so, "names", format!("imported names {:?}, the contract says {:?}", got.keys().collect::<Vec<_>>(), want.keys().collect::<Vec<_>>()));
            } else {
                for (n, k) in &got {
                    if *k != want[n] {
                        emit(&mut so, "merged", format!("import `{n}` has kind {k}, the contract says {}", want[n]));
                    }
                }
            }
            if agg.imports().count() != got.len() {
                emit(&mut so, "names", "an import name is listed twice".into());
            }
            for (k, name, kind) in &reqs {
                let canon = agg.canonical_import_name(name).to_string();
                if let Some(w) = v["canon"][name.as_str()].as_str() {
                    if canon != w {
                        emit(&mut so, "canonical", format!("canonical_import_name({name}) = {canon}, the contract says {w}"));
                    }
                }
                // every contributor's requirement is met by the merged type (independent of the contract)
                match agg.imports().find(|(n, _)| *n == canon) {
                    None => emit(&mut so, "canonical", format!("canonical_import_name({name}) = {canon}, which is not imported")),
                    Some((_, merged)) => {
                        sub_checks += 1;
                        let mut fresh = HashSet::new();
                        if let Err(e) = SubtypeChecker::new(&mut fresh).is_subtype(merged, agg.types(), *kind, &decoded[*k].0) {
                            emit(&mut so, "satisfies", format!("the merged type of `{canon}` does not satisfy the requirement `{name}` of contributor #{k}: {e:#}"));
                        }
                    }
                }
            }
        }
        // --- composition level
        if h.iter().all(|id| contribs[id].e2e) && histories % e2e_every == 0 {
            composed += 1;
            let mut g = CompositionGraph::new();
            for (k, id) in h.iter().enumerate() {
                let p = Package::from_bytes(&format!("t:p{k}"), None, contribs[id].bytes.clone(), g.types_mut()).unwrap();
                let pid = g.register_package(p).unwrap();
                g.instantiate(pid);
            }
            match guarded(|| g.encode(EncodeOptions { define_components: true, validate: false, processor: None })) {
                Err(p) => emit(&mut so, "compose_panic", format!("encode panicked: {p}")),
                Ok(Err(e)) => {
                    if want_ok {
                        emit(&mut so, "compose_outcome", format!("encode failed although the requirements are compatible: {e:#}"));
                    } else if !format!("{e:?}").contains("ImportTypeMergeConflict") {
                        emit(&mut so, "compose_outcome", format!("incompatible requirements are reported as {e:?}"));
                    }
                }
                Ok(Ok(bytes)) => {
                    if !want_ok {
                        emit(&mut so, "compose_outcome", "encode succeeded although two contributors are incompatible".into());
                    } else {
                        match decode(&bytes, &sigs_by_name) {
                            Err(e) => emit(&mut so, "compose_invalid", format!("the composition of compatible contributors is invalid: {e}")),
                            Ok(d) => {
                                let got: BTreeMap<String, Value> = d.imports.iter().map(|(n, k)| (n.clone(), norm_decoded(k))).collect();
                                let want: BTreeMap<String, Value> =
                                    v["imports"].as_object().map(|m| m.iter().map(|(n, k)| (n.clone(), norm_spec(k, None))).collect()).unwrap_or_default();
                                if got != want {
                                    emit(&mut so, "compose_imports", format!("the composition imports {}, the contract says {}", json!(got), json!(want)));
                                }
                            }
                        }
                    }
                }
            }
        }
    }
    writeln!(so, "{}", json!({"summary": true, "histories": histories, "steps": steps, "ok_histories": ok_histories,
        "sub_checks": sub_checks, "composed": composed, "findings": total_findings})).unwrap();
}
