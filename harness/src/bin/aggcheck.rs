//! aggcheck: C09.  Replays the histories of spec/Agg.tla (REPLAY lines on stdin) into
//! wac_types::TypeAggregator: every contributor is decoded into its own `Types`, its requirements
//! are aggregated in history order, and the outcome (Ok/Err), the imported names, the merged kinds,
//! the canonical names and `merged <: contributor` are compared with the contract.  Histories whose
//! contributors are whole components are also composed with CompositionGraph and the encoded
//! component's imports are read back with the independent decoder.
use serde_json::{json, Map, Value};
use std::collections::{BTreeMap, HashMap, HashSet};
use std::io::{BufRead, Write};
use wac_graph::{CompositionGraph, EncodeOptions};
use wac_types::{ItemKind, Package, SubtypeChecker, Type, TypeAggregator, Types};
use wac_verif_harness::decode::decode;
use wac_verif_harness::describe::{func_desc, value_desc};
use wac_verif_harness::util::{guarded, quiet_panics, tlc_line, validate};

fn arg(name: &str, default: &str) -> String {
    let args: Vec<String> = std::env::args().collect();
    args.iter().position(|a| a == name).and_then(|i| args.get(i + 1).cloned()).unwrap_or_else(|| default.to_string())
}

/// a core extern in the shape of Types.tla's externs
fn extern_desc(x: &wac_types::CoreExtern) -> Value {
    use wac_types::CoreExtern as X;
    let list = |v: &Vec<wac_types::CoreType>| v.iter().map(|t| t.to_string()).collect::<Vec<_>>().join(",");
    match x {
        X::Func(f) => json!({"x": "cfunc", "sig": format!("{}->{}", list(&f.params), list(&f.results))}),
        X::Memory { memory64, shared, initial, maximum, .. } => {
            json!({"x": "mem", "init": initial, "max": maximum.map(|m| m as i64).unwrap_or(-1), "shared": shared, "m64": memory64})
        }
        other => json!({"x": "other", "desc": format!("{other:?}")}),
    }
}

/// the abstract kind term (shape of spec/Agg.tla's kinds) of a real item kind
fn describe(types: &Types, sigs: &HashMap<String, String>, kind: ItemKind, with_uses: bool) -> Value {
    match kind {
        ItemKind::Func(id) => {
            let d = func_desc(types, &types[id]);
            json!({"c": "func", "sig": sigs.get(&d).cloned().unwrap_or(format!("?{d}"))})
        }
        ItemKind::Instance(id) => {
            let mut ex = Map::new();
            for (n, k) in &types[id].exports {
                ex.insert(n.clone(), describe(types, sigs, *k, with_uses));
            }
            let mut us = Map::new();
            for (n, u) in &types[id].uses {
                us.insert(
                    n.clone(),
                    json!({"iface": types[u.interface].id.clone().unwrap_or_default(), "name": u.name.clone().unwrap_or(n.clone())}),
                );
            }
            if with_uses {
                json!({"c": "inst", "ex": Value::Object(ex), "us": Value::Object(us)})
            } else {
                json!({"c": "inst", "ex": Value::Object(ex)})
            }
        }
        ItemKind::Type(Type::Value(v)) => json!({"c": "rtype", "desc": value_desc(types, v)}),
        ItemKind::Type(Type::Resource(_)) => json!({"c": "rtype", "desc": "resource"}),
        ItemKind::Component(id) => {
            let side = |m: &indexmap::IndexMap<String, ItemKind>| Value::Object(m.iter().map(|(n, k)| (n.clone(), describe(types, sigs, *k, with_uses))).collect());
            json!({"c": "comp", "im": side(&types[id].imports), "ex": side(&types[id].exports)})
        }
        ItemKind::Module(id) => {
            let im: Map<String, Value> = types[id].imports.iter().map(|((m, n), x)| (format!("{m}::{n}"), extern_desc(x))).collect();
            let ex: Map<String, Value> = types[id].exports.iter().map(|(n, x)| (n.clone(), extern_desc(x))).collect();
            json!({"c": "mod", "im": Value::Object(im), "ex": Value::Object(ex)})
        }
        other => json!({"c": "other", "desc": other.desc(types)}),
    }
}

/// the resources a kind mentions, by path, resolved through aliases
fn resources(types: &Types, kind: ItemKind, path: &str, out: &mut Vec<(String, wac_types::ResourceId)>) {
    match kind {
        ItemKind::Type(Type::Resource(r)) => out.push((path.to_string(), types.resolve_resource(r))),
        ItemKind::Func(id) => {
            for (p, t) in &types[id].params {
                if let wac_types::ValueType::Own(r) | wac_types::ValueType::Borrow(r) = t {
                    out.push((format!("{path}({p})"), types.resolve_resource(*r)));
                }
            }
        }
        ItemKind::Instance(id) => {
            for (n, k) in &types[id].exports {
                resources(types, *k, &format!("{path}/{n}"), out);
            }
        }
        _ => {}
    }
}

/// use-transparency of an aggregated interface: a used type *is* the type its source interface
/// exports (same resource after resolving aliases, same description otherwise), and handles in
/// the interface's functions name that resource.  Returns what is wrong.
fn use_transparency(types: &Types, imports: &[(String, ItemKind)]) -> Vec<String> {
    let mut out = Vec::new();
    for (iname, kind) in imports {
        let ItemKind::Instance(id) = kind else { continue };
        for (local, used) in &types[*id].uses {
            let src = &types[used.interface];
            let src_name = used.name.as_deref().unwrap_or(local.as_str());
            // the source is the aggregated import of that name, not a stale copy
            if let Some(sid) = &src.id {
                match imports.iter().find(|(n, _)| n == sid) {
                    Some((_, ItemKind::Instance(agg_src))) if *agg_src == used.interface => {}
                    Some(_) => out.push(format!("`{iname}` uses `{local}` from an interface that is not the aggregated import `{sid}`")),
                    // the caller aggregated the user only
                    None => {}
                }
            }
            let (Some(mine), Some(theirs)) = (types[*id].exports.get(local), src.exports.get(src_name)) else {
                out.push(format!("`{iname}` uses `{local}` but one side does not export it"));
                continue;
            };
            match (mine, theirs) {
                (ItemKind::Type(Type::Resource(a)), ItemKind::Type(Type::Resource(b))) => {
                    if types.resolve_resource(*a) != types.resolve_resource(*b) {
                        out.push(format!("resource `{local}` of `{iname}` is not the resource `{src_name}` of the interface it is used from"));
                    }
                    let mut rs = Vec::new();
                    resources(types, *kind, iname, &mut rs);
                    for (path, r) in rs {
                        if types[r].name == types[types.resolve_resource(*a)].name && r != types.resolve_resource(*a) {
                            out.push(format!("{path} names a second resource `{}`", types[r].name));
                        }
                    }
                }
                (ItemKind::Type(Type::Value(a)), ItemKind::Type(Type::Value(b))) => {
                    if value_desc(types, *a) != value_desc(types, *b) {
                        out.push(format!("type `{local}` of `{iname}` differs from the type `{src_name}` it is used from"));
                    }
                }
                _ => out.push(format!("`{local}` of `{iname}` and its source are of different kinds")),
            }
        }
    }
    out
}

/// the spec side: TLC prints empty functions as []; a used interface is given as the set of
/// acceptable spellings (`ifaces`).  With `real` = None the term is normalised without uses.
fn norm_spec(v: &Value, real: Option<&Value>) -> Value {
    match v["c"].as_str() {
        Some("inst") => {
            let mut ex = Map::new();
            if let Some(m) = v["ex"].as_object() {
                for (n, k) in m {
                    ex.insert(n.clone(), norm_spec(k, real.map(|r| &r["ex"][n.as_str()])));
                }
            }
            let Some(real) = real else {
                return json!({"c": "inst", "ex": Value::Object(ex)});
            };
            let mut us = Map::new();
            if let Some(m) = v["us"].as_object() {
                for (n, u) in m {
                    // keep the real spelling when it is one of the acceptable ones
                    let got = &real["us"][n.as_str()]["iface"];
                    let iface = if u["ifaces"].as_array().map(|a| a.contains(got)).unwrap_or(false) { got.clone() } else { json!(u["ifaces"]) };
                    us.insert(n.clone(), json!({"iface": iface, "name": u["name"]}));
                }
            }
            json!({"c": "inst", "ex": Value::Object(ex), "us": Value::Object(us)})
        }
        Some(c @ ("comp" | "mod")) => {
            let side = |s: &str| {
                let mut m = Map::new();
                if let Some(o) = v[s].as_object() {
                    for (n, k) in o {
                        m.insert(n.clone(), if c == "comp" { norm_spec(k, real.map(|r| &r[s][n.as_str()])) } else { k.clone() });
                    }
                }
                Value::Object(m)
            };
            json!({"c": c, "im": side("im"), "ex": side("ex")})
        }
        _ => v.clone(),
    }
}

/// the decoder writes type items as {"c":"type","desc":..}
fn norm_decoded(v: &Value) -> Value {
    match v["c"].as_str() {
        Some("inst") => {
            let mut ex = Map::new();
            if let Some(m) = v["ex"].as_object() {
                for (n, k) in m {
                    ex.insert(n.clone(), norm_decoded(k));
                }
            }
            json!({"c": "inst", "ex": Value::Object(ex)})
        }
        Some("type") if v["desc"].as_str().map(|d| d.starts_with("Resource(")).unwrap_or(false) => json!({"c": "rtype", "desc": "resource"}),
        Some("type") => json!({"c": "rtype", "desc": v["desc"]}),
        // the decoder does not name the resource of a handle
        Some("func") if v["sig"] == "?(x:own<?>)->_" => json!({"c": "func", "sig": "H"}),
        _ => v.clone(),
    }
}

/// the distinct resources (validator identities) the decoded imports export
fn decoded_resources(v: &Value, out: &mut HashSet<String>) {
    match v["c"].as_str() {
        Some("inst") => {
            if let Some(m) = v["ex"].as_object() {
                for k in m.values() {
                    decoded_resources(k, out);
                }
            }
        }
        Some("type") => {
            if let Some(d) = v["desc"].as_str().filter(|d| d.starts_with("Resource(")) {
                out.insert(d.to_string());
            }
        }
        _ => {}
    }
}

/// the resources the contract's imports define: resource exports that are not used from elsewhere
fn contract_resources(v: &Value) -> usize {
    match v["c"].as_str() {
        Some("inst") => v["ex"]
            .as_object()
            .map(|m| {
                m.iter()
                    .map(|(n, k)| {
                        if k["c"] == "rtype" && k["desc"] == "resource" {
                            usize::from(v["us"].get(n.as_str()).is_none())
                        } else {
                            contract_resources(k)
                        }
                    })
                    .sum()
            })
            .unwrap_or(0),
        _ => 0,
    }
}

struct Contributor {
    bytes: Vec<u8>,
    agg: Vec<String>,
    e2e: bool,
}

fn main() {
    quiet_panics();
    let data: Value = serde_json::from_str(&std::fs::read_to_string(format!("{}/agg.json", arg("--data", "data"))).unwrap()).unwrap();
    let e2e_every: usize = arg("--e2e-every", "1").parse().unwrap();
    let probe = std::env::args().any(|a| a == "--probe");
    let trace = std::env::args().any(|a| a == "--trace");
    let sigs: HashMap<String, String> = data["sigs"].as_object().unwrap().iter().map(|(d, n)| (d.clone(), n.as_str().unwrap().to_string())).collect();
    let sigs_by_name: BTreeMap<String, String> = sigs.iter().map(|(d, n)| (n.clone(), d.clone())).collect();
    let mut contribs: HashMap<u64, Contributor> = HashMap::new();
    for c in data["contributors"].as_array().unwrap() {
        let bytes = match wat::parse_str(c["wat"].as_str().unwrap()) {
            Ok(b) => b,
            Err(e) => {
                eprintln!("contributor {} cannot be realised: {e}\n{}", c["id"], c["wat"].as_str().unwrap());
                std::process::exit(2);
            }
        };
        if let Err(e) = validate(&bytes) {
            eprintln!("contributor {} is not a valid component: {e}", c["id"]);
            std::process::exit(2);
        }
        contribs.insert(
            c["id"].as_u64().unwrap(),
            Contributor {
                bytes,
                agg: c["agg"].as_array().unwrap().iter().map(|s| s.as_str().unwrap().to_string()).collect(),
                e2e: c["e2e"] == true,
            },
        );
    }
    if probe {
        let mut ids: Vec<_> = contribs.keys().copied().collect();
        ids.sort();
        for id in ids {
            let mut types = Types::default();
            let p = Package::from_bytes(&format!("t:c{id}"), None, contribs[&id].bytes.clone(), &mut types).unwrap();
            for (n, k) in &types[p.ty()].imports {
                println!("{id} {n} {}", describe(&types, &sigs, *k, true));
            }
        }
        return;
    }
    let so = std::io::stdout();
    let mut so = so.lock();
    let mut findings: HashMap<String, usize> = HashMap::new();
    let mut total_findings = 0usize;
    let (mut histories, mut steps, mut sub_checks, mut composed, mut ok_histories) = (0usize, 0usize, 0usize, 0usize, 0usize);
    for line in std::io::stdin().lock().lines() {
        let Some(js) = tlc_line(&line.unwrap(), "REPLAY") else { continue };
        let v: Value = serde_json::from_str(&js).unwrap();
        let h: Vec<u64> = v["h"].as_array().unwrap().iter().map(|x| x.as_u64().unwrap()).collect();
        if h.is_empty() {
            continue;
        }
        histories += 1;
        let want_ok = v["ok"] == true;
        let kf = v["kf"].as_str().unwrap_or("").to_string();
        let mut emit = |so: &mut std::io::StdoutLock, class: &str, what: String| {
            total_findings += 1;
            let n = findings.entry(format!("{class}/{kf}")).or_default();
            *n += 1;
            if *n <= 40 {
                writeln!(so, "{}", json!({"class": class, "what": what, "kf": kf, "h": h, "expected_ok": want_ok})).unwrap();
            }
        };
        // --- API level: separate type collections, aggregate in history order
        let mut decoded: Vec<(Types, Package)> = Vec::new();
        for (k, id) in h.iter().enumerate() {
            let mut types = Types::default();
            let p = Package::from_bytes(&format!("t:c{k}"), None, contribs[id].bytes.clone(), &mut types).expect("contributor decodes");
            decoded.push((types, p));
        }
        let mut cache = HashSet::new();
        let mut agg = Some(TypeAggregator::default());
        let mut err: Option<String> = None;
        let mut reqs: Vec<(usize, String, ItemKind)> = Vec::new();
        'outer: for (k, id) in h.iter().enumerate() {
            for name in &contribs[id].agg {
                let (types, p) = &decoded[k];
                let kind = types[p.ty()].imports[name.as_str()];
                steps += 1;
                let a = agg.take().unwrap();
                match guarded(|| {
                    let mut checker = SubtypeChecker::new(&mut cache);
                    a.aggregate(name, types, kind, &mut checker)
                }) {
                    Err(p) => {
                        err = Some(format!("PANIC: {p}"));
                        break 'outer;
                    }
                    Ok(Err(e)) => {
                        err = Some(format!("{e:#}"));
                        break 'outer;
                    }
                    Ok(Ok(a)) => agg = Some(a),
                }
                if trace {
                    let a = agg.as_ref().unwrap();
                    eprintln!("after aggregate({name}) of #{id}: {:?}", a.imports().map(|(n, k)| format!("{n}={}", describe(a.types(), &sigs, k, true))).collect::<Vec<_>>());
                }
                reqs.push((k, name.clone(), kind));
            }
        }
        // --- histories KF28 excuses (different component-/module-kinded requirements for one name): the result
        // must be what the contract says or what the Impl layer says merge_world/merge_module_type do today
        // (and KF29: one instance type definition imported under several names -- same rule)
        if (kf == "component-or-module-requirement" || kf == "shared-instance-type") && !err.as_deref().map(|e| e.starts_with("PANIC")).unwrap_or(false) {
            let (known, unexplained) = if kf == "shared-instance-type" { ("shared_merge", "shared_merge_unexplained") } else { ("world_merge", "world_merge_unexplained") };
            let got: Option<BTreeMap<String, Value>> = match (&agg, &err) {
                (Some(a), None) => Some(a.imports().map(|(n, k)| (n.to_string(), describe(a.types(), &sigs, k, true))).collect()),
                _ => None,
            };
            let side = |ok: bool, imports: &Value| -> Option<BTreeMap<String, Value>> {
                if !ok {
                    return None;
                }
                Some(imports.as_object().map(|m| m.iter().map(|(n, k)| (n.clone(), norm_spec(k, got.as_ref().map(|g| g.get(n).unwrap_or(&Value::Null))))).collect()).unwrap_or_default())
            };
            let contract = side(want_ok, &v["imports"]);
            let model = side(v["impl"]["ok"] == true, &v["impl"]["imports"]);
            let show = |x: &Option<BTreeMap<String, Value>>| x.as_ref().map(|m| json!(m).to_string()).unwrap_or_else(|| "failure".into());
            if got == contract {
                // the property holds on this history
            } else if got == model {
                emit(&mut so, known, format!("aggregate yields {}, the contract says {}", show(&got), show(&contract)));
            } else {
                emit(&mut so, unexplained, format!("aggregate yields {}; neither the contract ({}) nor the model of the code as it is ({})",
                    show(&got), show(&contract), show(&model)));
            }
            continue;
        }
        match (&err, want_ok) {
            (Some(e), _) if e.starts_with("PANIC") => emit(&mut so, "panic", format!("aggregate panicked: {e}")),
            (Some(e), true) => emit(&mut so, "outcome", format!("aggregate failed although the requirements are compatible: {e}")),
            (None, false) => emit(&mut so, "outcome", "aggregate succeeded although two contributors are incompatible".into()),
            _ => {}
        }
        if let (Some(agg), true) = (&agg, want_ok && err.is_none()) {
            ok_histories += 1;
            let got: BTreeMap<String, Value> = agg.imports().map(|(n, k)| (n.to_string(), describe(agg.types(), &sigs, k, true))).collect();
            let want: BTreeMap<String, Value> =
                v["imports"].as_object().map(|m| m.iter().map(|(n, k)| (n.clone(), norm_spec(k, Some(got.get(n).unwrap_or(&Value::Null))))).collect()).unwrap_or_default();
            if got.keys().collect::<Vec<_>>() != want.keys().collect::<Vec<_>>() {
                emit(&mut so, "names", format!("imported names {:?}, the contract says {:?}", got.keys().collect::<Vec<_>>(), want.keys().collect::<Vec<_>>()));
            } else {
                for (n, k) in &got {
                    if *k != want[n] {
                        emit(&mut so, "merged", format!("import `{n}` has kind {k}, the contract says {}", want[n]));
                    }
                }
            }
            if agg.imports().count() != got.len() {
                emit(&mut so, "names", "an import name is listed twice".into());
            }
            let all: Vec<(String, ItemKind)> = agg.imports().map(|(n, k)| (n.to_string(), k)).collect();
            for what in use_transparency(agg.types(), &all) {
                emit(&mut so, "uses", what);
            }
            for (k, name, kind) in &reqs {
                let canon = agg.canonical_import_name(name).to_string();
                if let Some(w) = v["canon"][name.as_str()].as_str() {
                    if canon != w {
                        emit(&mut so, "canonical", format!("canonical_import_name({name}) = {canon}, the contract says {w}"));
                    }
                }
                // every contributor's requirement is met by the merged type (independent of the contract)
                match agg.imports().find(|(n, _)| *n == canon) {
                    None => emit(&mut so, "canonical", format!("canonical_import_name({name}) = {canon}, which is not imported")),
                    Some((_, merged)) => {
                        sub_checks += 1;
                        let mut fresh = HashSet::new();
                        if let Err(e) = SubtypeChecker::new(&mut fresh).is_subtype(merged, agg.types(), *kind, &decoded[*k].0) {
                            emit(&mut so, "satisfies", format!("the merged type of `{canon}` does not satisfy the requirement `{name}` of contributor #{k}: {e:#}"));
                        }
                    }
                }
            }
        }
        // --- composition level
        if h.iter().all(|id| contribs[id].e2e) && histories % e2e_every == 0 {
            composed += 1;
            let mut g = CompositionGraph::new();
            for (k, id) in h.iter().enumerate() {
                let p = Package::from_bytes(&format!("t:p{k}"), None, contribs[id].bytes.clone(), g.types_mut()).unwrap();
                let pid = g.register_package(p).unwrap();
                g.instantiate(pid);
            }
            match guarded(|| g.encode(EncodeOptions { define_components: true, validate: false, processor: None })) {
                Err(p) => emit(&mut so, "compose_panic", format!("encode panicked: {p}")),
                Ok(Err(e)) => {
                    if want_ok {
                        emit(&mut so, "compose_outcome", format!("encode failed although the requirements are compatible: {e:#}"));
                    } else if !format!("{e:?}").contains("ImportTypeMergeConflict") {
                        emit(&mut so, "compose_outcome", format!("incompatible requirements are reported as {e:?}"));
                    }
                }
                Ok(Ok(bytes)) => {
                    if !want_ok {
                        emit(&mut so, "compose_outcome", "encode succeeded although two contributors are incompatible".into());
                    } else {
                        match decode(&bytes, &sigs_by_name) {
                            Err(e) => emit(&mut so, "compose_invalid", format!("the composition of compatible contributors is invalid: {e}")),
                            Ok(d) => {
                                let got: BTreeMap<String, Value> = d.imports.iter().map(|(n, k)| (n.clone(), norm_decoded(k))).collect();
                                let want: BTreeMap<String, Value> =
                                    v["imports"].as_object().map(|m| m.iter().map(|(n, k)| (n.clone(), norm_spec(k, None))).collect()).unwrap_or_default();
                                if got != want {
                                    emit(&mut so, "compose_imports", format!("the composition imports {}, the contract says {}", json!(got), json!(want)));
                                }
                                let mut rs = HashSet::new();
                                d.imports.iter().for_each(|(_, k)| decoded_resources(k, &mut rs));
                                let want_rs: usize = v["imports"].as_object().map(|m| m.values().map(contract_resources).sum()).unwrap_or(0);
                                if rs.len() != want_rs {
                                    emit(&mut so, "compose_resources", format!("the composition's imports define {} distinct resources, the contract says {want_rs}", rs.len()));
                                }
                            }
                        }
                    }
                }
            }
        }
    }
    writeln!(so, "{}", json!({"summary": true, "histories": histories, "steps": steps, "ok_histories": ok_histories,
        "sub_checks": sub_checks, "composed": composed, "findings": total_findings})).unwrap();
}
