//! typecheck: C07.  Three-way comparison of the subtype verdict for every ordered pair of the type
//! universe: the TLA+ relation (SUBS lines of spec/SubRel.tla on stdin), wac's SubtypeChecker
//! (one shared `Types` and two separate `Types`; fresh memo and one shared memo in several orders),
//! and wasmparser's `is_subtype_of` on the same two types inside one validated component.
//! Accepted pairs are also wired through set_instantiation_argument and the encoding is validated.
use rand::rngs::StdRng;
use rand::seq::SliceRandom;
use rand::SeedableRng;
use serde_json::{json, Value};
use std::collections::{HashMap, HashSet};
use std::io::{BufRead, Write};
use wac_graph::{CompositionGraph, EncodeOptions};
use wac_types::{ItemKind, Package, SubtypeChecker, Types};
use wac_verif_harness::util::{guarded, quiet_panics, tlc_line, validate};

fn arg(name: &str, default: &str) -> String {
    let args: Vec<String> = std::env::args().collect();
    args.iter().position(|a| a == name).and_then(|i| args.get(i + 1).cloned()).unwrap_or_else(|| default.to_string())
}

fn import_kind(types: &mut Types, wat_decl: &str, name: &str, pkg: &str) -> Result<(Package, ItemKind), String> {
    let bytes = wat::parse_str(format!("(component\n  {wat_decl}\n)")).map_err(|e| format!("wat: {e}"))?;
    let p = Package::from_bytes(pkg, None, bytes, types).map_err(|e| format!("decode: {e:#}"))?;
    let k = *types[p.ty()].imports.get(name).ok_or("import missing")?;
    Ok((p, k))
}

/// the items directly nested in an instance or component kind, by role and name
fn subitems(types: &Types, k: ItemKind) -> Vec<(String, ItemKind)> {
    match k {
        ItemKind::Instance(id) => types[id].exports.iter().map(|(n, k)| (format!("export {n}"), *k)).collect(),
        ItemKind::Component(id) => types[id]
            .imports
            .iter()
            .map(|(n, k)| (format!("import {n}"), *k))
            .chain(types[id].exports.iter().map(|(n, k)| (format!("export {n}"), *k)))
            .collect(),
        _ => Vec::new(),
    }
}

fn main() {
    quiet_panics();
    let data = arg("--data", "data");
    let seed: u64 = arg("--seed", "1").parse().unwrap();
    let orders: usize = arg("--orders", "3").parse().unwrap();
    let wire_every: usize = arg("--wire-every", "7").parse().unwrap();
    let kinds: Vec<Value> = serde_json::from_str(&std::fs::read_to_string(format!("{data}/types.json")).unwrap()).unwrap();
    let n = kinds.len();
    let so = std::io::stdout();
    let mut so = so.lock();
    let mut findings = 0usize;
    let mut emit = |so: &mut std::io::StdoutLock, class: &str, what: String, i: usize, j: usize| {
        findings += 1;
        if findings <= 300 {
            writeln!(so, "{}", json!({"class": class, "what": what, "a": i, "b": j,
                "a_wat": kinds[i - 1]["wat_a"], "b_wat": kinds[j - 1]["wat_b"]})).unwrap();
        }
    };
    // the TLA+ relation
    let mut spec: HashSet<(usize, usize)> = HashSet::new();
    let mut lines = 0;
    for line in std::io::stdin().lock().lines() {
        if let Some(js) = tlc_line(&line.unwrap(), "SUBS") {
            let v: Value = serde_json::from_str(&js).unwrap();
            lines += 1;
            let a = v["a"].as_u64().unwrap() as usize;
            for j in v["sub"].as_array().unwrap() {
                spec.insert((a, j.as_u64().unwrap() as usize));
            }
        }
    }
    if lines != n {
        eprintln!("SUBS lines: {lines}, kinds: {n}");
        std::process::exit(2);
    }
    // decode every kind: A side into `shared` and `sep_a`, B side into `shared` and `sep_b`
    let mut shared = Types::default();
    let mut sep_a = Types::default();
    let mut sep_b = Types::default();
    let mut ka_shared = Vec::new();
    let mut kb_shared = Vec::new();
    let mut ka_sep = Vec::new();
    let mut kb_sep = Vec::new();
    for (i, k) in kinds.iter().enumerate() {
        let (wa, wb) = (k["wat_a"].as_str().unwrap(), k["wat_b"].as_str().unwrap());
        let r = (|| -> Result<(), String> {
            ka_shared.push(import_kind(&mut shared, wa, "a", &format!("t:a{i}"))?.1);
            kb_shared.push(import_kind(&mut shared, wb, "b", &format!("t:b{i}"))?.1);
            ka_sep.push(import_kind(&mut sep_a, wa, "a", &format!("t:a{i}"))?.1);
            kb_sep.push(import_kind(&mut sep_b, wb, "b", &format!("t:b{i}"))?.1);
            Ok(())
        })();
        if let Err(e) = r {
            eprintln!("kind {} cannot be realised: {e}\n{wa}", i + 1);
            std::process::exit(2);
        }
    }
    let mut pairs = 0usize;
    let mut spec_vs_ref = 0usize;
    let mut verdict: HashMap<(usize, usize), bool> = HashMap::new();
    for i in 1..=n {
        for j in 1..=n {
            pairs += 1;
            let want = spec.contains(&(i, j));
            // reference validator on the same two types
            let text = format!("(component\n  {}\n  {}\n)", kinds[i - 1]["wat_a"].as_str().unwrap(), kinds[j - 1]["wat_b"].as_str().unwrap());
            let reference = (|| -> Result<bool, String> {
                let bytes = wat::parse_str(&text).map_err(|e| e.to_string())?;
                let t = wasmparser::Validator::new_with_features(wasmparser::WasmFeatures::all())
                    .validate_all(&bytes)
                    .map_err(|e| e.to_string())?;
                let tr = t.as_ref();
                let a = tr.component_entity_type_of_import("a").ok_or("no a")?;
                let b = tr.component_entity_type_of_import("b").ok_or("no b")?;
                Ok(wasmparser::component_types::ComponentEntityType::is_subtype_of(&a, tr, &b, tr))
            })();
            match &reference {
                Err(e) => {
                    eprintln!("pair {i},{j} cannot be given to the reference validator: {e}");
                    std::process::exit(2);
                }
                Ok(r) if *r != want => {
                    // convention 5: my transcription disagrees with the reference named by the property
                    spec_vs_ref += 1;
                    eprintln!("SPEC-VS-REFERENCE pair {i},{j}: Types.tla says {want}, wasmparser says {r}");
                    continue;
                }
                _ => {}
            }
            // wac, fresh memo, shared and separate type collections
            let mut c1 = HashSet::new();
            let got_shared = guarded(|| SubtypeChecker::new(&mut c1).is_subtype(ka_shared[i - 1], &shared, kb_shared[j - 1], &shared).is_ok());
            let mut c2 = HashSet::new();
            let got_sep = guarded(|| SubtypeChecker::new(&mut c2).is_subtype(ka_sep[i - 1], &sep_a, kb_sep[j - 1], &sep_b).is_ok());
            for (mode, got) in [("one shared Types", &got_shared), ("separate Types", &got_sep)] {
                match got {
                    Err(p) => emit(&mut so, "subtype", format!("is_subtype panicked ({mode}): {p}"), i, j),
                    Ok(g) if *g != want => emit(
                        &mut so,
                        "subtype",
                        format!("is_subtype ({mode}) = {g}; the component-model relation (Types.tla and wasmparser) says {want}"),
                        i,
                        j,
                    ),
                    _ => {}
                }
            }
            verdict.insert((i, j), want);
        }
    }
    // one shared memo, several orders: verdicts must not depend on what was checked before
    let mut all: Vec<(usize, usize)> = verdict.keys().copied().collect();
    all.sort();
    let mut rng = StdRng::seed_from_u64(seed);
    let mut memo_checks = 0usize;
    for o in 0..orders {
        all.shuffle(&mut rng);
        let mut cache = HashSet::new();
        for (i, j) in &all {
            memo_checks += 1;
            let got = SubtypeChecker::new(&mut cache).is_subtype(ka_shared[*i - 1], &shared, kb_shared[*j - 1], &shared).is_ok();
            if got != verdict[&(*i, *j)] {
                emit(&mut so, "memo", format!("with a memo shared with earlier checks (order {o}) is_subtype = {got}; with a fresh memo it is {}", verdict[&(*i, *j)]), *i, *j);
            }
        }
        // the items nested in the kinds (the pairs the checker memoises while it recurses, with the
        // very ids it memoises them under): verdicts through the shared memo, in both directions,
        // must equal the fresh-memo verdicts
        for (i, j) in all.iter().filter(|(i, j)| !subitems(&shared, ka_shared[*i - 1]).is_empty() && !subitems(&shared, kb_shared[*j - 1]).is_empty()) {
            let (sa, sb) = (subitems(&shared, ka_shared[*i - 1]), subitems(&shared, kb_shared[*j - 1]));
            for (na, xa) in &sa {
                for (nb, xb) in &sb {
                    if na != nb {
                        continue;
                    }
                    for (x, y) in [(*xa, *xb), (*xb, *xa)] {
                        memo_checks += 1;
                        let mut fresh = HashSet::new();
                        let want = SubtypeChecker::new(&mut fresh).is_subtype(x, &shared, y, &shared).is_ok();
                        let got = SubtypeChecker::new(&mut cache).is_subtype(x, &shared, y, &shared).is_ok();
                        if got != want {
                            emit(&mut so, "memo", format!("nested item `{na}` of the two kinds: with the memo shared with earlier checks (order {o}) is_subtype = {got}; with a fresh memo it is {want}"), *i, *j);
                        }
                    }
                }
            }
        }
        // the same pair again, after everything else went through the memo
        for (i, j) in all.iter().take(2000) {
            let got = SubtypeChecker::new(&mut cache).is_subtype(ka_shared[*i - 1], &shared, kb_shared[*j - 1], &shared).is_ok();
            if got != verdict[&(*i, *j)] {
                emit(&mut so, "memo", format!("a repeated check gives {got}, the first gave {}", verdict[&(*i, *j)]), *i, *j);
            }
        }
    }
    // accepted arguments must yield an instantiation that validates; rejected ones must be refused
    let mut wired = 0usize;
    for (idx, (i, j)) in all.iter().enumerate() {
        if idx % wire_every != 0 {
            continue;
        }
        let (i, j) = (*i, *j);
        let mut g = CompositionGraph::new();
        let r = (|| -> Result<(), String> {
            let (_, ka) = import_kind(g.types_mut(), kinds[i - 1]["wat_a"].as_str().unwrap(), "a", "t:prov")?;
            let (pb, _) = import_kind(g.types_mut(), kinds[j - 1]["wat_b"].as_str().unwrap(), "b", "t:cons")?;
            let pid = g.register_package(pb).map_err(|e| e.to_string())?;
            let src = g.import("a", ka).map_err(|e| e.to_string())?;
            let inst = g.instantiate(pid);
            let res = guarded(|| g.set_instantiation_argument(inst, "b", src).is_ok()).map_err(|p| format!("set_instantiation_argument panicked: {p}"))?;
            wired += 1;
            if res != verdict[&(i, j)] {
                return Err(format!("set_instantiation_argument accepted = {res}; the relation says {}", verdict[&(i, j)]));
            }
            // (kinds that mention named value types are wired without their type imports here, which
            // is not a composition the WAC front end can produce: only the verdict is compared)
            let anonymous_named_types = kinds[i - 1]["wat_a"].as_str().unwrap().contains("(type ");
            if res && !anonymous_named_types {
                for dc in [true, false] {
                    match guarded(|| g.encode(EncodeOptions { define_components: dc, validate: false, processor: None })) {
                        Err(p) => return Err(format!("encode panicked: {p}")),
                        Ok(Err(e)) => return Err(format!("an accepted argument does not encode: {e}")),
                        Ok(Ok(bytes)) => validate(&bytes).map_err(|e| format!("an accepted argument yields an invalid component (define_components={dc}): {e}"))?,
                    }
                }
            }
            Ok(())
        })();
        if let Err(e) = r {
            emit(&mut so, "wire", e, i, j);
        }
    }
    writeln!(so, "{}", json!({"summary": true, "kinds": n, "pairs": pairs, "spec_vs_reference": spec_vs_ref,
        "memo_checks": memo_checks, "wired": wired, "findings": findings})).unwrap();
    if spec_vs_ref > 0 {
        std::process::exit(3);
    }
}
