//! faultcheck: C14, the package side of the fault space.  For every fixture document given on stdin
//! (path of a .wac file whose packages live in the directory of the same stem) the packages are
//! loaded, and the document is resolved and encoded under every enumerated fault of every package:
//!   whole-package states   Missing | Empty | CoreModule | Garbage | SwapLayer
//!   per top-level section  Truncate(start | mid | end)   FlipByte(header | body)
//! Parsing, resolving, decoding and encoding must return a value or an error: a panic is a finding;
//! an abort/stack overflow kills this process and is reported by the supervisor.
use indexmap::IndexMap;
use miette::Diagnostic;
use serde_json::json;
use std::io::{BufRead, Write};
use std::path::Path;
use wac_graph::EncodeOptions;
use wac_parser::Document;
use wac_resolver::{packages, FileSystemPackageResolver};
use wac_types::BorrowedPackageKey;
use wac_verif_harness::util::{guarded, quiet_panics};

fn sections(bytes: &[u8]) -> Vec<(usize, usize)> {
    // top-level section ranges (header start, end) read with the reference parser; nested
    // components/modules count as one section of the parent
    let mut out = Vec::new();
    let mut depth = 0usize;
    for p in wasmparser::Parser::new(0).parse_all(bytes) {
        let p = match p {
            Ok(p) => p,
            Err(_) => break,
        };
        match &p {
            wasmparser::Payload::Version { .. } => {
                depth += 1;
                continue;
            }
            wasmparser::Payload::End(_) => {
                depth = depth.saturating_sub(1);
                continue;
            }
            _ => {}
        }
        if depth != 1 {
            continue;
        }
        if let Some((_, r)) = p.as_section() {
            out.push((r.start.saturating_sub(2), r.end));
        } else if let wasmparser::Payload::ComponentSection { unchecked_range, .. }
        | wasmparser::Payload::ModuleSection { unchecked_range, .. } = &p
        {
            out.push((unchecked_range.start.saturating_sub(2), unchecked_range.end));
        }
    }
    out
}

fn faults(bytes: &[u8]) -> Vec<(String, Option<Vec<u8>>)> {
    let mut out: Vec<(String, Option<Vec<u8>>)> = vec![
        ("Missing".into(), None),
        ("Empty".into(), Some(vec![])),
        ("CoreModule".into(), Some(wat::parse_str("(module (func (export \"f\")))").unwrap())),
        ("Garbage".into(), Some((0..64u32).map(|i| (i.wrapping_mul(2654435761) >> 13) as u8).collect())),
    ];
    if bytes.len() > 8 {
        let mut b = bytes.to_vec();
        b[4] = 0x01;
        b[6] = 0x00;
        out.push(("SwapLayer".into(), Some(b)));
    }
    for (i, (start, end)) in sections(bytes).into_iter().enumerate() {
        let end = end.min(bytes.len());
        if start >= end {
            continue;
        }
        let mid = start + (end - start) / 2;
        for (what, at) in [("start", start), ("mid", mid), ("end", end.saturating_sub(1))] {
            out.push((format!("Truncate(section {i}, {what})"), Some(bytes[..at].to_vec())));
        }
        for (what, at) in [("header", start), ("body", mid)] {
            if at < bytes.len() {
                let mut b = bytes.to_vec();
                b[at] ^= 0x5a;
                out.push((format!("FlipByte(section {i}, {what})"), Some(b)));
            }
        }
    }
    out
}

fn check_diag<E: Diagnostic>(e: &E, text: &str) -> Option<String> {
    if let Some(labels) = e.labels() {
        for l in labels {
            if l.offset() + l.len() > text.len() || !text.is_char_boundary(l.offset()) || !text.is_char_boundary(l.offset() + l.len()) {
                return Some(format!("span {}+{} is outside the source or not on character boundaries", l.offset(), l.len()));
            }
        }
    }
    None
}

fn main() {
    quiet_panics();
    let so = std::io::stdout();
    let mut so = so.lock();
    let (mut fixtures, mut cases, mut findings, mut resolved_ok, mut errors) = (0usize, 0usize, 0usize, 0usize, 0usize);
    for line in std::io::stdin().lock().lines() {
        let path = line.unwrap();
        let path = Path::new(path.trim());
        let text = match std::fs::read_to_string(path) {
            Ok(t) => t.replace("\r\n", "\n"),
            Err(_) => continue,
        };
        let doc = match Document::parse(&text) {
            Ok(d) => d,
            Err(_) => continue,
        };
        let keys = match packages(&doc) {
            Ok(k) => k,
            Err(_) => continue,
        };
        let resolver = FileSystemPackageResolver::new(
            path.parent().unwrap().join(path.file_stem().unwrap()),
            Default::default(),
            false,
        );
        let base = match guarded(|| resolver.resolve(&keys)) {
            Ok(Ok(m)) => m,
            _ => continue,
        };
        fixtures += 1;
        eprintln!("FIXTURE {}", path.display());
        let names: Vec<BorrowedPackageKey> = base.keys().cloned().collect();
        // the unfaulted run plus every fault of every package
        let mut plan: Vec<(String, IndexMap<BorrowedPackageKey, Vec<u8>>)> = vec![("none".into(), base.clone())];
        for k in &names {
            for (what, bytes) in faults(&base[k]) {
                let mut m = base.clone();
                match bytes {
                    None => {
                        m.shift_remove(k);
                    }
                    Some(b) => {
                        m.insert(*k, b);
                    }
                }
                plan.push((format!("{what} of {}", k.name), m));
            }
        }
        for (what, map) in plan {
            cases += 1;
            let mut emit = |class: &str, msg: String| {
                findings += 1;
                writeln!(so, "{}", json!({"class": class, "what": msg, "fixture": path.display().to_string(), "fault": what})).unwrap();
            };
            // decoding every (possibly corrupted) package on its own
            for (k, b) in &map {
                let r = guarded(|| {
                    let mut types = wac_types::Types::default();
                    wac_types::Package::from_bytes(k.name, k.version, b.clone(), &mut types).map(|_| ())
                });
                if let Err(p) = r {
                    emit("panic", format!("Package::from_bytes panicked: {p}"));
                }
            }
            match guarded(|| doc.resolve(map.clone())) {
                Err(p) => emit("panic", format!("Document::resolve panicked: {p}")),
                Ok(Err(e)) => {
                    errors += 1;
                    if let Some(b) = check_diag(&e, &text) {
                        emit("span", format!("resolution diagnostic `{e}`: {b}"));
                    }
                    let msg = e.to_string();
                    if let Err(p) = guarded(|| format!("{:?}", miette::Report::new(e).with_source_code(text.clone()))) {
                        emit("render", format!("rendering `{msg}` panicked: {p}"));
                    }
                }
                Ok(Ok(resolution)) => {
                    resolved_ok += 1;
                    match guarded(|| resolution.encode(EncodeOptions::default())) {
                        Err(p) => emit("panic", format!("Resolution::encode panicked: {p}")),
                        Ok(_) => {}
                    }
                }
            }
        }
    }
    writeln!(so, "{}", json!({"summary": true, "fixtures": fixtures, "cases": cases, "resolved_ok": resolved_ok, "errors": errors, "findings": findings})).unwrap();
}
