//! drive <driver> ...: exercises the real code in ways TLC did not choose and records one event
//! per public call (trace validation, implementation -> specification).
use rand::rngs::StdRng;
use rand::seq::SliceRandom;
use rand::{Rng, SeedableRng};
use serde_json::{json, Value};
use std::io::Write;
use wac_verif_harness::glib::{Lib, World};
use wac_verif_harness::graphreplay::{Machine, Op};
use wac_verif_harness::util::{quiet_panics, validate};

fn arg(name: &str, default: &str) -> String {
    let args: Vec<String> = std::env::args().collect();
    args.iter()
        .position(|a| a == name)
        .and_then(|i| args.get(i + 1).cloned())
        .unwrap_or_else(|| default.to_string())
}

fn main() {
    quiet_panics();
    let driver = std::env::args().nth(1).expect("usage: drive <driver> ...");
    match driver.as_str() {
        "graph-random" => graph_random(),
        "names-random" => names_random(),
        other => {
            eprintln!("unknown driver {other}");
            std::process::exit(2);
        }
    }
}

/// C15 beyond the exhaustive universes: random abstract names rendered to strings, the real
/// verdicts logged for validation against the TLA+ contract (spec/TraceNames.tla).
fn names_random() {
    use wac_types::{are_semver_compatible, NameMap, NameMapNoIntern};
    let seed: u64 = arg("--seed", "1").parse().unwrap();
    let n: usize = arg("--events", "2000").parse().unwrap();
    let out_path = arg("--out", "names.ndjson");
    let mut rng = StdRng::seed_from_u64(seed);
    let bases = [
        "a", "ns:pkg/iface", "ns:pkg/iface-two", "ns:pkg/ifac", "wasi:http/incoming-handler",
        "my-org:very-long-package-name/some-interface-name", "x:y/z",
    ];
    let pres = ["-rc.1", "-alpha", "-0.3.7", "-x-y.z", "-rc.1.2.3"];
    let builds = ["+b.7-x", "+001", "+exp.sha.5114f85", "+a-b"];
    let malformed = ["1", "1.2", "1.2.3.4", "v1.0.0", "01.2.3", "", "1.0.0-", "1.x.0", "1.0.0+", "1.0.0-01"];
    let nums: [u64; 12] = [0, 0, 0, 1, 1, 2, 3, 9, 10, 11, 100, 999_999];
    // an abstract name and its rendering
    let gen = |rng: &mut StdRng| -> (Value, String) {
        let base = *bases.choose(rng).unwrap();
        match rng.gen_range(0..10) {
            0 => (json!({"base": base, "ver": [], "pre": false, "build": false, "text": ""}), base.to_string()),
            1 => {
                let m = *malformed.choose(rng).unwrap();
                (
                    json!({"base": format!("{base}@{m}"), "ver": [], "pre": false, "build": false, "text": m}),
                    format!("{base}@{m}"),
                )
            }
            _ => {
                let v: Vec<u64> = (0..3).map(|_| *nums.choose(rng).unwrap()).collect();
                let pre = if rng.gen_ratio(1, 5) { *pres.choose(rng).unwrap() } else { "" };
                let build = if rng.gen_ratio(1, 4) { *builds.choose(rng).unwrap() } else { "" };
                let text = format!("{pre}{build}");
                (
                    json!({"base": base, "ver": v, "pre": !pre.is_empty(), "build": !build.is_empty(), "text": text}),
                    format!("{base}@{}.{}.{}{text}", v[0], v[1], v[2]),
                )
            }
        }
    };
    let mut out = std::io::BufWriter::new(std::fs::File::create(&out_path).unwrap());
    let mut pool: Vec<(Value, String)> = (0..40).map(|_| gen(&mut rng)).collect();
    for i in 0..n {
        if i % 50 == 0 {
            // refresh part of the pool so that related names (same base/track) keep meeting
            for _ in 0..10 {
                let k = rng.gen_range(0..pool.len());
                pool[k] = gen(&mut rng);
            }
        }
        if rng.gen_bool(0.5) {
            let (x, xs) = pool.choose(&mut rng).unwrap().clone();
            let (y, ys) = pool.choose(&mut rng).unwrap().clone();
            let res = are_semver_compatible(&xs, &ys);
            writeln!(out, "{}", json!({"a": "compat", "x": x, "y": y, "res": res, "xs": xs, "ys": ys})).unwrap();
        } else {
            let k = rng.gen_range(1..=5);
            let ins: Vec<(Value, String)> = (0..k).map(|_| pool.choose(&mut rng).unwrap().clone()).collect();
            let (q, qs) = pool.choose(&mut rng).unwrap().clone();
            let mut map: NameMap<String, u64> = NameMap::default();
            let mut cx = NameMapNoIntern;
            for (p, (_, s)) in ins.iter().enumerate() {
                map.insert(s, &mut cx, true, p as u64 + 1).unwrap();
            }
            let got = map.get(&qs, &cx).copied().unwrap_or(0);
            writeln!(
                out,
                "{}",
                json!({"a": "map", "ins": ins.iter().map(|x| x.0.clone()).collect::<Vec<_>>(), "q": q, "got": got,
                       "strings": ins.iter().map(|x| x.1.clone()).collect::<Vec<_>>(), "qs": qs})
            )
            .unwrap();
        }
    }
    out.flush().unwrap();
    println!("{}", json!({"summary": true, "events": n, "seed": seed}));
}

/// known-finding shapes the driver can recognise from its own bookkeeping (same predicates as
/// KnownFindings in spec/GraphImpl.tla)
fn kf_flags(lib: &Lib, m: &Machine, proj: &Value) -> Vec<String> {
    let mut flags = Vec::new();
    let defs: Vec<&Value> = proj["nodes"]
        .as_array()
        .unwrap()
        .iter()
        .filter(|n| n["k"] == "def")
        .collect();
    let defined: Vec<&str> = defs.iter().filter_map(|n| n["item"]["id"].as_str()).collect();
    for d in &defined {
        if let Some((_, deps)) = lib.deftypes.get(*d) {
            if deps.iter().any(|x| !defined.contains(&x.as_str())) {
                flags.push("undefined-dependency".to_string());
                break;
            }
        }
    }
    for n in &defs {
        let id = n["id"].as_u64().unwrap();
        let names = proj["exports"]
            .as_array()
            .unwrap()
            .iter()
            .filter(|e| e["node"].as_u64() == Some(id))
            .count();
        if names > 1 {
            flags.push("definition-renamed".to_string());
            break;
        }
    }
    let _ = m;
    flags
}

fn graph_random() {
    let data = arg("--data", "data");
    let libname = arg("--lib", "core");
    let seed: u64 = arg("--seed", "1").parse().unwrap();
    let runs: usize = arg("--runs", "50").parse().unwrap();
    let len: usize = arg("--len", "100").parse().unwrap();
    let max_nodes: usize = arg("--max-nodes", "10").parse().unwrap();
    let out_path = arg("--out", "trace.ndjson");
    let lib = Lib::load(&data, &libname).unwrap_or_else(|e| {
        eprintln!("cannot load library: {e:#}");
        std::process::exit(2)
    });
    let v: Value = serde_json::from_str(&std::fs::read_to_string(format!("{data}/{libname}.json")).unwrap()).unwrap();
    let names = |k: &str| -> Vec<String> {
        v["names"][k]
            .as_array()
            .map(|a| a.iter().map(|x| x.as_str().unwrap().to_string()).collect())
            .unwrap_or_default()
    };
    let import_names = names("import");
    let export_names = names("export");
    let def_names = names("def");
    let pkgs: Vec<String> = lib.pkgs.keys().cloned().collect();
    let kinds: Vec<String> = lib.kinds.keys().cloned().collect();
    let deftypes: Vec<String> = lib.deftypes.keys().cloned().collect();
    let mut arg_names: Vec<String> = lib
        .pkgs
        .values()
        .flat_map(|p| p.imports.iter().map(|x| x.0.clone()))
        .collect();
    arg_names.push("bogus".into());
    arg_names.sort();
    arg_names.dedup();
    let mut exp_names: Vec<String> = Vec::new();
    fn collect(k: &Value, out: &mut Vec<String>) {
        if let Some(ex) = k["ex"].as_object() {
            for (n, kk) in ex {
                out.push(n.clone());
                collect(kk, out);
            }
        }
    }
    for p in lib.pkgs.values() {
        for (n, k) in &p.exports {
            exp_names.push(n.clone());
            collect(k, &mut exp_names);
        }
    }
    for k in lib.kinds.values() {
        collect(k, &mut exp_names);
    }
    exp_names.push("bogus".into());
    exp_names.sort();
    exp_names.dedup();

    let world = World::new(&lib).unwrap();
    let mut rng = StdRng::seed_from_u64(seed);
    let mut out = std::io::BufWriter::new(std::fs::File::create(&out_path).unwrap());
    let hist_path = arg("--hist-out", "");
    let mut hist_out = if hist_path.is_empty() {
        None
    } else {
        Some(std::io::BufWriter::new(std::fs::File::create(&hist_path).unwrap()))
    };
    let stdout = std::io::stdout();
    let mut so = stdout.lock();
    let (mut events, mut encodes, mut ok_ops) = (0usize, 0usize, 0usize);
    for run in 0..runs {
        writeln!(out, "{}", json!({"a": "reset", "run": run})).unwrap();
        events += 1;
        let mut m = Machine::new(&world);
        let mut history: Vec<Value> = Vec::new();
        // the accepted operations of the run: a history that rebuilds the same graph (C16 re-execution)
        let mut accepted: Vec<Value> = Vec::new();
        for step in 0..len {
            if step + 1 == len || step % 25 == 24 {
                if let Some(h) = hist_out.as_mut() {
                    writeln!(h, "{}", json!({"hist": accepted})).unwrap();
                }
            }
            let live: Vec<u64> = m.nodes.keys().copied().collect();
            let pick = |rng: &mut StdRng, v: &Vec<String>| -> String {
                v.choose(rng).cloned().unwrap_or_else(|| "-".into())
            };
            let node = |rng: &mut StdRng| -> Option<u64> { live.choose(rng).copied() };
            let reg: Vec<String> = m.reg.keys().cloned().collect();
            let room = live.len() < max_nodes;
            // weighted choice of an operation kind; creating kinds only while there is room
            let w: u32 = rng.gen_range(0..100);
            let op = match w {
                0..=7 => Some(Op::new("register", 0, 0, &pick(&mut rng, &pkgs), "-")),
                8..=10 if !reg.is_empty() => Some(Op::new("unregister", 0, 0, &pick(&mut rng, &reg), "-")),
                11..=17 if room && !deftypes.is_empty() && !def_names.is_empty() => Some(Op::new(
                    "define_type",
                    0,
                    0,
                    &pick(&mut rng, &def_names),
                    &pick(&mut rng, &deftypes),
                )),
                18..=25 if room && !kinds.is_empty() => Some(Op::new(
                    "import",
                    0,
                    0,
                    &pick(&mut rng, &import_names),
                    &pick(&mut rng, &kinds),
                )),
                26..=37 if room && !reg.is_empty() => Some(Op::new("instantiate", 0, 0, &pick(&mut rng, &reg), "-")),
                38..=50 if room => node(&mut rng).map(|n| Op::new("alias", n, 0, &pick(&mut rng, &exp_names), "-")),
                51..=68 => match (node(&mut rng), node(&mut rng)) {
                    (Some(i), Some(s)) => Some(Op::new("set_arg", i, s, &pick(&mut rng, &arg_names), "-")),
                    _ => None,
                },
                69..=74 => match (node(&mut rng), node(&mut rng)) {
                    (Some(i), Some(s)) => Some(Op::new("unset_arg", i, s, &pick(&mut rng, &arg_names), "-")),
                    _ => None,
                },
                75..=82 => node(&mut rng).map(|n| Op::new("export", n, 0, &pick(&mut rng, &export_names), "-")),
                83..=86 => node(&mut rng).map(|n| Op::new("unexport", n, 0, "-", "-")),
                87..=90 => node(&mut rng).map(|n| Op::new("set_name", n, 0, "-", "-")),
                91..=97 => node(&mut rng).map(|n| Op::new("remove", n, 0, "-", "-")),
                _ => None,
            };
            let op = match op {
                Some(o) => o,
                None => continue,
            };
            // set_arg with a plausible name more often: pick an import name of the target
            let op = if (op.op == "set_arg" || op.op == "unset_arg") && rng.gen_bool(0.7) {
                let mut o = op.clone();
                if let Some(real) = m.nodes.get(&o.n1) {
                    if let Some(pid) = m.world.graph[*real].package() {
                        if let Some((k, _)) = m.reg.iter().find(|(_, v)| **v == pid) {
                            let names: Vec<String> = lib.pkgs[k].imports.iter().map(|x| x.0.clone()).collect();
                            if let Some(n) = names.choose(&mut rng) {
                                o.s1 = n.clone();
                            }
                        }
                    }
                }
                o
            } else {
                op
            };
            let a = m.apply(&op);
            history.push(op.to_json());
            if a.tag == "ok" {
                accepted.push(op.to_json());
            }
            if let Some(p) = &a.problem {
                writeln!(so, "{}", json!({"class": "result", "what": p, "op": op.to_json(), "run": run, "step": step, "seed": seed, "hist": history})).unwrap();
            }
            if a.tag == "panic" {
                writeln!(so, "{}", json!({"class": "panic", "what": format!("{} panicked: {}", op.op, a.detail), "op": op.to_json(), "run": run, "step": step, "seed": seed, "hist": history})).unwrap();
                break;
            }
            let inv = m.world.graph.verif_invariants();
            if !inv.is_empty() {
                writeln!(so, "{}", json!({"class": "invariant", "what": inv.join("; "), "op": op.to_json(), "run": run, "step": step, "seed": seed, "hist": history})).unwrap();
                break;
            }
            let proj = match m.project(&lib) {
                Ok(p) => p,
                Err(e) => {
                    writeln!(so, "{}", json!({"class": "state", "what": e, "op": op.to_json(), "run": run, "step": step, "seed": seed, "hist": history})).unwrap();
                    break;
                }
            };
            for q in m.query_check(&proj) {
                writeln!(so, "{}", json!({"class": "query", "what": q, "op": op.to_json(), "run": run, "step": step, "seed": seed, "hist": history})).unwrap();
            }
            let count = |k: &str, t: Option<&str>| -> u64 {
                proj[k]
                    .as_array()
                    .unwrap()
                    .iter()
                    .filter(|e| t.map(|t| e["t"] == t).unwrap_or(true))
                    .count() as u64
            };
            let d = json!([
                count("nodes", None),
                count("edges", Some("arg")),
                count("edges", Some("alias")),
                count("exports", None),
                count("reg", None)
            ]);
            writeln!(
                out,
                "{}",
                json!({"a": "op", "o": op.to_json(), "res": a.tag, "ret": a.ret, "d": d, "imp": proj["implicit"], "run": run, "step": step})
            )
            .unwrap();
            events += 1;
            if a.tag == "ok" {
                ok_ops += 1;
            }
            // encode now and then (and always at the end of a run)
            if rng.gen_ratio(1, 8) || step + 1 == len {
                let dc = rng.gen_bool(0.5);
                let (tag, detail, bytes) = m.encode(dc, false);
                encodes += 1;
                let flags = kf_flags(&lib, &m, &proj);
                let mut logged = true;
                if let Some(bytes) = &bytes {
                    if let Err(e) = validate(bytes) {
                        logged = false;
                        writeln!(so, "{}", json!({"class": "encode_invalid", "what": format!("encode returned Ok but the reference validator rejects the bytes: {e}"), "op": ["encode", dc, false], "kf": flags, "run": run, "step": step, "seed": seed, "hist": history})).unwrap();
                    }
                }
                if tag == "ValidationFailure" || tag == "panic" {
                    logged = false;
                    writeln!(so, "{}", json!({"class": "encode_class", "what": format!("encode returned {tag} ({detail})"), "op": ["encode", dc, false], "kf": flags, "run": run, "step": step, "seed": seed, "hist": history})).unwrap();
                }
                if logged {
                    writeln!(out, "{}", json!({"a": "encode", "res": tag, "run": run, "step": step})).unwrap();
                    events += 1;
                }
            }
        }
    }
    out.flush().unwrap();
    writeln!(so, "{}", json!({"summary": true, "events": events, "runs": runs, "encodes": encodes, "ok_ops": ok_ops, "seed": seed})).unwrap();
}
