//! Conformance harness binding the TLA+ specifications under /verif/spec to the real wac crates.
pub mod decode;
pub mod describe;
pub mod glib;
pub mod graphreplay;
pub mod namesreplay;
pub mod plugreplay;
pub mod util;
pub mod canon;
