//! Structural description of wac-types items through the public `Types` API.
use serde_json::{json, Map, Value};
use std::collections::HashMap;
use wac_types::{DefinedType, FuncType, ItemKind, Type, Types, ValueType};

/// Canonical structural text of a value type.
pub fn value_desc(types: &Types, ty: ValueType) -> String {
    match ty {
        ValueType::Primitive(p) => p.desc().to_string(),
        ValueType::Borrow(r) => format!("borrow<{}>", types[types.resolve_resource(r)].name),
        ValueType::Own(r) => format!("own<{}>", types[types.resolve_resource(r)].name),
        ValueType::Defined(id) => match &types[id] {
            DefinedType::Tuple(ts) => format!(
                "tuple<{}>",
                ts.iter().map(|t| value_desc(types, *t)).collect::<Vec<_>>().join(",")
            ),
            DefinedType::List(t) => format!("list<{}>", value_desc(types, *t)),
            DefinedType::FixedSizeList(t, n) => format!("list<{},{n}>", value_desc(types, *t)),
            DefinedType::Option(t) => format!("option<{}>", value_desc(types, *t)),
            DefinedType::Result { ok, err } => format!(
                "result<{},{}>",
                ok.map(|t| value_desc(types, t)).unwrap_or_else(|| "_".into()),
                err.map(|t| value_desc(types, t)).unwrap_or_else(|| "_".into())
            ),
            DefinedType::Variant(v) => format!(
                "variant{{{}}}",
                v.cases
                    .iter()
                    .map(|(n, t)| match t {
                        Some(t) => format!("{n}({})", value_desc(types, *t)),
                        None => n.clone(),
                    })
                    .collect::<Vec<_>>()
                    .join(",")
            ),
            DefinedType::Record(r) => format!(
                "record{{{}}}",
                r.fields
                    .iter()
                    .map(|(n, t)| format!("{n}:{}", value_desc(types, *t)))
                    .collect::<Vec<_>>()
                    .join(",")
            ),
            DefinedType::Flags(f) => format!(
                "flags{{{}}}",
                f.0.iter().cloned().collect::<Vec<_>>().join(",")
            ),
            DefinedType::Enum(e) => format!(
                "enum{{{}}}",
                e.0.iter().cloned().collect::<Vec<_>>().join(",")
            ),
            DefinedType::Alias(t) => value_desc(types, *t),
            DefinedType::Stream(t) => format!(
                "stream<{}>",
                t.map(|t| value_desc(types, t)).unwrap_or_else(|| "_".into())
            ),
            DefinedType::Future(t) => format!(
                "future<{}>",
                t.map(|t| value_desc(types, t)).unwrap_or_else(|| "_".into())
            ),
        },
    }
}

/// Canonical structural text of a function type: `(a:u32,b:string)->u32`.
pub fn func_desc(types: &Types, f: &FuncType) -> String {
    format!(
        "{}({})->{}",
        if f.is_async { "async " } else { "" },
        f.params
            .iter()
            .map(|(n, t)| format!("{n}:{}", value_desc(types, *t)))
            .collect::<Vec<_>>()
            .join(","),
        f.result
            .map(|t| value_desc(types, t))
            .unwrap_or_else(|| "_".into())
    )
}

/// Maps real item kinds to the abstract kinds of a library (spec/Types.tla).
#[derive(Default, Clone)]
pub struct KindMap {
    /// structural function text -> signature name
    pub sigs: HashMap<String, String>,
    /// definable type -> abstract id
    pub deftypes: HashMap<Type, String>,
}

impl KindMap {
    /// The abstract kind term (JSON, same shape as ToJson of a spec kind) of a real item kind.
    pub fn kind(&self, types: &Types, kind: ItemKind) -> Value {
        match kind {
            ItemKind::Func(id) => {
                let d = func_desc(types, &types[id]);
                match self.sigs.get(&d) {
                    Some(s) => json!({"c": "func", "sig": s}),
                    None => json!({"c": "func", "sig": format!("?{d}")}),
                }
            }
            ItemKind::Instance(id) => {
                let mut ex = Map::new();
                for (n, k) in &types[id].exports {
                    ex.insert(n.clone(), self.kind(types, *k));
                }
                json!({"c": "inst", "ex": Value::Object(ex)})
            }
            ItemKind::Type(t) => match (self.deftypes.get(&t), t) {
                (Some(id), _) => json!({"c": "type", "id": id}),
                // a type item that is not one of the definable types: described structurally
                (None, Type::Value(v)) => json!({"c": "rtype", "desc": value_desc(types, v)}),
                (None, _) => json!({"c": "type", "id": format!("?{}", t.desc(types))}),
            },
            ItemKind::Component(_) => json!({"c": "comp"}),
            ItemKind::Module(_) => json!({"c": "module"}),
            ItemKind::Value(v) => json!({"c": "value", "ty": value_desc(types, v)}),
        }
    }
}

/// Normalises a spec-side kind term: TLC prints an empty function as `[]`.
pub fn norm_kind(v: &Value) -> Value {
    match v {
        // type items are written {"c":"type","desc":..} by the decoder
        Value::Object(m) if m.get("c").and_then(|c| c.as_str()) == Some("rtype") => {
            json!({"c": "type", "desc": m["desc"]})
        }
        Value::Object(m) => {
            let mut out = Map::new();
            for (k, x) in m {
                if k == "ex" {
                    match x {
                        Value::Array(a) if a.is_empty() => {
                            out.insert(k.clone(), Value::Object(Map::new()));
                        }
                        Value::Object(e) => {
                            let mut ex = Map::new();
                            for (n, kk) in e {
                                ex.insert(n.clone(), norm_kind(kk));
                            }
                            out.insert(k.clone(), Value::Object(ex));
                        }
                        other => {
                            out.insert(k.clone(), other.clone());
                        }
                    }
                } else {
                    out.insert(k.clone(), x.clone());
                }
            }
            Value::Object(out)
        }
        other => other.clone(),
    }
}
