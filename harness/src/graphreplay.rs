//! Executes graph-model operations against the real `CompositionGraph` and projects its state
//! into the vocabulary of spec/GraphImpl.tla.
use crate::decode;
use crate::describe::norm_kind;
use crate::glib::{Lib, World};
use crate::util::{guarded, validate};
use serde_json::{json, Value};
use std::collections::{BTreeMap, BTreeSet, HashSet};
use wac_graph::{
    AliasError, DefineTypeError, EncodeError, EncodeOptions, ExportError, ImportError,
    InstantiationArgumentError, NodeId, NodeKind, PackageId, RegisterPackageError, UnexportError,
};

/// `[op, n1, n2, s1, s2]` as printed by the spec (OpSeq).
#[derive(Clone, Debug)]
pub struct Op {
    pub op: String,
    pub n1: u64,
    pub n2: u64,
    pub s1: String,
    pub s2: String,
}

impl Op {
    pub fn new(op: &str, n1: u64, n2: u64, s1: &str, s2: &str) -> Op {
        Op {
            op: op.into(),
            n1,
            n2,
            s1: s1.into(),
            s2: s2.into(),
        }
    }
    pub fn from_json(v: &Value) -> Op {
        Op {
            op: v[0].as_str().unwrap().to_string(),
            n1: v[1].as_u64().unwrap(),
            n2: v[2].as_u64().unwrap(),
            s1: v[3].as_str().unwrap().to_string(),
            s2: v[4].as_str().unwrap().to_string(),
        }
    }
    pub fn to_json(&self) -> Value {
        json!([self.op, self.n1, self.n2, self.s1, self.s2])
    }
}

/// The name `set_name` gives a node: nodes of the same parity share a name, so that names are neither
/// unique within an index space nor across index spaces (the name section must still list every one).
pub fn node_name(id: u64) -> String {
    format!("nm{}", id % 2)
}

/// The real graph plus the harness-owned map from spec identifiers to real identifiers.
#[derive(Clone)]
pub struct Machine {
    pub world: World,
    pub reg: BTreeMap<String, PackageId>,
    pub nodes: BTreeMap<u64, NodeId>,
    /// every package id ever handed out (identifiers of removed packages must not come back)
    pub seen_pkg_ids: HashSet<PackageId>,
    /// identifiers of unregistered packages: every call with one of them must be refused (documented panic)
    pub dead_pkg_ids: Vec<PackageId>,
}

#[derive(Debug, Clone)]
pub struct Applied {
    /// "ok", an error variant name, or "panic"
    pub tag: String,
    pub detail: String,
    /// spec id of the node returned by the call (existing or newly bound), 0 if none
    pub ret: u64,
    /// whether the returned node was newly bound
    pub fresh: bool,
    /// harness-level problem observed while applying
    pub problem: Option<String>,
}

type Inner = Result<Option<NodeId>, (&'static str, String)>;

impl Machine {
    pub fn new(world: &World) -> Machine {
        Machine {
            world: world.clone(),
            reg: BTreeMap::new(),
            nodes: BTreeMap::new(),
            seen_pkg_ids: HashSet::new(),
            dead_pkg_ids: Vec::new(),
        }
    }

    /// The identifier of an unregistered package stays invalid, also after its slot was reused:
    /// `instantiate`, `unregister_package` and indexing are documented to panic for it.
    pub fn stale_package_probe(&self) -> Vec<String> {
        let mut bad = Vec::new();
        for id in &self.dead_pkg_ids {
            let id = *id;
            let mut g = self.world.graph.clone();
            if crate::util::guarded(move || {
                let _ = g.instantiate(id);
            })
            .is_ok()
            {
                bad.push(format!("instantiate() accepted the identifier {id:?} of an unregistered package"));
            }
            let mut g = self.world.graph.clone();
            if crate::util::guarded(move || g.unregister_package(id)).is_ok() {
                bad.push(format!("unregister_package() accepted the identifier {id:?} of an unregistered package"));
            }
            let g = self.world.graph.clone();
            if crate::util::guarded(move || {
                let _ = g[id].name().to_string();
            })
            .is_ok()
            {
                bad.push(format!("indexing accepted the identifier {id:?} of an unregistered package"));
            }
        }
        bad
    }

    pub fn node(&self, n: u64) -> NodeId {
        *self
            .nodes
            .get(&n)
            .unwrap_or_else(|| panic!("harness: spec node {n} is not mapped"))
    }

    pub fn spec_id(&self, real: NodeId) -> Option<u64> {
        self.nodes.iter().find(|(_, v)| **v == real).map(|(k, _)| *k)
    }

    fn min_free(&self) -> u64 {
        (1..).find(|i| !self.nodes.contains_key(i)).unwrap()
    }

    /// drop map entries whose real node died (the real graph reuses indices)
    fn prune(&mut self) {
        let live: HashSet<NodeId> = self.world.graph.node_ids().collect();
        self.nodes.retain(|_, v| live.contains(v));
    }

    fn run(&mut self, op: &Op, problem: &mut Option<String>) -> Inner {
        let g = &mut self.world.graph;
        match op.op.as_str() {
            "register" => {
                let pkg = self.world.packages[&op.s1].clone();
                match g.register_package(pkg) {
                    Ok(id) => {
                        if !self.seen_pkg_ids.insert(id) {
                            *problem = Some(format!("package id {id:?} was handed out before"));
                        }
                        self.reg.insert(op.s1.clone(), id);
                        Ok(None)
                    }
                    Err(e @ RegisterPackageError::PackageAlreadyRegistered { .. }) => {
                        Err(("PackageAlreadyRegistered", e.to_string()))
                    }
                }
            }
            "unregister" => {
                let id = self.reg[&op.s1];
                g.unregister_package(id);
                self.reg.remove(&op.s1);
                self.dead_pkg_ids.push(id);
                Ok(None)
            }
            "define_type" => {
                let ty = self.world.def_types[&op.s2];
                g.define_type(op.s1.clone(), ty).map(Some).map_err(|e| {
                    (
                        match e {
                            DefineTypeError::TypeAlreadyDefined => "TypeAlreadyDefined",
                            DefineTypeError::CannotDefineResource => "CannotDefineResource",
                            DefineTypeError::ExportConflict { .. } => "ExportConflict",
                            DefineTypeError::InvalidExternName { .. } => "InvalidExternName",
                        },
                        e.to_string(),
                    )
                })
            }
            "import" => {
                let kind = self.world.kind_items[&op.s2];
                match g.import(op.s1.clone(), kind) {
                    Ok(n) => Ok(Some(n)),
                    Err(e) => Err((
                        match &e {
                            ImportError::ImportAlreadyExists { name, node } => {
                                if g.get_import_name(*node) != Some(name.as_str()) {
                                    *problem = Some(format!(
                                        "ImportAlreadyExists names node {node} which does not hold `{name}`"
                                    ));
                                }
                                "ImportAlreadyExists"
                            }
                            ImportError::InvalidImportName { .. } => "InvalidImportName",
                        },
                        e.to_string(),
                    )),
                }
            }
            "instantiate" => Ok(Some(g.instantiate(self.reg[&op.s1]))),
            "alias" => {
                let src = self.nodes[&op.n1];
                g.alias_instance_export(src, &op.s1).map(Some).map_err(|e| {
                    (
                        match e {
                            AliasError::NodeIsNotAnInstance { .. } => "NodeIsNotAnInstance",
                            AliasError::InstanceMissingExport { .. } => "InstanceMissingExport",
                        },
                        e.to_string(),
                    )
                })
            }
            "set_arg" | "unset_arg" => {
                let i = self.nodes[&op.n1];
                let s = self.nodes[&op.n2];
                let r = if op.op == "set_arg" {
                    g.set_instantiation_argument(i, &op.s1, s)
                } else {
                    g.unset_instantiation_argument(i, &op.s1, s)
                };
                r.map(|_| None).map_err(|e| {
                    (
                        match e {
                            InstantiationArgumentError::NodeIsNotAnInstantiation { .. } => {
                                "NodeIsNotAnInstantiation"
                            }
                            InstantiationArgumentError::InvalidArgumentName { .. } => {
                                "InvalidArgumentName"
                            }
                            InstantiationArgumentError::ArgumentTypeMismatch { .. } => {
                                "ArgumentTypeMismatch"
                            }
                            InstantiationArgumentError::ArgumentAlreadyPassed { .. } => {
                                "ArgumentAlreadyPassed"
                            }
                        },
                        e.to_string(),
                    )
                })
            }
            "export" => {
                let n = self.nodes[&op.n1];
                match g.export(n, op.s1.clone()) {
                    Ok(()) => Ok(None),
                    Err(e) => Err((
                        match &e {
                            ExportError::ExportAlreadyExists { name, node } => {
                                if g.get_export(name) != Some(*node) {
                                    *problem = Some(format!(
                                        "ExportAlreadyExists names node {node} which does not hold `{name}`"
                                    ));
                                }
                                "ExportAlreadyExists"
                            }
                            ExportError::InvalidExportName { .. } => "InvalidExportName",
                        },
                        e.to_string(),
                    )),
                }
            }
            "unexport" => {
                let n = self.nodes[&op.n1];
                g.unexport(n).map(|_| None).map_err(|e| {
                    (
                        match e {
                            UnexportError::MustExportDefinition => "MustExportDefinition",
                        },
                        e.to_string(),
                    )
                })
            }
            "set_name" => {
                let n = self.nodes[&op.n1];
                g.set_node_name(n, node_name(op.n1));
                Ok(None)
            }
            "remove" => {
                let n = self.nodes[&op.n1];
                g.remove_node(n);
                Ok(None)
            }
            other => panic!("harness: unknown op {other}"),
        }
    }

    pub fn apply(&mut self, op: &Op) -> Applied {
        let mut problem = None;
        let r = guarded(|| self.run(op, &mut problem));
        // an operation that reports an error or panics must not have been given dead ids:
        // all ids come from the map, which is pruned after every call.
        match r {
            Ok(Ok(node)) => {
                self.prune();
                let (ret, fresh) = match node {
                    Some(n) => match self.spec_id(n) {
                        Some(id) => (id, false),
                        None => {
                            let id = self.min_free();
                            self.nodes.insert(id, n);
                            (id, true)
                        }
                    },
                    None => (0, false),
                };
                // a slot may just have been reused: the identifiers of the packages that died stay invalid
                if op.op == "register" && problem.is_none() && !self.dead_pkg_ids.is_empty() {
                    problem = self.stale_package_probe().into_iter().next();
                }
                Applied {
                    tag: "ok".into(),
                    detail: String::new(),
                    ret,
                    fresh,
                    problem,
                }
            }
            Ok(Err((tag, detail))) => {
                self.prune();
                Applied {
                    tag: tag.into(),
                    detail,
                    ret: 0,
                    fresh: false,
                    problem,
                }
            }
            Err(msg) => {
                let _ = guarded(|| self.prune());
                Applied {
                    tag: "panic".into(),
                    detail: msg,
                    ret: 0,
                    fresh: false,
                    problem,
                }
            }
        }
    }

    /// The internal bookkeeping (hook H1) translated into spec identifiers and names.
    pub fn project(&self, lib: &Lib) -> Result<Value, String> {
        let g = &self.world.graph;
        let snap: Value = serde_json::from_str(&g.verif_snapshot()).map_err(|e| e.to_string())?;
        let rev_nodes: BTreeMap<u64, u64> = self
            .nodes
            .iter()
            .map(|(k, v)| (v.verif_index() as u64, *k))
            .collect();
        let rev_pkgs: BTreeMap<(u64, u64), String> = self
            .reg
            .iter()
            .map(|(k, v)| {
                let (i, gen) = v.verif_parts();
                ((i as u64, gen as u64), k.clone())
            })
            .collect();
        let sid = |real: u64| -> Result<u64, String> {
            rev_nodes
                .get(&real)
                .copied()
                .ok_or_else(|| format!("real node {real} is live but unknown to the history"))
        };
        let mut nodes = Vec::new();
        let mut node_pkg: BTreeMap<u64, String> = BTreeMap::new();
        for n in snap["nodes"].as_array().unwrap() {
            let real = n["id"].as_u64().unwrap();
            let id = sid(real)?;
            let pkg = match &n["pkg"] {
                Value::Null => "-".to_string(),
                p => {
                    let key = (p[0].as_u64().unwrap(), p[1].as_u64().unwrap());
                    rev_pkgs
                        .get(&key)
                        .cloned()
                        .unwrap_or_else(|| format!("?stale{key:?}"))
                }
            };
            node_pkg.insert(real, pkg.clone());
            let real_id = self.nodes[&id];
            let item = self.world.kmap.kind(g.types(), g[real_id].item_kind());
            let sat: BTreeSet<String> = match &n["sat"] {
                Value::Array(a) => {
                    let imports = lib.pkgs.get(&pkg).map(|p| &p.imports);
                    a.iter()
                        .map(|i| {
                            let i = i.as_u64().unwrap() as usize;
                            imports
                                .and_then(|im| im.get(i))
                                .map(|x| x.0.clone())
                                .unwrap_or_else(|| format!("?{i}"))
                        })
                        .collect()
                }
                _ => BTreeSet::new(),
            };
            nodes.push(json!({
                "id": id,
                "k": n["kind"],
                "pkg": pkg,
                "item": item,
                "named": !n["name"].is_null(),
                "imp": n["import"].as_str().unwrap_or("-"),
                "sat": sat,
            }));
        }
        nodes.sort_by_key(|n| n["id"].as_u64());
        let mut edges = Vec::new();
        for e in snap["edges"].as_array().unwrap() {
            let src = e["src"].as_u64().unwrap();
            let dst = e["dst"].as_u64().unwrap();
            let t = e["t"].as_str().unwrap();
            let i = e["i"].as_i64().unwrap();
            let lab = match t {
                "arg" => lib
                    .pkgs
                    .get(node_pkg.get(&dst).map(|s| s.as_str()).unwrap_or(""))
                    .and_then(|p| p.imports.get(i as usize))
                    .map(|x| x.0.clone())
                    .unwrap_or_else(|| format!("?{i}")),
                "alias" => {
                    // export index of the source instance -> name, through the public API
                    let src_real = self.nodes[&sid(src)?];
                    match g[src_real].item_kind() {
                        wac_types::ItemKind::Instance(id) => g.types()[id]
                            .exports
                            .get_index(i as usize)
                            .map(|x| x.0.clone())
                            .unwrap_or_else(|| format!("?{i}")),
                        _ => format!("?noninstance{i}"),
                    }
                }
                _ => "-".to_string(),
            };
            edges.push(json!({"t": t, "src": sid(src)?, "dst": sid(dst)?, "lab": lab}));
        }
        let mut exports = Vec::new();
        for e in snap["exports"].as_array().unwrap() {
            let real = e[1].as_u64().unwrap();
            let node = rev_nodes.get(&real).copied();
            exports.push(json!({"name": e[0], "node": node.map(|x| json!(x)).unwrap_or(json!(format!("?dead{real}")))}));
        }
        let implicit: BTreeSet<String> = g
            .imports()
            .filter(|(_, _, n)| n.is_none())
            .map(|(n, _, _)| n.to_string())
            .collect();
        let reg: BTreeSet<&String> = self.reg.keys().collect();
        Ok(canon(&json!({
            "reg": reg,
            "nodes": nodes,
            "edges": edges,
            "exports": exports,
            "implicit": implicit,
        })))
    }

    /// Checks the public queries against the projected bookkeeping; returns discrepancies.
    pub fn query_check(&self, proj: &Value) -> Vec<String> {
        let g = &self.world.graph;
        let mut bad = Vec::new();
        let live: BTreeSet<NodeId> = g.node_ids().collect();
        let mapped: BTreeSet<NodeId> = self.nodes.values().copied().collect();
        if live != mapped {
            bad.push("node_ids() differs from the nodes created by the history".into());
        }
        if g.nodes().count() != live.len() {
            bad.push("nodes() and node_ids() disagree".into());
        }
        let pk: BTreeSet<String> = g.packages().map(|p| p.key().to_string()).collect();
        let want: BTreeSet<String> = self
            .reg
            .keys()
            .map(|k| {
                let p = &self.world.packages[k];
                p.key().to_string()
            })
            .collect();
        if pk != want {
            bad.push(format!("packages() = {pk:?}, registered = {want:?}"));
        }
        for (k, id) in &self.reg {
            let p = &self.world.packages[k];
            match g.get_package_by_name(p.name(), p.version()) {
                Some((got, _)) if got == *id => {}
                other => bad.push(format!(
                    "get_package_by_name({k}) = {:?}, expected {id:?}",
                    other.map(|x| x.0)
                )),
            }
        }
        // exports
        let mut export_names_of: BTreeMap<u64, BTreeSet<String>> = BTreeMap::new();
        for e in proj["exports"].as_array().unwrap() {
            let name = e["name"].as_str().unwrap();
            if let Some(n) = e["node"].as_u64() {
                export_names_of.entry(n).or_default().insert(name.to_string());
                if g.get_export(name) != Some(self.nodes[&n]) {
                    bad.push(format!("get_export({name}) disagrees with the exports map"));
                }
            }
        }
        for n in proj["nodes"].as_array().unwrap() {
            let id = n["id"].as_u64().unwrap();
            let real = self.nodes[&id];
            let node = &g[real];
            let names = export_names_of.get(&id).cloned().unwrap_or_default();
            match node.export_name() {
                Some(x) if names.contains(x) => {}
                None if names.is_empty() => {}
                other => bad.push(format!(
                    "node {id}: export_name() = {other:?} but the export names of the node are {names:?}"
                )),
            }
            let imp = n["imp"].as_str().unwrap();
            let want = if imp == "-" { None } else { Some(imp) };
            if g.get_import_name(real) != want || node.import_name() != want {
                bad.push(format!("node {id}: get_import_name disagrees"));
            }
            let kind_ok = matches!(
                (n["k"].as_str().unwrap(), node.kind()),
                ("def", NodeKind::Definition)
                    | ("imp", NodeKind::Import(_))
                    | ("inst", NodeKind::Instantiation(_))
                    | ("alias", NodeKind::Alias)
            );
            if !kind_ok {
                bad.push(format!("node {id}: kind() disagrees"));
            }
            let pkg = n["pkg"].as_str().unwrap();
            let want_pkg = self.reg.get(pkg).copied();
            if node.package() != want_pkg {
                bad.push(format!("node {id}: package() disagrees"));
            }
            // arguments and alias source through the public queries
            let args: BTreeSet<(String, u64)> = g
                .get_instantiation_arguments(real)
                .map(|(a, s)| (a.to_string(), self.spec_id(s).unwrap_or(0)))
                .collect();
            let want_args: BTreeSet<(String, u64)> = proj["edges"]
                .as_array()
                .unwrap()
                .iter()
                .filter(|e| e["t"] == "arg" && e["dst"].as_u64() == Some(id))
                .map(|e| (e["lab"].as_str().unwrap().to_string(), e["src"].as_u64().unwrap()))
                .collect();
            if args != want_args {
                bad.push(format!(
                    "node {id}: get_instantiation_arguments = {args:?}, edges say {want_args:?}"
                ));
            }
            let alias = g
                .get_alias_source(real)
                .map(|(s, e)| (self.spec_id(s).unwrap_or(0), e.to_string()));
            let want_alias = proj["edges"]
                .as_array()
                .unwrap()
                .iter()
                .find(|e| e["t"] == "alias" && e["dst"].as_u64() == Some(id))
                .map(|e| (e["src"].as_u64().unwrap(), e["lab"].as_str().unwrap().to_string()));
            if alias != want_alias {
                bad.push(format!(
                    "node {id}: get_alias_source = {alias:?}, edges say {want_alias:?}"
                ));
            }
        }
        // imports(): explicit entries are exactly the import nodes
        let explicit: BTreeSet<(String, u64)> = g
            .imports()
            .filter_map(|(n, _, id)| id.map(|id| (n.to_string(), self.spec_id(id).unwrap_or(0))))
            .collect();
        let want_explicit: BTreeSet<(String, u64)> = proj["nodes"]
            .as_array()
            .unwrap()
            .iter()
            .filter(|n| n["k"] == "imp")
            .map(|n| (n["imp"].as_str().unwrap().to_string(), n["id"].as_u64().unwrap()))
            .collect();
        if explicit != want_explicit {
            bad.push(format!(
                "imports() explicit = {explicit:?}, import nodes = {want_explicit:?}"
            ));
        }
        bad
    }

    /// Encodes under the given options; returns the class tag and, when ok, the bytes.
    pub fn encode(&self, define_components: bool, validate_flag: bool) -> (String, String, Option<Vec<u8>>) {
        let g = &self.world.graph;
        let r = guarded(|| {
            g.encode(EncodeOptions {
                define_components,
                validate: validate_flag,
                processor: None,
            })
        });
        match r {
            Err(p) => ("panic".into(), p, None),
            Ok(Ok(bytes)) => ("ok".into(), String::new(), Some(bytes)),
            Ok(Err(e)) => {
                let tag = match &e {
                    EncodeError::ValidationFailure { .. } => "ValidationFailure",
                    EncodeError::GraphContainsCycle { .. } => "GraphContainsCycle",
                    EncodeError::ImplicitImportConflict { .. } => "ImplicitImportConflict",
                    EncodeError::ImportTypeMergeConflict { .. } => "ImportTypeMergeConflict",
                };
                let mut detail = e.to_string();
                if let EncodeError::ValidationFailure { source } = &e {
                    detail = format!("{detail}: {source}");
                }
                (tag.into(), detail, None)
            }
        }
    }
}

/// Canonical form for comparison: arrays of the projection are compared as sets.
pub fn canon(v: &Value) -> Value {
    match v {
        Value::Array(a) => {
            let mut items: Vec<Value> = a.iter().map(canon).collect();
            items.sort_by_key(|x| x.to_string());
            Value::Array(items)
        }
        Value::Object(m) => {
            let mut out = serde_json::Map::new();
            for (k, x) in m {
                if k == "item" {
                    out.insert(k.clone(), norm_kind(x));
                } else {
                    out.insert(k.clone(), canon(x));
                }
            }
            Value::Object(out)
        }
        other => other.clone(),
    }
}

/// A violation found while replaying one REPLAY line.
#[derive(Debug, Clone)]
pub struct Finding {
    /// class: result | state | invariant | query | panic | digest | ret | encode_class | encode_invalid | wiring | interface | harness
    pub class: &'static str,
    pub what: String,
    /// the operation (if any) at which it was observed
    pub op: Option<Value>,
}

pub struct LineStats {
    pub ops_tried: usize,
    pub encodes: usize,
    pub decoded: usize,
}

/// Replays one REPLAY line (see spec/MC_Graph.tla) and returns the findings.
pub fn replay_line(lib: &Lib, world: &World, line: &Value, opts: &ReplayOpts) -> (Vec<Finding>, LineStats) {
    let mut f = Vec::new();
    let mut stats = LineStats {
        ops_tried: 0,
        encodes: 0,
        decoded: 0,
    };
    let mut m = Machine::new(world);
    for o in line["hist"].as_array().unwrap() {
        let op = Op::from_json(o);
        let a = m.apply(&op);
        if a.tag != "ok" {
            f.push(Finding {
                class: if a.tag == "panic" { "panic" } else { "result" },
                what: format!(
                    "history step expected ok, got {} ({})",
                    a.tag, a.detail
                ),
                op: Some(op.to_json()),
            });
            return (f, stats);
        }
        if let Some(p) = a.problem {
            f.push(Finding {
                class: "result",
                what: p,
                op: Some(op.to_json()),
            });
        }
    }
    check_state(lib, &m, &line["state"], None, &mut f);
    if !f.is_empty() {
        // the real graph is not in the state the spec describes, so the outcome class the spec
        // expects does not apply; what holds in every state still does: encode never fails
        // validation, never panics and never returns invalid bytes (C01).  The operations of the
        // history were all accepted, so what they designate is still the contract's state: when
        // the graph does encode, its wiring and interface are compared with that (C02, C03).
        let any = json!({"encode": ["ok", "GraphContainsCycle", "ImplicitImportConflict", "ImportTypeMergeConflict"],
                         "comps": line["state"]["comps"]});
        let with_decode = ReplayOpts {
            encode_every: 1,
            decode: opts.decode,
            hash_repeats: 0,
        };
        check_encode(lib, &m, &any, &with_decode, &mut f, &mut stats);
        return (f, stats);
    }
    let before = m.world.graph.verif_snapshot();
    // accepted candidates: on a clone
    for c in line["ok"].as_array().unwrap() {
        let op = Op::from_json(&c["o"]);
        let mut m2 = m.clone();
        let a = m2.apply(&op);
        stats.ops_tried += 1;
        if a.tag != "ok" {
            f.push(Finding {
                class: if a.tag == "panic" { "panic" } else { "result" },
                what: format!("expected ok, got {} ({})", a.tag, a.detail),
                op: Some(op.to_json()),
            });
            continue;
        }
        if let Some(p) = a.problem {
            f.push(Finding {
                class: "result",
                what: p,
                op: Some(op.to_json()),
            });
        }
        let want_ret = c["ret"].as_u64().unwrap();
        if want_ret != a.ret {
            f.push(Finding {
                class: "ret",
                what: format!(
                    "returned node is spec node {} (fresh: {}), contract says {}",
                    a.ret, a.fresh, want_ret
                ),
                op: Some(op.to_json()),
            });
        }
        let inv = m2.world.graph.verif_invariants();
        if !inv.is_empty() {
            f.push(Finding {
                class: "invariant",
                what: inv.join("; "),
                op: Some(op.to_json()),
            });
            let any = json!({"encode": ["ok", "GraphContainsCycle", "ImplicitImportConflict", "ImportTypeMergeConflict"]});
            let no_decode = ReplayOpts {
                encode_every: 1,
                decode: false,
                hash_repeats: 0,
            };
            check_encode(lib, &m2, &any, &no_decode, &mut f, &mut stats);
        }
        match m2.project(lib) {
            Err(e) => f.push(Finding {
                class: "state",
                what: e,
                op: Some(op.to_json()),
            }),
            Ok(p) => {
                let count = |k: &str, t: Option<&str>| -> u64 {
                    p[k].as_array()
                        .unwrap()
                        .iter()
                        .filter(|e| t.map(|t| e["t"] == t).unwrap_or(true))
                        .count() as u64
                };
                let d = json!([
                    count("nodes", None),
                    count("edges", Some("arg")),
                    count("edges", Some("alias")),
                    count("exports", None),
                    count("reg", None)
                ]);
                if d != c["d"] {
                    f.push(Finding {
                        class: "digest",
                        what: format!(
                            "successor digest [nodes,args,aliases,exports,reg] = {d}, contract says {}",
                            c["d"]
                        ),
                        op: Some(op.to_json()),
                    });
                }
                for q in m2.query_check(&p) {
                    f.push(Finding {
                        class: "query",
                        what: q,
                        op: Some(op.to_json()),
                    });
                }
            }
        }
    }
    // rejected candidates: the call must fail with an allowed error and leave the graph unchanged
    for grp in line["err"].as_array().unwrap() {
        let allowed: Vec<&str> = grp["a"].as_array().unwrap().iter().map(|x| x.as_str().unwrap()).collect();
        for o in grp["ops"].as_array().unwrap() {
            let op = Op::from_json(o);
            let a = m.apply(&op);
            stats.ops_tried += 1;
            if !allowed.contains(&a.tag.as_str()) {
                f.push(Finding {
                    class: if a.tag == "panic" { "panic" } else { "result" },
                    what: format!("expected one of {allowed:?}, got {} ({})", a.tag, a.detail),
                    op: Some(op.to_json()),
                });
                if a.tag == "ok" || a.tag == "panic" {
                    return (f, stats);
                }
            }
            if let Some(p) = a.problem {
                f.push(Finding {
                    class: "result",
                    what: p,
                    op: Some(op.to_json()),
                });
            }
            if strip_cache(&m.world.graph.verif_snapshot()) != strip_cache(&before) {
                f.push(Finding {
                    class: "state",
                    what: "a rejected operation changed the graph".into(),
                    op: Some(op.to_json()),
                });
                return (f, stats);
            }
        }
    }
    // encode in the state itself
    check_encode(lib, &m, &line["state"], opts, &mut f, &mut stats);
    // outcomes that depend on hash iteration order: repeat on fresh worlds (fresh hash keys)
    if line["state"]["hashsens"] == true {
        for _ in 0..opts.hash_repeats {
            let w = match World::new(lib) {
                Ok(w) => w,
                Err(_) => break,
            };
            let mut m = Machine::new(&w);
            let mut ok = true;
            for o in line["hist"].as_array().unwrap() {
                if m.apply(&Op::from_json(o)).tag != "ok" {
                    ok = false;
                    break;
                }
            }
            if !ok {
                continue;
            }
            for c in line["ok"].as_array().unwrap() {
                let op = Op::from_json(&c["o"]);
                if op.op != "remove" && op.op != "unregister" {
                    continue;
                }
                let mut m2 = m.clone();
                let a = m2.apply(&op);
                stats.ops_tried += 1;
                if a.tag != "ok" {
                    f.push(Finding {
                        class: if a.tag == "panic" { "panic" } else { "result" },
                        what: format!("(fresh hash keys) expected ok, got {} ({})", a.tag, a.detail),
                        op: Some(op.to_json()),
                    });
                    return (f, stats);
                }
                let inv = m2.world.graph.verif_invariants();
                if !inv.is_empty() {
                    f.push(Finding {
                        class: "invariant",
                        what: inv.join("; "),
                        op: Some(op.to_json()),
                    });
                    return (f, stats);
                }
            }
        }
    }
    (f, stats)
}

fn strip_cache(s: &str) -> &str {
    match s.rfind(",\"cache\":") {
        Some(i) => &s[..i],
        None => s,
    }
}

pub struct ReplayOpts {
    /// encode every n-th state only (1 = all)
    pub encode_every: usize,
    pub decode: bool,
    /// repetitions on fresh worlds for hash-order sensitive states
    pub hash_repeats: usize,
}

pub fn check_state(lib: &Lib, m: &Machine, want: &Value, op: Option<&Op>, f: &mut Vec<Finding>) {
    let inv = m.world.graph.verif_invariants();
    if !inv.is_empty() {
        f.push(Finding {
            class: "invariant",
            what: inv.join("; "),
            op: op.map(|o| o.to_json()),
        });
    }
    match m.project(lib) {
        Err(e) => f.push(Finding {
            class: "state",
            what: e,
            op: op.map(|o| o.to_json()),
        }),
        Ok(p) => {
            let want_c = canon(want);
            for key in ["reg", "nodes", "edges", "exports", "implicit"] {
                if p[key] != want_c[key] {
                    f.push(Finding {
                        // the import listing (imports()) is part of the interface contract too
                        class: if key == "implicit" { "listing" } else { "state" },
                        what: format!("{key}: real {} / spec {}", p[key], want_c[key]),
                        op: op.map(|o| o.to_json()),
                    });
                }
            }
            for q in m.query_check(&p) {
                f.push(Finding {
                    class: "query",
                    what: q,
                    op: op.map(|o| o.to_json()),
                });
            }
            // only where it can change: after a package was registered or unregistered
            if op.map(|o| o.op == "register" || o.op == "unregister").unwrap_or(false) {
                for q in m.stale_package_probe() {
                    f.push(Finding {
                        class: "query",
                        what: q,
                        op: op.map(|o| o.to_json()),
                    });
                }
            }
        }
    }
}

pub fn check_encode(
    lib: &Lib,
    m: &Machine,
    want_state: &Value,
    opts: &ReplayOpts,
    f: &mut Vec<Finding>,
    stats: &mut LineStats,
) {
    let allowed: Vec<&str> = want_state["encode"]
        .as_array()
        .unwrap()
        .iter()
        .map(|x| x.as_str().unwrap())
        .collect();
    for (dc, va) in [(true, true), (true, false), (false, true), (false, false)] {
        let (tag, detail, bytes) = m.encode(dc, va);
        stats.encodes += 1;
        let o = json!(["encode", dc, va]);
        if !allowed.contains(&tag.as_str()) {
            f.push(Finding {
                class: "encode_class",
                what: format!("encode returned {tag} ({detail}); contract allows {allowed:?}"),
                op: Some(o.clone()),
            });
            continue;
        }
        if let Some(bytes) = bytes {
            if let Err(e) = validate(&bytes) {
                f.push(Finding {
                    class: "encode_invalid",
                    what: format!("encode returned Ok but the reference validator rejects the bytes: {e}"),
                    op: Some(o.clone()),
                });
                // an output that does not validate does not have the implied interface either (C03):
                // typically an import whose type is not what its users need
                f.push(Finding {
                    class: "interface",
                    what: format!("the output is not a valid component, its imports and exports cannot be the implied ones: {e}"),
                    op: Some(o.clone()),
                });
                continue;
            }
            if opts.decode {
                stats.decoded += 1;
                for (class, what) in decode::check_against_state(lib, m, want_state, &bytes, dc) {
                    f.push(Finding {
                        class,
                        what,
                        op: Some(o.clone()),
                    });
                }
            }
        }
    }
}
