use wac_parser::{Document, DocumentPrinter};
fn strip(v: &serde_json::Value) -> serde_json::Value {
    match v {
        serde_json::Value::Object(m) => serde_json::Value::Object(m.iter().filter(|(k, _)| *k != "span" && *k != "docs").map(|(k, x)| (k.clone(), strip(x))).collect()),
        serde_json::Value::Array(a) => serde_json::Value::Array(a.iter().map(strip).collect()),
        o => o.clone(),
    }
}
fn main() {
    let text = std::env::args().nth(1).unwrap();
    let d = Document::parse(&text).unwrap();
    let mut s = String::new();
    DocumentPrinter::new(&mut s, &text, None).document(&d).unwrap();
    println!("{s}");
    let d2 = Document::parse(&s).unwrap();
    let (a, b) = (strip(&serde_json::to_value(&d).unwrap()), strip(&serde_json::to_value(&d2).unwrap()));
    println!("{}\n{}", a, b);
}
