//! regreplay: C20.  Starts an in-process Warg server, publishes the registry of spec/MC_Registry.tla
//! (a@1, a@2, b@1 with contents of very different sizes) and replays every request TLC enumerated
//! through the real RegistryPackageResolver::resolve on tokio runtimes with 1, 2 and 4 workers.
use anyhow::{Context, Result};
use indexmap::IndexMap;
use miette::SourceSpan;
use serde_json::{json, Value};
use std::collections::BTreeMap;
use std::io::{BufRead, Write};
use std::path::Path;
use std::time::Duration;
use tokio_util::sync::CancellationToken;
use wac_resolver::{Error, RegistryPackageResolver};
use wac_types::BorrowedPackageKey;
use warg_client::{
    storage::{ContentStorage, PublishEntry, PublishInfo},
    FileSystemClient,
};
use warg_crypto::signing::PrivateKey;
use warg_protocol::{operator::NamespaceState, registry::PackageName};
use warg_server::{policy::content::WasmContentPolicy, Config, Server};

const OPERATOR_KEY: &str = "ecdsa-p256:I+UlDo0HxyBBFeelhPPWmD+LnklOpqZDkrFP5VduASk=";
const SIGNING_KEY: &str = "ecdsa-p256:2CV1EpLaSYEn4In4OAEDAj5O4Hzu8AFAxgHXuG310Ew=";

fn arg(name: &str, default: &str) -> String {
    let args: Vec<String> = std::env::args().collect();
    args.iter()
        .position(|a| a == name)
        .and_then(|i| args.get(i + 1).cloned())
        .unwrap_or_else(|| default.to_string())
}

/// a valid component whose size is dominated by a data segment of `n` bytes filled with `fill`
fn content(fill: char, n: usize) -> Vec<u8> {
    let data: String = std::iter::repeat(fill).take(n).collect();
    wat::parse_str(format!(
        "(component (core module (memory 1) (data (i32.const 0) \"{data}\")))"
    ))
    .unwrap()
}

async fn publish(config: &warg_client::Config, name: &str, version: &str, content: Vec<u8>, init: bool) -> Result<()> {
    let name: PackageName = name.parse()?;
    let client = FileSystemClient::new_with_config(None, config, None).await?;
    let digest = client
        .content()
        .store_content(Box::pin(futures::stream::once(async move { Ok(content.into()) })), None)
        .await
        .context("failed to store content")?;
    let mut entries = Vec::new();
    if init {
        entries.push(PublishEntry::Init);
    }
    entries.push(PublishEntry::Release {
        version: version.parse().unwrap(),
        content: digest,
    });
    let record_id = client
        .publish_with_info(
            &PrivateKey::decode(SIGNING_KEY.to_string()).unwrap(),
            PublishInfo {
                name: name.clone(),
                head: None,
                entries,
            },
        )
        .await
        .context("failed to publish")?;
    client.wait_for_publish(&name, &record_id, Duration::from_secs(1)).await?;
    Ok(())
}

fn client_config(root: &Path, addr: &str, sub: &str) -> warg_client::Config {
    warg_client::Config {
        home_url: Some(addr.to_string()),
        registries_dir: Some(root.join(sub).join("registries")),
        content_dir: Some(root.join(sub).join("content")),
        namespace_map_path: Some(root.join(sub).join("namespaces")),
        keys: Default::default(),
        keyring_auth: false,
        ignore_federation_hints: false,
        disable_auto_accept_federation_hints: false,
        disable_auto_package_init: true,
        disable_interactive: true,
        keyring_backend: None,
    }
}

fn main() -> Result<()> {
    let fresh_every: usize = arg("--fresh-client-every", "1").parse().unwrap();
    let workers: Vec<usize> = arg("--workers", "1,4").split(',').map(|x| x.parse().unwrap()).collect();
    let root = tempfile::tempdir()?;
    let server_rt = tokio::runtime::Builder::new_multi_thread().worker_threads(2).enable_all().build()?;
    let shutdown = CancellationToken::new();
    // published contents: (name, version) -> bytes
    let names: BTreeMap<&str, &str> = [("a", "test:aaa"), ("b", "test:bbb"), ("c", "test:ccc")].into_iter().collect();
    // abstract versions 1 < 2 < 3 are rendered on ONE semver track, so that "a newer compatible
    // release" exists for a pinned key
    // (4 is a pre-release of a that sorts between 1 and 2: Registry_pre.cfg; the other models never ask for it
    // and it is never the latest release)
    let versions: BTreeMap<u64, &str> = [(1, "1.0.0"), (2, "1.1.0"), (3, "1.2.0"), (4, "1.1.0-rc.1")].into_iter().collect();
    let mut published: BTreeMap<(String, u64), Vec<u8>> = BTreeMap::new();
    published.insert(("a".into(), 1), content('x', 64));
    published.insert(("a".into(), 4), content('w', 2_000));
    published.insert(("a".into(), 2), content('y', 600_000));
    published.insert(("b".into(), 1), content('z', 30_000));
    let addr = server_rt.block_on(async {
        let config = Config::new(
            PrivateKey::decode(OPERATOR_KEY.to_string())?,
            Some(vec![("test".to_string(), NamespaceState::Defined)]),
            root.path().join("server"),
        )
        .with_addr(([127, 0, 0, 1], 0))
        .with_shutdown(shutdown.clone().cancelled_owned())
        .with_checkpoint_interval(Duration::from_millis(100))
        .with_content_policy(WasmContentPolicy::default());
        let server = Server::new(config).initialize().await?;
        let addr = format!("http://{}", server.local_addr()?);
        tokio::spawn(async move {
            server.serve().await.unwrap();
        });
        let pc = client_config(root.path(), &addr, "publisher");
        let mut seen = std::collections::BTreeSet::new();
        // (the releases of a package are published from the highest version down: "latest" is the
        // highest version, not the most recently published one)
        let mut order: Vec<_> = published.iter().collect();
        order.sort_by(|((n1, v1), _), ((n2, v2), _)| n1.cmp(n2).then(v2.cmp(v1)));
        for ((n, v), bytes) in order {
            publish(&pc, names[n.as_str()], versions[v], bytes.clone(), seen.insert(n.clone())).await?;
        }
        anyhow::Ok(addr)
    })?;

    let so = std::io::stdout();
    let mut so = so.lock();
    let (mut lines, mut calls, mut findings) = (0usize, 0usize, 0usize);
    let mut orders: std::collections::BTreeSet<String> = Default::default();
    let mut client_dir = 0usize;
    for line in std::io::stdin().lock().lines() {
        let line = line?;
        let js = match line.strip_prefix("<<\"REPLAY\", \"").and_then(|r| r.strip_suffix("\">>")) {
            Some(b) => b.replace("\\\"", "\"").replace("\\\\", "\\"),
            None => continue,
        };
        let v: Value = serde_json::from_str(&js)?;
        lines += 1;
        let req: Vec<(String, u64)> = v["req"]
            .as_array()
            .unwrap()
            .iter()
            .map(|k| (k[0].as_str().unwrap().to_string(), k[1].as_u64().unwrap()))
            .collect();
        let name_strings: Vec<String> = req.iter().map(|(n, _)| names[n.as_str()].to_string()).collect();
        let version_values: Vec<Option<semver::Version>> = req
            .iter()
            .map(|(_, v)| if *v == 0 { None } else { Some(versions[v].parse().unwrap()) })
            .collect();
        for w in &workers {
            if calls % fresh_every == 0 {
                client_dir += 1;
            }
            calls += 1;
            let config = client_config(root.path(), &addr, &format!("client{client_dir}"));
            let mut keys: IndexMap<BorrowedPackageKey<'_>, SourceSpan> = IndexMap::new();
            for (i, n) in name_strings.iter().enumerate() {
                keys.insert(
                    BorrowedPackageKey::from_name_and_version(n, version_values[i].as_ref()),
                    SourceSpan::new((i * 10).into(), 5),
                );
            }
            let rt = tokio::runtime::Builder::new_multi_thread().worker_threads(*w).enable_all().build()?;
            #[cfg(wac_verif)]
            wac_resolver::verif_completions().lock().unwrap().clear();
            let result = rt.block_on(async {
                let resolver = RegistryPackageResolver::new_with_config(None, &config, None)
                    .await
                    .map_err(|e| Error::RegistryClientFailed(e))?;
                resolver.resolve(&keys).await
            });
            #[cfg(wac_verif)]
            {
                let o = wac_resolver::verif_completions().lock().unwrap().clone();
                orders.insert(format!("{}:{:?}", req.len(), o));
            }
            let mut bad = |what: String| {
                findings += 1;
                writeln!(so, "{}", json!({"class": "registry", "what": what, "req": v["req"], "workers": w})).unwrap();
            };
            let allowed_errors = v["errors"].as_array().unwrap();
            match result {
                Ok(map) => {
                    if !allowed_errors.is_empty() {
                        bad(format!("resolve returned Ok; the contract requires one of the errors {allowed_errors:?}"));
                        continue;
                    }
                    if map.len() != req.len() {
                        bad(format!("resolve returned {} entries for {} requested keys", map.len(), req.len()));
                    }
                    for (i, (n, ver)) in req.iter().enumerate() {
                        let key = BorrowedPackageKey::from_name_and_version(&name_strings[i], version_values[i].as_ref());
                        let want = &v["map"][i];
                        let want_bytes = &published[&(want[0].as_str().unwrap().to_string(), want[1].as_u64().unwrap())];
                        match map.get(&key) {
                            None => bad(format!("key {n}@{ver} is missing from the result")),
                            Some(b) if b != want_bytes => {
                                let which = published.iter().find(|(_, c)| *c == b).map(|(k, _)| format!("{k:?}"));
                                bad(format!(
                                    "key {n}@{ver} got the content of {} ; the contract says {want}",
                                    which.unwrap_or_else(|| "unknown bytes".into())
                                ))
                            }
                            _ => {}
                        }
                    }
                }
                Err(e) => {
                    let (tag, name, span) = match &e {
                        Error::PackageDoesNotExist { name, span } => ("PackageDoesNotExist", name.clone(), Some(*span)),
                        Error::PackageVersionDoesNotExist { name, span, .. } => {
                            ("PackageVersionDoesNotExist", name.clone(), Some(*span))
                        }
                        Error::PackageNoReleases { name, span } => ("PackageNoReleases", name.clone(), Some(*span)),
                        other => ("other", other.to_string(), None),
                    };
                    // the error must be one the contract allows, attributed (by span) to the asking key
                    let ok = allowed_errors.iter().any(|a| {
                        let idx = req
                            .iter()
                            .position(|(n, ver)| n == a[1].as_str().unwrap() && *ver == a[2].as_u64().unwrap());
                        a[0] == tag
                            && names[a[1].as_str().unwrap()] == name
                            && idx.map(|i| span.map(|s| s.offset() == i * 10).unwrap_or(false)).unwrap_or(false)
                    });
                    if !ok {
                        bad(format!(
                            "resolve failed with {tag} for `{name}` at span {:?} ({e}); the contract allows {allowed_errors:?} (spans are 10 x key position)",
                            span.map(|s| s.offset())
                        ));
                    }
                }
            }
        }
    }
    writeln!(
        so,
        "{}",
        json!({"summary": true, "lines": lines, "calls": calls, "findings": findings,
               "distinct_completion_orders": orders.len(), "completion_orders": orders.iter().take(40).collect::<Vec<_>>()})
    )?;
    shutdown.cancel();
    drop(server_rt);
    Ok(())
}
