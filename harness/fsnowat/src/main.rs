//! fsnowat: C18 rows with the `wat` feature of wac-resolver OFF (see ../src/fsprobe_common.rs).
#[path = "../../src/fsprobe_common.rs"]
mod common;
fn main() {
    common::run(false);
}
